//! C18 — element containers never duplicate, leak or touch a moved-out element (engine K).
//!
//! Element type: `tok::Tok` (drop-counting, liveness-asserting, not Copy). All harnesses run the
//! real vek code; CBMC's pointer checks cover the `unsafe` plumbing (ptr::read, get_unchecked,
//! from_raw_parts, MaybeUninit, transmute_unchecked). Metadata format: see c17.rs.

use crate::tok::*;
use core::borrow::Borrow;
use core::fmt::{Debug, Write};
use core::hash::{Hash, Hasher};
use vek::mat::repr_c::{column_major as cm, row_major as rm};
use vek::vec::repr_c::{Extent2, Extent3, Rgb, Rgba, Uv, Uvw, Vec16, Vec2, Vec3, Vec32, Vec4, Vec64, Vec8};

macro_rules! ids8 { ($m:ident $(, $a:tt)*) => { $m!($($a,)* 0, 1, 2, 3, 4, 5, 6, 7) } }
macro_rules! ids16 { ($m:ident $(, $a:tt)*) => { $m!($($a,)* 0, 1, 2, 3, 4, 5, 6, 7, 8, 9, 10, 11, 12, 13, 14, 15) } }
macro_rules! ids32 { ($m:ident $(, $a:tt)*) => { $m!($($a,)* 0, 1, 2, 3, 4, 5, 6, 7, 8, 9, 10, 11, 12, 13, 14, 15,
    16, 17, 18, 19, 20, 21, 22, 23, 24, 25, 26, 27, 28, 29, 30, 31) } }
macro_rules! ids64 { ($m:ident $(, $a:tt)*) => { $m!($($a,)* 0, 1, 2, 3, 4, 5, 6, 7, 8, 9, 10, 11, 12, 13, 14, 15,
    16, 17, 18, 19, 20, 21, 22, 23, 24, 25, 26, 27, 28, 29, 30, 31, 32, 33, 34, 35, 36, 37, 38, 39, 40, 41, 42, 43, 44, 45, 46, 47,
    48, 49, 50, 51, 52, 53, 54, 55, 56, 57, 58, 59, 60, 61, 62, 63) } }
macro_rules! tok_array { ($($i:expr),+) => { [$(Tok::new($i)),+] } }
macro_rules! tok_new { ($V:ident, $($i:expr),+) => { $V::new($(Tok::new($i)),+) } }

/// After everything was dropped: ids in `0..n` dropped exactly `expect(id)` times.
fn check_drops(n: usize, expect: impl Fn(usize) -> u8) {
    let mut id = 0;
    while id < n {
        assert!(drops(id) == expect(id), "K-DROP-COUNT: element dropped a wrong number of times (leak or double drop)");
        id += 1;
    }
}

// ------------------------------------------------------------------------------------------------
// IntoIter histories
// ------------------------------------------------------------------------------------------------

const OPS_ALL: u8 = 8; // next, next_back, len, size_hint, ==, hash, {:?}, stop
const OPS_NOFMT: u8 = 7; // without {:?} (substituted by stop)

/// Arbitrary history of `n + 1` steps over the consuming iterator of an `n`-element container whose
/// element `i` is `Tok(i)`, then drop. `(front, back)` is the harness's model of the live range.
fn history<I>(mut it: I, n: usize, nops: u8)
where
    I: DoubleEndedIterator<Item = Tok> + ExactSizeIterator + PartialEq + Hash + Debug,
{
    let (mut front, mut back) = (0usize, n);
    let mut step = 0;
    let mut hasher = NullHasher(0);
    let mut exhausted_pull = false;
    while step < n + 1 {
        let op: u8 = kani::any();
        kani::assume(op < 8);
        match if op < nops { op } else { 7 } {
            0 => match it.next() {
                Some(t) => {
                    assert!(front < back, "yielded from an empty range");
                    assert!(t.id as usize == front, "next() yields the front element");
                    take(t);
                    front += 1;
                }
                None => {
                    assert!(front == back, "None although elements remain");
                    exhausted_pull = true;
                }
            },
            1 => match it.next_back() {
                Some(t) => {
                    assert!(front < back, "yielded from an empty range");
                    back -= 1;
                    assert!(t.id as usize == back, "next_back() yields the back element");
                    take(t);
                }
                None => {
                    assert!(front == back, "None although elements remain");
                    exhausted_pull = true;
                }
            },
            2 => { assert!(it.len() == back - front, "len() = remaining count"); }
            3 => { assert!(it.size_hint() == (back - front, Some(back - front)), "size_hint() = remaining count"); }
            4 => {
                let before = observed();
                assert!(it == it, "an iterator equals itself");
                assert!(observed() - before == (back - front) as u32, "== looks at exactly the live elements");
            }
            5 => {
                let before = observed();
                it.hash(&mut hasher);
                assert!(observed() - before == (back - front) as u32, "hash looks at exactly the live elements");
            }
            6 => {
                let before = observed();
                let _ = write!(NullSink, "{:?}", it);
                assert!(observed() - before == (back - front) as u32, "{{:?}} looks at exactly the live elements");
            }
            _ => break,
        }
        step += 1;
    }
    kani::cover!(front == back && exhausted_pull, "fully drained and pulled once more");
    kani::cover!(front == 0 && back == n, "dropped untouched");
    kani::cover!(front > 0 && back < n, "pulled from both ends");
    drop(it);
    // yielded tokens were leaked by the harness: any drop of them came from the iterator
    check_drops(n, |id| if id < front || id >= back { 0 } else { 1 });
}

/// K: fns=Vec2::into_iter,IntoIter::next,IntoIter::next_back,IntoIter::len,IntoIter::size_hint,IntoIter::eq,IntoIter::hash,IntoIter::fmt,IntoIter::drop
/// K: inst=Vec2<Tok> | bound=every history of 3 steps over {next,next_back,len,size_hint,==,hash,{:?},stop}, then drop; unwind 5
/// K: asserts=yields match the (front,back) model; len/size_hint = back-front; observers touch exactly the live elements; yielded ids 0 drops, others exactly 1
#[kani::proof]
#[kani::unwind(5)]
fn c18_q_intoiter_vec2() { history(tok_new!(Vec2, 0, 1).into_iter(), 2, OPS_ALL) }
/// K: fns=Vec3::into_iter,IntoIter::next,IntoIter::next_back,IntoIter::len,IntoIter::size_hint,IntoIter::eq,IntoIter::hash,IntoIter::fmt,IntoIter::drop
/// K: inst=Vec3<Tok> | bound=every history of 4 steps over {next,next_back,len,size_hint,==,hash,{:?},stop}, then drop; unwind 6
/// K: asserts=yields match the (front,back) model; len/size_hint = back-front; observers touch exactly the live elements; yielded ids 0 drops, others exactly 1
#[kani::proof]
#[kani::unwind(6)]
fn c18_q_intoiter_vec3() { history(tok_new!(Vec3, 0, 1, 2).into_iter(), 3, OPS_ALL) }
/// K: fns=Vec4::into_iter,IntoIter::next,IntoIter::next_back,IntoIter::len,IntoIter::size_hint,IntoIter::eq,IntoIter::hash,IntoIter::fmt,IntoIter::drop
/// K: inst=Vec4<Tok> | bound=every history of 5 steps over {next,next_back,len,size_hint,==,hash,{:?},stop}, then drop; unwind 7
/// K: asserts=yields match the (front,back) model; len/size_hint = back-front; observers touch exactly the live elements; yielded ids 0 drops, others exactly 1
#[kani::proof]
#[kani::unwind(7)]
fn c18_q_intoiter_vec4() { history(tok_new!(Vec4, 0, 1, 2, 3).into_iter(), 4, OPS_ALL) }
/// K: fns=Extent2::into_iter,IntoIter::next,IntoIter::next_back,IntoIter::len,IntoIter::size_hint,IntoIter::eq,IntoIter::hash,IntoIter::fmt,IntoIter::drop
/// K: inst=Extent2<Tok> | bound=every history of 3 steps, then drop; unwind 5
/// K: asserts=yields match the (front,back) model; len/size_hint = back-front; observers touch exactly the live elements; yielded ids 0 drops, others exactly 1
#[kani::proof]
#[kani::unwind(5)]
fn c18_q_intoiter_extent2() { history(tok_new!(Extent2, 0, 1).into_iter(), 2, OPS_ALL) }
/// K: fns=Extent3::into_iter,IntoIter::next,IntoIter::next_back,IntoIter::len,IntoIter::size_hint,IntoIter::eq,IntoIter::hash,IntoIter::fmt,IntoIter::drop
/// K: inst=Extent3<Tok> | bound=every history of 4 steps, then drop; unwind 6
/// K: asserts=yields match the (front,back) model; len/size_hint = back-front; observers touch exactly the live elements; yielded ids 0 drops, others exactly 1
#[kani::proof]
#[kani::unwind(6)]
fn c18_q_intoiter_extent3() { history(tok_new!(Extent3, 0, 1, 2).into_iter(), 3, OPS_ALL) }
/// K: fns=Rgb::into_iter,IntoIter::next,IntoIter::next_back,IntoIter::len,IntoIter::size_hint,IntoIter::eq,IntoIter::hash,IntoIter::fmt,IntoIter::drop
/// K: inst=Rgb<Tok> | bound=every history of 4 steps, then drop; unwind 6
/// K: asserts=yields match the (front,back) model; len/size_hint = back-front; observers touch exactly the live elements; yielded ids 0 drops, others exactly 1
#[kani::proof]
#[kani::unwind(6)]
fn c18_q_intoiter_rgb() { history(tok_new!(Rgb, 0, 1, 2).into_iter(), 3, OPS_ALL) }
/// K: fns=Rgba::into_iter,IntoIter::next,IntoIter::next_back,IntoIter::len,IntoIter::size_hint,IntoIter::eq,IntoIter::hash,IntoIter::fmt,IntoIter::drop
/// K: inst=Rgba<Tok> | bound=every history of 5 steps, then drop; unwind 7
/// K: asserts=yields match the (front,back) model; len/size_hint = back-front; observers touch exactly the live elements; yielded ids 0 drops, others exactly 1
#[kani::proof]
#[kani::unwind(7)]
fn c18_q_intoiter_rgba() { history(tok_new!(Rgba, 0, 1, 2, 3).into_iter(), 4, OPS_ALL) }
/// K: fns=Uv::into_iter,IntoIter::next,IntoIter::next_back,IntoIter::len,IntoIter::size_hint,IntoIter::eq,IntoIter::hash,IntoIter::fmt,IntoIter::drop
/// K: inst=Uv<Tok> | bound=every history of 3 steps, then drop; unwind 5
/// K: asserts=yields match the (front,back) model; len/size_hint = back-front; observers touch exactly the live elements; yielded ids 0 drops, others exactly 1
#[kani::proof]
#[kani::unwind(5)]
fn c18_q_intoiter_uv() { history(tok_new!(Uv, 0, 1).into_iter(), 2, OPS_ALL) }
/// K: fns=Uvw::into_iter,IntoIter::next,IntoIter::next_back,IntoIter::len,IntoIter::size_hint,IntoIter::eq,IntoIter::hash,IntoIter::fmt,IntoIter::drop
/// K: inst=Uvw<Tok> | bound=every history of 4 steps, then drop; unwind 6
/// K: asserts=yields match the (front,back) model; len/size_hint = back-front; observers touch exactly the live elements; yielded ids 0 drops, others exactly 1
#[kani::proof]
#[kani::unwind(6)]
fn c18_q_intoiter_uvw() { history(tok_new!(Uvw, 0, 1, 2).into_iter(), 3, OPS_ALL) }

/// K: fns=Vec8::into_iter,IntoIter::next,IntoIter::next_back,IntoIter::len,IntoIter::size_hint,IntoIter::eq,IntoIter::hash,IntoIter::fmt,IntoIter::drop
/// K: inst=Vec8<Tok> | bound=every history of 9 steps over all 8 operations, then drop; unwind 11
/// K: asserts=yields match the (front,back) model; len/size_hint = back-front; observers touch exactly the live elements; yielded ids 0 drops, others exactly 1 | cap=900
#[kani::proof]
#[kani::unwind(11)]
fn c18_t_intoiter_vec8() { history(ids8!(tok_new, Vec8).into_iter(), 8, OPS_ALL) }
/// Arbitrary history of `n + 1` steps over {next, next_back, len, size_hint, stop}, THEN one observation
/// with ==, hash (and {:?}), then drop. The observers take `&self` and the iterator has no interior
/// mutability, so observing after every prefix (stop can end the history anywhere) visits the same
/// (state, observer) pairs as interleaving observers into the history — which is what the harnesses
/// for N <= 8 do literally, and what does not finish for N >= 16.
fn history_then_observe<I>(mut it: I, n: usize, with_fmt: bool)
where
    I: DoubleEndedIterator<Item = Tok> + ExactSizeIterator + PartialEq + Hash + Debug,
{
    let (mut front, mut back) = (0usize, n);
    let mut step = 0;
    let mut exhausted_pull = false;
    while step < n + 1 {
        let op: u8 = kani::any();
        kani::assume(op < 5);
        match op {
            0 => match it.next() {
                Some(t) => {
                    assert!(front < back, "yielded from an empty range");
                    assert!(t.id as usize == front, "next() yields the front element");
                    take(t);
                    front += 1;
                }
                None => { assert!(front == back, "None although elements remain"); exhausted_pull = true; }
            },
            1 => match it.next_back() {
                Some(t) => {
                    assert!(front < back, "yielded from an empty range");
                    back -= 1;
                    assert!(t.id as usize == back, "next_back() yields the back element");
                    take(t);
                }
                None => { assert!(front == back, "None although elements remain"); exhausted_pull = true; }
            },
            2 => { assert!(it.len() == back - front, "len() = remaining count"); }
            3 => { assert!(it.size_hint() == (back - front, Some(back - front)), "size_hint() = remaining count"); }
            _ => break,
        }
        step += 1;
    }
    let live = (back - front) as u32;
    let before = observed();
    assert!(it == it, "an iterator equals itself");
    assert!(observed() - before == live, "== looks at exactly the live elements");
    let mut hasher = NullHasher(0);
    it.hash(&mut hasher);
    assert!(observed() - before == 2 * live, "hash looks at exactly the live elements");
    if with_fmt {
        let _ = write!(NullSink, "{:?}", it);
        assert!(observed() - before == 3 * live, "{{:?}} looks at exactly the live elements");
    }
    kani::cover!(front == back && exhausted_pull, "fully drained and pulled once more");
    kani::cover!(front == 0 && back == n, "dropped untouched");
    kani::cover!(front > 0 && back < n, "pulled from both ends");
    drop(it);
    check_drops(n, |id| if id < front || id >= back { 0 } else { 1 });
}

/// K: fns=Vec16::into_iter,IntoIter::next,IntoIter::next_back,IntoIter::len,IntoIter::size_hint,IntoIter::eq,IntoIter::hash,IntoIter::fmt,IntoIter::drop
/// K: inst=Vec16<Tok> | bound=every history of 17 steps over {next,next_back,len,size_hint,stop}, then ==, hash, {:?} once, then drop; unwind 19
/// K: asserts=yields match the (front,back) model; len/size_hint = back-front; observers touch exactly the live elements; yielded ids 0 drops, others exactly 1 | cap=1200
#[kani::proof]
#[kani::unwind(19)]
fn c18_t_intoiter_vec16() { history_then_observe(ids16!(tok_new, Vec16).into_iter(), 16, true) }
/// K: fns=Vec32::into_iter,IntoIter::next,IntoIter::next_back,IntoIter::len,IntoIter::size_hint,IntoIter::eq,IntoIter::hash,IntoIter::drop
/// K: inst=Vec32<Tok> | bound=every history of 33 steps over {next,next_back,len,size_hint,stop}, then == and hash once, then drop; unwind 35
/// K: asserts=yields match the (front,back) model; len/size_hint = back-front; observers touch exactly the live elements; yielded ids 0 drops, others exactly 1 | cap=1200
#[kani::proof]
#[kani::unwind(35)]
fn c18_t_intoiter_vec32() { history_then_observe(ids32!(tok_new, Vec32).into_iter(), 32, false) }
/// K: fns=Vec64::into_iter,IntoIter::next,IntoIter::next_back,IntoIter::len,IntoIter::size_hint,IntoIter::eq,IntoIter::hash,IntoIter::drop
/// K: inst=Vec64<Tok> | bound=every history of 65 steps over {next,next_back,len,size_hint,stop}, then == and hash once, then drop; unwind 67
/// K: asserts=yields match the (front,back) model; len/size_hint = back-front; observers touch exactly the live elements; yielded ids 0 drops, others exactly 1 | cap=1200
#[kani::proof]
#[kani::unwind(67)]
fn c18_t_intoiter_vec64() { history_then_observe(ids64!(tok_new, Vec64).into_iter(), 64, false) }

/// Arbitrary history of at most `n` pulls over {next, next_back, stop} on an iterator whose element `i`
/// is `Tok(base + i)`; returns the harness model (front, back) of its live range.
fn advance<I>(it: &mut I, n: usize, base: u8) -> (usize, usize)
where
    I: DoubleEndedIterator<Item = Tok> + ExactSizeIterator,
{
    let (mut front, mut back) = (0usize, n);
    let mut step = 0;
    while step < n {
        let op: u8 = kani::any();
        kani::assume(op < 3);
        match op {
            0 => match it.next() {
                Some(t) => { assert!(t.id as usize == base as usize + front, "next() yields the front element"); take(t); front += 1; }
                None => { assert!(front == back); }
            },
            1 => match it.next_back() {
                Some(t) => { back -= 1; assert!(t.id as usize == base as usize + back, "next_back() yields the back element"); take(t); }
                None => { assert!(front == back); }
            },
            _ => break,
        }
        step += 1;
    }
    assert!(it.len() == back - front);
    (front, back)
}

/// Two DIFFERENT iterators, each after its own arbitrary pull history: `a == b` must hold exactly when
/// the remaining live ranges have equal length and pairwise equal payloads; neither `==` nor `hash`
/// may touch a yielded token of either side (Tok asserts liveness); equal iterators hash equally.
/// Tokens: a = Tok(0..n) , b = Tok(8..8+n), payloads arbitrary in {0,1} (so equality is common).
macro_rules! two_iter_body {
    ($V:ident, $n:expr, [$($i:expr),+]) => {{
        let va: [u8; $n] = kani::any();
        let vb: [u8; $n] = kani::any();
        kani::assume(true $(&& va[$i] < 2 && vb[$i] < 2)+);
        let mut a = $V::new($(Tok::with($i, va[$i])),+).into_iter();
        let mut b = $V::new($(Tok::with(8 + $i, vb[$i])),+).into_iter();
        let (fa, ba) = advance(&mut a, $n, 0);
        let (fb, bb) = advance(&mut b, $n, 8);
        // the harness model of "the remaining elements are equal"
        let mut want = ba - fa == bb - fb;
        let mut k = 0;
        while k < $n {
            if want && fa + k < ba && va[fa + k] != vb[fb + k] { want = false; }
            k += 1;
        }
        let before = observed();
        let eq_ab = a == b;
        let eq_ba = b == a;
        assert!(eq_ab == want, "a == b exactly when the remaining live ranges are equal");
        assert!(eq_ba == want, "== is symmetric");
        assert!(observed() - before <= 2 * (ba - fa) as u32, "== compares at most the live elements");
        let (mut ha, mut hb) = (MixHasher(0), MixHasher(0));
        let before = observed();
        a.hash(&mut ha);
        b.hash(&mut hb);
        assert!(observed() - before == ((ba - fa) + (bb - fb)) as u32, "hash looks at exactly the live elements of each");
        if eq_ab { assert!(ha.finish() == hb.finish(), "equal iterators hash equally"); }
        kani::cover!(want && ba - fa >= 2 && fa != fb, "equal non-empty remainders at different offsets");
        kani::cover!(want && fa == ba && fb == bb && fa != fb, "both exhausted (at different cursors)");
        kani::cover!(!want && ba - fa == bb - fb && ba > fa, "same length, different payloads");
        kani::cover!(!want && ba - fa != bb - fb, "different lengths");
        kani::cover!(!want && fb >= ba && bb > fb, "b's cursor beyond a's end");
        drop(a);
        drop(b);
        check_drops($n, |id| if id < fa || id >= ba { 0 } else { 1 });
        let mut id = 0;
        while id < $n { assert!(drops(8 + id) == if id < fb || id >= bb { 0 } else { 1 }); id += 1; }
    }};
}
/// K: fns=IntoIter::eq,IntoIter::hash,Vec3::into_iter,IntoIter::next,IntoIter::next_back,IntoIter::len,IntoIter::drop
/// K: inst=two vec3::IntoIter<Tok> | bound=every pair of pull histories (<= 3 pulls each over next/next_back/stop), payloads in {0,1}; unwind 6
/// K: asserts=a==b iff remaining ranges have equal length and pairwise equal payloads; symmetric; == and hash never touch a yielded token of either iterator; a==b => equal hashes; drop counts exact
#[kani::proof]
#[kani::unwind(6)]
fn c18_q_two_iters_vec3() { two_iter_body!(Vec3, 3, [0, 1, 2]) }
/// K: fns=IntoIter::eq,IntoIter::hash,Vec4::into_iter,IntoIter::next,IntoIter::next_back,IntoIter::len,IntoIter::drop
/// K: inst=two vec4::IntoIter<Tok> | bound=every pair of pull histories (<= 4 pulls each over next/next_back/stop), payloads in {0,1}; unwind 7
/// K: asserts=a==b iff remaining ranges have equal length and pairwise equal payloads; symmetric; == and hash never touch a yielded token of either iterator; a==b => equal hashes; drop counts exact
#[kani::proof]
#[kani::unwind(7)]
fn c18_q_two_iters_vec4() { two_iter_body!(Vec4, 4, [0, 1, 2, 3]) }
/// K: fns=IntoIter::eq,IntoIter::hash,Rgba::into_iter,IntoIter::next,IntoIter::next_back | inst=two rgba::IntoIter<Tok> | bound=every pair of pull histories (<= 4 pulls each), payloads in {0,1}; unwind 7
/// K: asserts=a==b iff remaining ranges have equal length and pairwise equal payloads; symmetric; no read of yielded tokens; a==b => equal hashes; drop counts exact
#[kani::proof]
#[kani::unwind(7)]
fn c18_q_two_iters_rgba() { two_iter_body!(Rgba, 4, [0, 1, 2, 3]) }
/// K: fns=IntoIter::eq,IntoIter::hash,Extent3::into_iter,IntoIter::next,IntoIter::next_back | inst=two extent3::IntoIter<Tok> | bound=every pair of pull histories (<= 3 pulls each), payloads in {0,1}; unwind 6
/// K: asserts=a==b iff remaining ranges have equal length and pairwise equal payloads; symmetric; no read of yielded tokens; a==b => equal hashes; drop counts exact
#[kani::proof]
#[kani::unwind(6)]
fn c18_q_two_iters_extent3() { two_iter_body!(Extent3, 3, [0, 1, 2]) }

/// Reach an arbitrary (front, back) state by `f` front pulls and `b` back pulls (both symbolic),
/// then observe through `==`, `hash` and `{:?}`, pull once more from an arbitrary end, then drop.
/// Covers every reachable state of the live range; the order of pulls is not varied here (it is in
/// the history harnesses, and the iterator state is exactly (start, end)).
fn observe_states<I>(mut it: I, n: usize, with_fmt: bool)
where
    I: DoubleEndedIterator<Item = Tok> + ExactSizeIterator + PartialEq + Hash + Debug,
{
    let f: usize = kani::any();
    let b: usize = kani::any();
    kani::assume(f <= n && b <= n && f + b <= n + 1);
    let (mut front, mut back) = (0usize, n);
    let mut i = 0;
    while i < f {
        match it.next() {
            Some(t) => { assert!(t.id as usize == front); take(t); front += 1; }
            None => { assert!(front == back); }
        }
        i += 1;
    }
    let mut j = 0;
    while j < b {
        match it.next_back() {
            Some(t) => { back -= 1; assert!(t.id as usize == back); take(t); }
            None => { assert!(front == back); }
        }
        j += 1;
    }
    assert!(it.len() == back - front);
    assert!(it.size_hint() == (back - front, Some(back - front)));
    let live = (back - front) as u32;
    let before = observed();
    assert!(it == it);
    assert!(observed() - before == live);
    let mut h = NullHasher(0);
    it.hash(&mut h);
    assert!(observed() - before == 2 * live);
    if with_fmt {
        let _ = write!(NullSink, "{:?}", it);
        assert!(observed() - before == 3 * live);
    }
    kani::cover!(front == back && f + b == n + 1, "drained, then pulled once more");
    kani::cover!(front == 0 && back == n, "untouched");
    kani::cover!(front > 0 && back < n && back - front == 1, "one live element in the middle");
    drop(it);
    check_drops(n, |id| if id < front || id >= back { 0 } else { 1 });
}

/// K: fns=Vec16::into_iter,IntoIter::next,IntoIter::next_back,IntoIter::len,IntoIter::size_hint,IntoIter::eq,IntoIter::hash,IntoIter::fmt,IntoIter::drop
/// K: inst=Vec16<Tok> | bound=every (front,back) state (f front pulls then b back pulls, f+b<=17), observed with ==, hash, {:?}, then drop; unwind 19
/// K: asserts=yields match the model; observers touch exactly the live elements; yielded ids 0 drops, others exactly 1 | cap=1200
#[kani::proof]
#[kani::unwind(19)]
fn c18_t_observe_vec16() { observe_states(ids16!(tok_new, Vec16).into_iter(), 16, true) }
/// K: fns=Vec32::into_iter,IntoIter::next,IntoIter::next_back,IntoIter::len,IntoIter::size_hint,IntoIter::eq,IntoIter::hash,IntoIter::drop
/// K: inst=Vec32<Tok> | bound=every (front,back) state (f front pulls then b back pulls, f+b<=33), observed with == and hash, then drop; unwind 35
/// K: asserts=yields match the model; observers touch exactly the live elements; yielded ids 0 drops, others exactly 1 | cap=1200
#[kani::proof]
#[kani::unwind(35)]
fn c18_t_observe_vec32() { observe_states(ids32!(tok_new, Vec32).into_iter(), 32, false) }
/// K: fns=Vec64::into_iter,IntoIter::next,IntoIter::next_back,IntoIter::len,IntoIter::size_hint,IntoIter::eq,IntoIter::hash,IntoIter::drop
/// K: inst=Vec64<Tok> | bound=every (front,back) state (f front pulls then b back pulls, f+b<=65), observed with == and hash, then drop; unwind 67
/// K: asserts=yields match the model; observers touch exactly the live elements; yielded ids 0 drops, others exactly 1 | cap=1200
#[kani::proof]
#[kani::unwind(67)]
fn c18_t_observe_vec64() { observe_states(ids64!(tok_new, Vec64).into_iter(), 64, false) }

// ------------------------------------------------------------------------------------------------
// conversions: arrays, tuples, iterators, map
// ------------------------------------------------------------------------------------------------

/// Field-by-field check of a named-field vector: element i is Tok(base+i), still live.
macro_rules! fields_are {
    ($v:expr, $base:expr, [$($f:tt),+]) => {{
        let mut k: u8 = $base;
        $( assert!(peek(&$v.$f) == k, "element order"); k += 1; )+
        let _ = k;
    }};
}
macro_rules! array_is {
    ($a:expr, $base:expr, $n:expr) => {{
        let mut i = 0usize;
        while i < $n {
            assert!(peek(&$a[i]) == $base + i as u8, "element order");
            i += 1;
        }
    }};
}

/// From<[T;N]>, into_array, From<tuple>, into_tuple, map for one vector type.
macro_rules! conv_body {
    ($V:ident, $n:expr, [$($f:tt),+], ($($tf:tt),+), [$($id:expr),+]) => {{
        // [T;N] -> V -> [T;N]
        let v = $V::from([$(Tok::new($id)),+]);
        fields_are!(v, 0, [$($f),+]);
        check_drops($n, |_| 0);
        let a: [Tok; $n] = v.into_array();
        array_is!(a, 0, $n);
        check_drops($n, |_| 0);
        // tuple -> V -> tuple
        let v = $V::from(($(Tok::new(32 + $id)),+));
        fields_are!(v, 32, [$($f),+]);
        let t = v.into_tuple();
        { let mut k: u8 = 32; $( assert!(peek(&t.$tf) == k); k += 1; )+ let _ = k; }
        // map: each element passed to the closure exactly once, result in the same position
        let v = $V::from(a);
        let mut calls = 0u8;
        let m = v.map(|t| { assert!(peek(&t) == calls, "map visits elements in order"); calls += 1; Boxed(t) });
        assert!(calls == $n);
        { let mut k: u8 = 0; $( assert!(peek(&m.$f.0) == k); k += 1; )+ let _ = k; }
        check_drops($n, |_| 0);
        kani::cover!(calls == $n, "map ran");
        drop(m);
        drop(t);
        check_drops($n, |_| 1);
        let mut id = 32; while id < 32 + $n { assert!(drops(id) == 1); id += 1; }
    }};
}

/// K: fns=Vec2::from([T;2]),Vec2::into_array,Vec2::from(tuple),Vec2::into_tuple,Vec2::map + same for Vec3,Vec4
/// K: inst=Vec2/Vec3/Vec4<Tok> | bound=dims 2,3,4; unwind 6
/// K: asserts=each token appears exactly once at the documented position, nothing dropped during conversion, each dropped exactly once at the end
#[kani::proof]
#[kani::unwind(6)]
fn c18_q_conv_vec234() {
    match kani::any::<u8>() % 3 {
        0 => conv_body!(Vec2, 2, [x, y], (0, 1), [0, 1]),
        1 => conv_body!(Vec3, 3, [x, y, z], (0, 1, 2), [0, 1, 2]),
        _ => conv_body!(Vec4, 4, [x, y, z, w], (0, 1, 2, 3), [0, 1, 2, 3]),
    }
}
/// K: fns=from([T;N]),into_array,from(tuple),into_tuple,map on Extent2,Extent3,Rgb,Rgba,Uv,Uvw
/// K: inst=Extent2/Extent3/Rgb/Rgba/Uv/Uvw<Tok> | bound=dims 2,3,4; unwind 6
/// K: asserts=each token appears exactly once at the documented position, nothing dropped during conversion, each dropped exactly once at the end
#[kani::proof]
#[kani::unwind(6)]
fn c18_q_conv_other_types() {
    match kani::any::<u8>() % 6 {
        0 => conv_body!(Extent2, 2, [w, h], (0, 1), [0, 1]),
        1 => conv_body!(Extent3, 3, [w, h, d], (0, 1, 2), [0, 1, 2]),
        2 => conv_body!(Rgb, 3, [r, g, b], (0, 1, 2), [0, 1, 2]),
        3 => conv_body!(Rgba, 4, [r, g, b, a], (0, 1, 2, 3), [0, 1, 2, 3]),
        4 => conv_body!(Uv, 2, [u, v], (0, 1), [0, 1]),
        _ => conv_body!(Uvw, 3, [u, v, w], (0, 1, 2), [0, 1, 2]),
    }
}
/// K: fns=Vec8::from([T;8]),Vec8::into_array,Vec8::from(tuple),Vec8::into_tuple,Vec8::map
/// K: inst=Vec8<Tok> | bound=dim 8; unwind 10
/// K: asserts=each token appears exactly once at the documented position, nothing dropped during conversion, each dropped exactly once at the end
#[kani::proof]
#[kani::unwind(10)]
fn c18_t_conv_vec8() {
    conv_body!(Vec8, 8, [0, 1, 2, 3, 4, 5, 6, 7], (0, 1, 2, 3, 4, 5, 6, 7), [0, 1, 2, 3, 4, 5, 6, 7])
}

/// [T;N] -> V -> [T;N] for the big vectors (tuples of 16+ are not checked here: same macro arm as Vec8).
macro_rules! conv_big_body {
    ($V:ident, $n:expr, $($id:tt),+) => {{
        let v = $V::from([$(Tok::new($id)),+]);
        $( assert!(peek(&v.$id) == $id, "element order"); )+
        check_drops($n, |_| 0);
        let m = v.map(|t| Boxed(t));
        $( assert!(peek(&m.$id.0) == $id, "element order after map"); )+
        let v = m.map(|b| b.0);
        let a: [Tok; $n] = v.into_array();
        array_is!(a, 0, $n);
        check_drops($n, |_| 0);
        kani::cover!(a[$n - 1].id as usize == $n - 1, "last element arrived");
        drop(a);
        check_drops($n, |_| 1);
    }};
}
/// K: fns=Vec16::from([T;16]),Vec16::map,Vec16::into_array | inst=Vec16<Tok> | bound=dim 16; unwind 18
/// K: asserts=each token appears exactly once at the documented position, nothing dropped during conversion, each dropped exactly once at the end
#[kani::proof]
#[kani::unwind(18)]
fn c18_t_conv_vec16() { ids16!(conv_big_body, Vec16, 16) }
/// K: fns=Vec32::from([T;32]),Vec32::map,Vec32::into_array | inst=Vec32<Tok> | bound=dim 32; unwind 34
/// K: asserts=each token appears exactly once at the documented position, nothing dropped during conversion, each dropped exactly once at the end
#[kani::proof]
#[kani::unwind(34)]
fn c18_t_conv_vec32() { ids32!(conv_big_body, Vec32, 32) }
/// K: fns=Vec64::from([T;64]),Vec64::map,Vec64::into_array | inst=Vec64<Tok> | bound=dim 64; unwind 66
/// K: asserts=each token appears exactly once at the documented position, nothing dropped during conversion, each dropped exactly once at the end
#[kani::proof]
#[kani::unwind(66)]
fn c18_t_conv_vec64() { ids64!(conv_big_body, Vec64, 64) }

/// Source iterator handing out Tok(64), Tok(65), ... `count` times, then `None` once. It is deliberately not fused:
/// asked again after that `None` it would go on handing out tokens, so a consumer that keeps polling past the end
/// is seen by the "exactly min(len, N) items were pulled" assertion.
struct Feed { next: u8, end: u8 }
impl Iterator for Feed {
    type Item = Tok;
    fn next(&mut self) -> Option<Tok> {
        if self.next == self.end { self.end = 120; None } else { self.next += 1; Some(Tok::new(self.next - 1)) }
    }
}

/// from_iter with an iterator of arbitrary length 0..=N+2: the first min(len,N) items land in
/// order, the remaining slots keep `Default` tokens, the replaced defaults are dropped exactly once,
/// surplus items are never pulled.
macro_rules! from_iter_body {
    ($V:ident, $n:expr, [$($f:tt),+]) => {{
        let len: u8 = kani::any();
        kani::assume(len as usize <= $n + 2);
        let mut feed = Feed { next: 64, end: 64 + len };
        let v: $V<Tok> = (&mut feed).collect();
        let taken = if (len as usize) < $n { len } else { $n as u8 };
        assert!(feed.next == 64 + taken, "exactly min(len, N) items were pulled from the source");
        assert!(defaults_made() == $n, "one Default per slot");
        let mut k: u8 = 0;
        $(
            if k < taken {
                assert!(peek(&v.$f) == 64 + k, "item k lands in slot k");
                assert!(drops((DEFAULT_BASE + k) as usize) == 1, "the replaced default was dropped once");
            } else {
                assert!(peek(&v.$f) >= DEFAULT_BASE, "unfilled slot keeps a default");
            }
            k += 1;
        )+
        let _ = k;
        kani::cover!(len == 0, "empty iterator");
        kani::cover!((len as usize) < $n && len > 0, "shorter iterator");
        kani::cover!((len as usize) > $n, "longer iterator");
        drop(v);
        let mut i = 0usize;
        while i < $n {
            assert!(drops(DEFAULT_BASE as usize + i) == 1, "every default dropped exactly once");
            assert!(drops(64 + i) == if i < taken as usize { 1 } else { 0 }, "every collected item dropped exactly once");
            i += 1;
        }
    }};
}
/// K: fns=Vec2::from_iter,Vec3::from_iter,Vec4::from_iter,Rgba::from_iter,Extent3::from_iter | inst=<Tok>
/// K: bound=source iterators of every length 0..=N+2; unwind 7
/// K: asserts=items land in order; unfilled slots keep Default; replaced defaults dropped once; total drops exact
#[kani::proof]
#[kani::unwind(7)]
fn c18_q_from_iter() {
    match kani::any::<u8>() % 5 {
        0 => from_iter_body!(Vec2, 2, [x, y]),
        1 => from_iter_body!(Vec3, 3, [x, y, z]),
        2 => from_iter_body!(Vec4, 4, [x, y, z, w]),
        3 => from_iter_body!(Rgba, 4, [r, g, b, a]),
        _ => from_iter_body!(Extent3, 3, [w, h, d]),
    }
}
/// K: fns=Vec8::from_iter | inst=Vec8<Tok> | bound=source iterators of every length 0..=10; unwind 11
/// K: asserts=items land in order; unfilled slots keep Default; replaced defaults dropped once; total drops exact
#[kani::proof]
#[kani::unwind(11)]
fn c18_t_from_iter_vec8() { from_iter_body!(Vec8, 8, [0, 1, 2, 3, 4, 5, 6, 7]) }


// ------------------------------------------------------------------------------------------------
// wide vectors: From<tuple> / into_tuple (generated: one literal per dimension)
// ------------------------------------------------------------------------------------------------
/// K: fns=Vec16::from(tuple),Vec16::into_tuple | inst=Vec16<Tok> | bound=dim 16; unwind 18
/// K: asserts=each token appears exactly once at the documented position, nothing dropped during conversion, each dropped exactly once at the end
#[kani::proof]
#[kani::unwind(18)]
fn c18_q_tuple_vec16() {
    let v = Vec16::<Tok>::from((Tok::new(0), Tok::new(1), Tok::new(2), Tok::new(3), Tok::new(4), Tok::new(5), Tok::new(6), Tok::new(7), Tok::new(8), Tok::new(9), Tok::new(10), Tok::new(11), Tok::new(12), Tok::new(13), Tok::new(14), Tok::new(15)));
    assert!(peek(&v.0) == 0, "tuple element k lands in slot k"); assert!(peek(&v.1) == 1, "tuple element k lands in slot k"); assert!(peek(&v.2) == 2, "tuple element k lands in slot k"); assert!(peek(&v.3) == 3, "tuple element k lands in slot k"); assert!(peek(&v.4) == 4, "tuple element k lands in slot k"); assert!(peek(&v.5) == 5, "tuple element k lands in slot k"); assert!(peek(&v.6) == 6, "tuple element k lands in slot k"); assert!(peek(&v.7) == 7, "tuple element k lands in slot k"); assert!(peek(&v.8) == 8, "tuple element k lands in slot k"); assert!(peek(&v.9) == 9, "tuple element k lands in slot k"); assert!(peek(&v.10) == 10, "tuple element k lands in slot k"); assert!(peek(&v.11) == 11, "tuple element k lands in slot k"); assert!(peek(&v.12) == 12, "tuple element k lands in slot k"); assert!(peek(&v.13) == 13, "tuple element k lands in slot k"); assert!(peek(&v.14) == 14, "tuple element k lands in slot k"); assert!(peek(&v.15) == 15, "tuple element k lands in slot k");
    check_drops(16, |_| 0);
    let t = v.into_tuple();
    assert!(peek(&t.0) == 0, "slot k goes to tuple position k"); assert!(peek(&t.1) == 1, "slot k goes to tuple position k"); assert!(peek(&t.2) == 2, "slot k goes to tuple position k"); assert!(peek(&t.3) == 3, "slot k goes to tuple position k"); assert!(peek(&t.4) == 4, "slot k goes to tuple position k"); assert!(peek(&t.5) == 5, "slot k goes to tuple position k"); assert!(peek(&t.6) == 6, "slot k goes to tuple position k"); assert!(peek(&t.7) == 7, "slot k goes to tuple position k"); assert!(peek(&t.8) == 8, "slot k goes to tuple position k"); assert!(peek(&t.9) == 9, "slot k goes to tuple position k"); assert!(peek(&t.10) == 10, "slot k goes to tuple position k"); assert!(peek(&t.11) == 11, "slot k goes to tuple position k"); assert!(peek(&t.12) == 12, "slot k goes to tuple position k"); assert!(peek(&t.13) == 13, "slot k goes to tuple position k"); assert!(peek(&t.14) == 14, "slot k goes to tuple position k"); assert!(peek(&t.15) == 15, "slot k goes to tuple position k");
    check_drops(16, |_| 0);
    kani::cover!(peek(&t.15) == 15, "last element");
    drop(t);
    check_drops(16, |_| 1);
}
/// K: fns=Vec32::from(tuple),Vec32::into_tuple | inst=Vec32<Tok> | bound=dim 32; unwind 34
/// K: asserts=each token appears exactly once at the documented position, nothing dropped during conversion, each dropped exactly once at the end
#[kani::proof]
#[kani::unwind(34)]
fn c18_q_tuple_vec32() {
    let v = Vec32::<Tok>::from((Tok::new(0), Tok::new(1), Tok::new(2), Tok::new(3), Tok::new(4), Tok::new(5), Tok::new(6), Tok::new(7), Tok::new(8), Tok::new(9), Tok::new(10), Tok::new(11), Tok::new(12), Tok::new(13), Tok::new(14), Tok::new(15), Tok::new(16), Tok::new(17), Tok::new(18), Tok::new(19), Tok::new(20), Tok::new(21), Tok::new(22), Tok::new(23), Tok::new(24), Tok::new(25), Tok::new(26), Tok::new(27), Tok::new(28), Tok::new(29), Tok::new(30), Tok::new(31)));
    assert!(peek(&v.0) == 0, "tuple element k lands in slot k"); assert!(peek(&v.1) == 1, "tuple element k lands in slot k"); assert!(peek(&v.2) == 2, "tuple element k lands in slot k"); assert!(peek(&v.3) == 3, "tuple element k lands in slot k"); assert!(peek(&v.4) == 4, "tuple element k lands in slot k"); assert!(peek(&v.5) == 5, "tuple element k lands in slot k"); assert!(peek(&v.6) == 6, "tuple element k lands in slot k"); assert!(peek(&v.7) == 7, "tuple element k lands in slot k"); assert!(peek(&v.8) == 8, "tuple element k lands in slot k"); assert!(peek(&v.9) == 9, "tuple element k lands in slot k"); assert!(peek(&v.10) == 10, "tuple element k lands in slot k"); assert!(peek(&v.11) == 11, "tuple element k lands in slot k"); assert!(peek(&v.12) == 12, "tuple element k lands in slot k"); assert!(peek(&v.13) == 13, "tuple element k lands in slot k"); assert!(peek(&v.14) == 14, "tuple element k lands in slot k"); assert!(peek(&v.15) == 15, "tuple element k lands in slot k"); assert!(peek(&v.16) == 16, "tuple element k lands in slot k"); assert!(peek(&v.17) == 17, "tuple element k lands in slot k"); assert!(peek(&v.18) == 18, "tuple element k lands in slot k"); assert!(peek(&v.19) == 19, "tuple element k lands in slot k"); assert!(peek(&v.20) == 20, "tuple element k lands in slot k"); assert!(peek(&v.21) == 21, "tuple element k lands in slot k"); assert!(peek(&v.22) == 22, "tuple element k lands in slot k"); assert!(peek(&v.23) == 23, "tuple element k lands in slot k"); assert!(peek(&v.24) == 24, "tuple element k lands in slot k"); assert!(peek(&v.25) == 25, "tuple element k lands in slot k"); assert!(peek(&v.26) == 26, "tuple element k lands in slot k"); assert!(peek(&v.27) == 27, "tuple element k lands in slot k"); assert!(peek(&v.28) == 28, "tuple element k lands in slot k"); assert!(peek(&v.29) == 29, "tuple element k lands in slot k"); assert!(peek(&v.30) == 30, "tuple element k lands in slot k"); assert!(peek(&v.31) == 31, "tuple element k lands in slot k");
    check_drops(32, |_| 0);
    let t = v.into_tuple();
    assert!(peek(&t.0) == 0, "slot k goes to tuple position k"); assert!(peek(&t.1) == 1, "slot k goes to tuple position k"); assert!(peek(&t.2) == 2, "slot k goes to tuple position k"); assert!(peek(&t.3) == 3, "slot k goes to tuple position k"); assert!(peek(&t.4) == 4, "slot k goes to tuple position k"); assert!(peek(&t.5) == 5, "slot k goes to tuple position k"); assert!(peek(&t.6) == 6, "slot k goes to tuple position k"); assert!(peek(&t.7) == 7, "slot k goes to tuple position k"); assert!(peek(&t.8) == 8, "slot k goes to tuple position k"); assert!(peek(&t.9) == 9, "slot k goes to tuple position k"); assert!(peek(&t.10) == 10, "slot k goes to tuple position k"); assert!(peek(&t.11) == 11, "slot k goes to tuple position k"); assert!(peek(&t.12) == 12, "slot k goes to tuple position k"); assert!(peek(&t.13) == 13, "slot k goes to tuple position k"); assert!(peek(&t.14) == 14, "slot k goes to tuple position k"); assert!(peek(&t.15) == 15, "slot k goes to tuple position k"); assert!(peek(&t.16) == 16, "slot k goes to tuple position k"); assert!(peek(&t.17) == 17, "slot k goes to tuple position k"); assert!(peek(&t.18) == 18, "slot k goes to tuple position k"); assert!(peek(&t.19) == 19, "slot k goes to tuple position k"); assert!(peek(&t.20) == 20, "slot k goes to tuple position k"); assert!(peek(&t.21) == 21, "slot k goes to tuple position k"); assert!(peek(&t.22) == 22, "slot k goes to tuple position k"); assert!(peek(&t.23) == 23, "slot k goes to tuple position k"); assert!(peek(&t.24) == 24, "slot k goes to tuple position k"); assert!(peek(&t.25) == 25, "slot k goes to tuple position k"); assert!(peek(&t.26) == 26, "slot k goes to tuple position k"); assert!(peek(&t.27) == 27, "slot k goes to tuple position k"); assert!(peek(&t.28) == 28, "slot k goes to tuple position k"); assert!(peek(&t.29) == 29, "slot k goes to tuple position k"); assert!(peek(&t.30) == 30, "slot k goes to tuple position k"); assert!(peek(&t.31) == 31, "slot k goes to tuple position k");
    check_drops(32, |_| 0);
    kani::cover!(peek(&t.31) == 31, "last element");
    drop(t);
    check_drops(32, |_| 1);
}
/// K: fns=Vec64::from(tuple),Vec64::into_tuple | inst=Vec64<Tok> | bound=dim 64; unwind 66
/// K: asserts=each token appears exactly once at the documented position, nothing dropped during conversion, each dropped exactly once at the end
#[kani::proof]
#[kani::unwind(66)]
fn c18_t_tuple_vec64() {
    let v = Vec64::<Tok>::from((Tok::new(0), Tok::new(1), Tok::new(2), Tok::new(3), Tok::new(4), Tok::new(5), Tok::new(6), Tok::new(7), Tok::new(8), Tok::new(9), Tok::new(10), Tok::new(11), Tok::new(12), Tok::new(13), Tok::new(14), Tok::new(15), Tok::new(16), Tok::new(17), Tok::new(18), Tok::new(19), Tok::new(20), Tok::new(21), Tok::new(22), Tok::new(23), Tok::new(24), Tok::new(25), Tok::new(26), Tok::new(27), Tok::new(28), Tok::new(29), Tok::new(30), Tok::new(31), Tok::new(32), Tok::new(33), Tok::new(34), Tok::new(35), Tok::new(36), Tok::new(37), Tok::new(38), Tok::new(39), Tok::new(40), Tok::new(41), Tok::new(42), Tok::new(43), Tok::new(44), Tok::new(45), Tok::new(46), Tok::new(47), Tok::new(48), Tok::new(49), Tok::new(50), Tok::new(51), Tok::new(52), Tok::new(53), Tok::new(54), Tok::new(55), Tok::new(56), Tok::new(57), Tok::new(58), Tok::new(59), Tok::new(60), Tok::new(61), Tok::new(62), Tok::new(63)));
    assert!(peek(&v.0) == 0, "tuple element k lands in slot k"); assert!(peek(&v.1) == 1, "tuple element k lands in slot k"); assert!(peek(&v.2) == 2, "tuple element k lands in slot k"); assert!(peek(&v.3) == 3, "tuple element k lands in slot k"); assert!(peek(&v.4) == 4, "tuple element k lands in slot k"); assert!(peek(&v.5) == 5, "tuple element k lands in slot k"); assert!(peek(&v.6) == 6, "tuple element k lands in slot k"); assert!(peek(&v.7) == 7, "tuple element k lands in slot k"); assert!(peek(&v.8) == 8, "tuple element k lands in slot k"); assert!(peek(&v.9) == 9, "tuple element k lands in slot k"); assert!(peek(&v.10) == 10, "tuple element k lands in slot k"); assert!(peek(&v.11) == 11, "tuple element k lands in slot k"); assert!(peek(&v.12) == 12, "tuple element k lands in slot k"); assert!(peek(&v.13) == 13, "tuple element k lands in slot k"); assert!(peek(&v.14) == 14, "tuple element k lands in slot k"); assert!(peek(&v.15) == 15, "tuple element k lands in slot k"); assert!(peek(&v.16) == 16, "tuple element k lands in slot k"); assert!(peek(&v.17) == 17, "tuple element k lands in slot k"); assert!(peek(&v.18) == 18, "tuple element k lands in slot k"); assert!(peek(&v.19) == 19, "tuple element k lands in slot k"); assert!(peek(&v.20) == 20, "tuple element k lands in slot k"); assert!(peek(&v.21) == 21, "tuple element k lands in slot k"); assert!(peek(&v.22) == 22, "tuple element k lands in slot k"); assert!(peek(&v.23) == 23, "tuple element k lands in slot k"); assert!(peek(&v.24) == 24, "tuple element k lands in slot k"); assert!(peek(&v.25) == 25, "tuple element k lands in slot k"); assert!(peek(&v.26) == 26, "tuple element k lands in slot k"); assert!(peek(&v.27) == 27, "tuple element k lands in slot k"); assert!(peek(&v.28) == 28, "tuple element k lands in slot k"); assert!(peek(&v.29) == 29, "tuple element k lands in slot k"); assert!(peek(&v.30) == 30, "tuple element k lands in slot k"); assert!(peek(&v.31) == 31, "tuple element k lands in slot k"); assert!(peek(&v.32) == 32, "tuple element k lands in slot k"); assert!(peek(&v.33) == 33, "tuple element k lands in slot k"); assert!(peek(&v.34) == 34, "tuple element k lands in slot k"); assert!(peek(&v.35) == 35, "tuple element k lands in slot k"); assert!(peek(&v.36) == 36, "tuple element k lands in slot k"); assert!(peek(&v.37) == 37, "tuple element k lands in slot k"); assert!(peek(&v.38) == 38, "tuple element k lands in slot k"); assert!(peek(&v.39) == 39, "tuple element k lands in slot k"); assert!(peek(&v.40) == 40, "tuple element k lands in slot k"); assert!(peek(&v.41) == 41, "tuple element k lands in slot k"); assert!(peek(&v.42) == 42, "tuple element k lands in slot k"); assert!(peek(&v.43) == 43, "tuple element k lands in slot k"); assert!(peek(&v.44) == 44, "tuple element k lands in slot k"); assert!(peek(&v.45) == 45, "tuple element k lands in slot k"); assert!(peek(&v.46) == 46, "tuple element k lands in slot k"); assert!(peek(&v.47) == 47, "tuple element k lands in slot k"); assert!(peek(&v.48) == 48, "tuple element k lands in slot k"); assert!(peek(&v.49) == 49, "tuple element k lands in slot k"); assert!(peek(&v.50) == 50, "tuple element k lands in slot k"); assert!(peek(&v.51) == 51, "tuple element k lands in slot k"); assert!(peek(&v.52) == 52, "tuple element k lands in slot k"); assert!(peek(&v.53) == 53, "tuple element k lands in slot k"); assert!(peek(&v.54) == 54, "tuple element k lands in slot k"); assert!(peek(&v.55) == 55, "tuple element k lands in slot k"); assert!(peek(&v.56) == 56, "tuple element k lands in slot k"); assert!(peek(&v.57) == 57, "tuple element k lands in slot k"); assert!(peek(&v.58) == 58, "tuple element k lands in slot k"); assert!(peek(&v.59) == 59, "tuple element k lands in slot k"); assert!(peek(&v.60) == 60, "tuple element k lands in slot k"); assert!(peek(&v.61) == 61, "tuple element k lands in slot k"); assert!(peek(&v.62) == 62, "tuple element k lands in slot k"); assert!(peek(&v.63) == 63, "tuple element k lands in slot k");
    check_drops(64, |_| 0);
    let t = v.into_tuple();
    assert!(peek(&t.0) == 0, "slot k goes to tuple position k"); assert!(peek(&t.1) == 1, "slot k goes to tuple position k"); assert!(peek(&t.2) == 2, "slot k goes to tuple position k"); assert!(peek(&t.3) == 3, "slot k goes to tuple position k"); assert!(peek(&t.4) == 4, "slot k goes to tuple position k"); assert!(peek(&t.5) == 5, "slot k goes to tuple position k"); assert!(peek(&t.6) == 6, "slot k goes to tuple position k"); assert!(peek(&t.7) == 7, "slot k goes to tuple position k"); assert!(peek(&t.8) == 8, "slot k goes to tuple position k"); assert!(peek(&t.9) == 9, "slot k goes to tuple position k"); assert!(peek(&t.10) == 10, "slot k goes to tuple position k"); assert!(peek(&t.11) == 11, "slot k goes to tuple position k"); assert!(peek(&t.12) == 12, "slot k goes to tuple position k"); assert!(peek(&t.13) == 13, "slot k goes to tuple position k"); assert!(peek(&t.14) == 14, "slot k goes to tuple position k"); assert!(peek(&t.15) == 15, "slot k goes to tuple position k"); assert!(peek(&t.16) == 16, "slot k goes to tuple position k"); assert!(peek(&t.17) == 17, "slot k goes to tuple position k"); assert!(peek(&t.18) == 18, "slot k goes to tuple position k"); assert!(peek(&t.19) == 19, "slot k goes to tuple position k"); assert!(peek(&t.20) == 20, "slot k goes to tuple position k"); assert!(peek(&t.21) == 21, "slot k goes to tuple position k"); assert!(peek(&t.22) == 22, "slot k goes to tuple position k"); assert!(peek(&t.23) == 23, "slot k goes to tuple position k"); assert!(peek(&t.24) == 24, "slot k goes to tuple position k"); assert!(peek(&t.25) == 25, "slot k goes to tuple position k"); assert!(peek(&t.26) == 26, "slot k goes to tuple position k"); assert!(peek(&t.27) == 27, "slot k goes to tuple position k"); assert!(peek(&t.28) == 28, "slot k goes to tuple position k"); assert!(peek(&t.29) == 29, "slot k goes to tuple position k"); assert!(peek(&t.30) == 30, "slot k goes to tuple position k"); assert!(peek(&t.31) == 31, "slot k goes to tuple position k"); assert!(peek(&t.32) == 32, "slot k goes to tuple position k"); assert!(peek(&t.33) == 33, "slot k goes to tuple position k"); assert!(peek(&t.34) == 34, "slot k goes to tuple position k"); assert!(peek(&t.35) == 35, "slot k goes to tuple position k"); assert!(peek(&t.36) == 36, "slot k goes to tuple position k"); assert!(peek(&t.37) == 37, "slot k goes to tuple position k"); assert!(peek(&t.38) == 38, "slot k goes to tuple position k"); assert!(peek(&t.39) == 39, "slot k goes to tuple position k"); assert!(peek(&t.40) == 40, "slot k goes to tuple position k"); assert!(peek(&t.41) == 41, "slot k goes to tuple position k"); assert!(peek(&t.42) == 42, "slot k goes to tuple position k"); assert!(peek(&t.43) == 43, "slot k goes to tuple position k"); assert!(peek(&t.44) == 44, "slot k goes to tuple position k"); assert!(peek(&t.45) == 45, "slot k goes to tuple position k"); assert!(peek(&t.46) == 46, "slot k goes to tuple position k"); assert!(peek(&t.47) == 47, "slot k goes to tuple position k"); assert!(peek(&t.48) == 48, "slot k goes to tuple position k"); assert!(peek(&t.49) == 49, "slot k goes to tuple position k"); assert!(peek(&t.50) == 50, "slot k goes to tuple position k"); assert!(peek(&t.51) == 51, "slot k goes to tuple position k"); assert!(peek(&t.52) == 52, "slot k goes to tuple position k"); assert!(peek(&t.53) == 53, "slot k goes to tuple position k"); assert!(peek(&t.54) == 54, "slot k goes to tuple position k"); assert!(peek(&t.55) == 55, "slot k goes to tuple position k"); assert!(peek(&t.56) == 56, "slot k goes to tuple position k"); assert!(peek(&t.57) == 57, "slot k goes to tuple position k"); assert!(peek(&t.58) == 58, "slot k goes to tuple position k"); assert!(peek(&t.59) == 59, "slot k goes to tuple position k"); assert!(peek(&t.60) == 60, "slot k goes to tuple position k"); assert!(peek(&t.61) == 61, "slot k goes to tuple position k"); assert!(peek(&t.62) == 62, "slot k goes to tuple position k"); assert!(peek(&t.63) == 63, "slot k goes to tuple position k");
    check_drops(64, |_| 0);
    kani::cover!(peek(&t.63) == 63, "last element");
    drop(t);
    check_drops(64, |_| 1);
}

// ------------------------------------------------------------------------------------------------
// matrices: {into,from}_{row,col}_array(s), map — both layouts
// ------------------------------------------------------------------------------------------------

/// One matrix size in one layout. `$M::new` takes m_ij in row-major reading order in BOTH layouts
/// (documented), so with Tok(n*i+j) at (i,j): row array k holds Tok(k); col array k = n*j+i holds
/// Tok(n*i+j). Element (i,j) is read through the public storage field directly (`rows.i.j` or
/// `cols.j.i`), not through vek's indexing.
macro_rules! mat_body {
    ($M:path, $n:expr, $nn:expr, $at:ident, [$($id:expr),+]) => {{
        type M<T> = $M;
        let which: u8 = kani::any();
        kani::assume(which < 5);
        kani::cover!(which == 0); kani::cover!(which == 1); kani::cover!(which == 2); kani::cover!(which == 3); kani::cover!(which == 4);
        if which == 0 {
            // row array -> matrix -> row array
            let m = M::<Tok>::from_row_array([$(Tok::new($id)),+]);
            let mut i = 0; while i < $n { let mut j = 0; while j < $n { assert!(peek($at!(m, i, j)) as usize == $n * i + j); j += 1; } i += 1; }
            check_drops($nn, |_| 0);
            let a = m.into_row_array();
            array_is!(a, 0, $nn);
            check_drops($nn, |_| 0);
            drop(a);
        } else if which == 1 {
            // col array -> matrix -> col array
            let m = M::<Tok>::from_col_array([$(Tok::new($id)),+]);
            let mut i = 0; while i < $n { let mut j = 0; while j < $n { assert!(peek($at!(m, i, j)) as usize == $n * j + i); j += 1; } i += 1; }
            check_drops($nn, |_| 0);
            let a = m.into_col_array();
            array_is!(a, 0, $nn);
            check_drops($nn, |_| 0);
            drop(a);
        } else if which == 2 {
            // row array -> matrix -> nested col arrays -> matrix -> nested row arrays
            let m = M::<Tok>::from_row_array([$(Tok::new($id)),+]);
            let c = m.into_col_arrays();
            let mut i = 0; while i < $n { let mut j = 0; while j < $n { assert!(peek(&c[j][i]) as usize == $n * i + j); j += 1; } i += 1; }
            check_drops($nn, |_| 0);
            let m = M::<Tok>::from_col_arrays(c);
            let r = m.into_row_arrays();
            let mut i = 0; while i < $n { let mut j = 0; while j < $n { assert!(peek(&r[i][j]) as usize == $n * i + j); j += 1; } i += 1; }
            check_drops($nn, |_| 0);
            let m = M::<Tok>::from_row_arrays(r);
            let mut i = 0; while i < $n { let mut j = 0; while j < $n { assert!(peek($at!(m, i, j)) as usize == $n * i + j); j += 1; } i += 1; }
            drop(m);
        } else if which == 3 {
            // col array -> matrix -> row array: transposition of the reading order
            let m = M::<Tok>::from_col_array([$(Tok::new($id)),+]);
            let a = m.into_row_array();
            let mut i = 0; while i < $n { let mut j = 0; while j < $n { assert!(peek(&a[$n * i + j]) as usize == $n * j + i); j += 1; } i += 1; }
            check_drops($nn, |_| 0);
            drop(a);
        } else {
            // map keeps positions, calls the closure once per element
            let m = M::<Tok>::from_row_array([$(Tok::new($id)),+]);
            let mut calls = 0u8;
            let b = m.map(|t| { calls += 1; Boxed(t) });
            assert!(calls as usize == $nn);
            let mut i = 0; while i < $n { let mut j = 0; while j < $n { assert!(peek(&$at!(b, i, j).0) as usize == $n * i + j); j += 1; } i += 1; }
            check_drops($nn, |_| 0);
            drop(b);
        }
        check_drops($nn, |_| 1);
    }};
}
// element (i,j) of a matrix through its public storage (vectors deref to slices: as_slice is part of C18)
macro_rules! at_rows { ($m:expr, $i:expr, $j:expr) => { &$m.rows[$i][$j] } }
macro_rules! at_cols { ($m:expr, $i:expr, $j:expr) => { &$m.cols[$j][$i] } }
macro_rules! mat4_rows_body { ($($id:expr),+) => { mat_body!(rm::Mat4<T>, 4, 16, at_rows, [$($id),+]) } }
macro_rules! mat4_cols_body { ($($id:expr),+) => { mat_body!(cm::Mat4<T>, 4, 16, at_cols, [$($id),+]) } }

/// K: fns=Mat2::from_row_array,Mat2::into_row_array,Mat2::from_col_array,Mat2::into_col_array,Mat2::into_col_arrays,Mat2::from_col_arrays,Mat2::into_row_arrays,Mat2::from_row_arrays,Mat2::map
/// K: inst=row_major::Mat2<Tok> | bound=2x2; unwind 6
/// K: asserts=token n*i+j sits at (i,j) / at the documented array position after every conversion; no drop during conversion; each dropped exactly once at the end
#[kani::proof]
#[kani::unwind(6)]
fn c18_q_mat2_rows() { mat_body!(rm::Mat2<T>, 2, 4, at_rows, [0, 1, 2, 3]) }
/// K: fns=Mat2::from_row_array,Mat2::into_row_array,Mat2::from_col_array,Mat2::into_col_array,Mat2::into_col_arrays,Mat2::from_col_arrays,Mat2::into_row_arrays,Mat2::from_row_arrays,Mat2::map
/// K: inst=column_major::Mat2<Tok> | bound=2x2; unwind 6
/// K: asserts=token n*i+j sits at (i,j) / at the documented array position after every conversion; no drop during conversion; each dropped exactly once at the end
#[kani::proof]
#[kani::unwind(6)]
fn c18_q_mat2_cols() { mat_body!(cm::Mat2<T>, 2, 4, at_cols, [0, 1, 2, 3]) }
/// K: fns=Mat3::from_row_array,Mat3::into_row_array,Mat3::from_col_array,Mat3::into_col_array,Mat3::into_col_arrays,Mat3::from_col_arrays,Mat3::into_row_arrays,Mat3::from_row_arrays,Mat3::map
/// K: inst=row_major::Mat3<Tok> | bound=3x3; unwind 11
/// K: asserts=token n*i+j sits at (i,j) / at the documented array position after every conversion; no drop during conversion; each dropped exactly once at the end
#[kani::proof]
#[kani::unwind(11)]
fn c18_q_mat3_rows() { mat_body!(rm::Mat3<T>, 3, 9, at_rows, [0, 1, 2, 3, 4, 5, 6, 7, 8]) }
/// K: fns=Mat3::from_row_array,Mat3::into_row_array,Mat3::from_col_array,Mat3::into_col_array,Mat3::into_col_arrays,Mat3::from_col_arrays,Mat3::into_row_arrays,Mat3::from_row_arrays,Mat3::map
/// K: inst=column_major::Mat3<Tok> | bound=3x3; unwind 11
/// K: asserts=token n*i+j sits at (i,j) / at the documented array position after every conversion; no drop during conversion; each dropped exactly once at the end
#[kani::proof]
#[kani::unwind(11)]
fn c18_q_mat3_cols() { mat_body!(cm::Mat3<T>, 3, 9, at_cols, [0, 1, 2, 3, 4, 5, 6, 7, 8]) }
/// K: fns=Mat4::from_row_array,Mat4::into_row_array,Mat4::from_col_array,Mat4::into_col_array,Mat4::into_col_arrays,Mat4::from_col_arrays,Mat4::into_row_arrays,Mat4::from_row_arrays,Mat4::map
/// K: inst=row_major::Mat4<Tok> | bound=4x4; unwind 18
/// K: asserts=token n*i+j sits at (i,j) / at the documented array position after every conversion; no drop during conversion; each dropped exactly once at the end
#[kani::proof]
#[kani::unwind(18)]
fn c18_q_mat4_rows() { ids16!(mat4_rows_body) }
/// K: fns=Mat4::from_row_array,Mat4::into_row_array,Mat4::from_col_array,Mat4::into_col_array,Mat4::into_col_arrays,Mat4::from_col_arrays,Mat4::into_row_arrays,Mat4::from_row_arrays,Mat4::map
/// K: inst=column_major::Mat4<Tok> | bound=4x4; unwind 18
/// K: asserts=token n*i+j sits at (i,j) / at the documented array position after every conversion; no drop during conversion; each dropped exactly once at the end
#[kani::proof]
#[kani::unwind(18)]
fn c18_q_mat4_cols() { ids16!(mat4_cols_body) }

// ------------------------------------------------------------------------------------------------
// C03 with an element type that is not Copy: the nested-array conversions agree on (i,j) and hand over
// the very elements they were given (the same conversions as above, asserted from C03's point of view:
// a row-major and a column-major value built from the same nested rows hold token n*i+j at (i,j))
// ------------------------------------------------------------------------------------------------
macro_rules! c03_nested_body {
    ($n:expr, $nn:expr, $R:ident, $C:ident, [$([$($id:expr),+]),+]) => {{
        let which: u8 = kani::any();
        kani::assume(which < 4);
        kani::cover!(which == 0); kani::cover!(which == 1); kani::cover!(which == 2); kani::cover!(which == 3);
        if which == 0 {
            let r = rm::$R::<Tok>::from_row_arrays([$([$(Tok::new($id)),+]),+]);
            let mut i = 0; while i < $n { let mut j = 0; while j < $n { assert!(peek(&r.rows[i][j]) as usize == $n * i + j, "rows: from_row_arrays[i][j] is (i,j)"); j += 1; } i += 1; }
            let a = r.into_col_arrays();
            let mut i = 0; while i < $n { let mut j = 0; while j < $n { assert!(peek(&a[j][i]) as usize == $n * i + j, "rows: into_col_arrays[j][i] is (i,j)"); j += 1; } i += 1; }
            check_drops($nn, |_| 0);
        } else if which == 1 {
            let c = cm::$C::<Tok>::from_row_arrays([$([$(Tok::new($id)),+]),+]);
            let mut i = 0; while i < $n { let mut j = 0; while j < $n { assert!(peek(&c.cols[j][i]) as usize == $n * i + j, "cols: from_row_arrays[i][j] is (i,j)"); j += 1; } i += 1; }
            let a = c.into_row_arrays();
            let mut i = 0; while i < $n { let mut j = 0; while j < $n { assert!(peek(&a[i][j]) as usize == $n * i + j, "cols: into_row_arrays[i][j] is (i,j)"); j += 1; } i += 1; }
            check_drops($nn, |_| 0);
        } else if which == 2 {
            // given as columns: token n*i+j is listed at [i][j] = column i, row j
            let r = rm::$R::<Tok>::from_col_arrays([$([$(Tok::new($id)),+]),+]);
            let mut i = 0; while i < $n { let mut j = 0; while j < $n { assert!(peek(&r.rows[j][i]) as usize == $n * i + j, "rows: from_col_arrays[c][r] is (r,c)"); j += 1; } i += 1; }
            let a = r.into_row_arrays();
            let mut i = 0; while i < $n { let mut j = 0; while j < $n { assert!(peek(&a[j][i]) as usize == $n * i + j, "rows: into_row_arrays after from_col_arrays"); j += 1; } i += 1; }
            check_drops($nn, |_| 0);
        } else {
            let c = cm::$C::<Tok>::from_col_arrays([$([$(Tok::new($id)),+]),+]);
            let mut i = 0; while i < $n { let mut j = 0; while j < $n { assert!(peek(&c.cols[i][j]) as usize == $n * i + j, "cols: from_col_arrays[c][r] is (r,c)"); j += 1; } i += 1; }
            let a = c.into_col_arrays();
            let mut i = 0; while i < $n { let mut j = 0; while j < $n { assert!(peek(&a[i][j]) as usize == $n * i + j, "cols: into_col_arrays round trip"); j += 1; } i += 1; }
            check_drops($nn, |_| 0);
        }
        check_drops($nn, |_| 1);
    }};
}
/// K: fns=Mat2::from_row_arrays,Mat2::from_col_arrays,Mat2::into_row_arrays,Mat2::into_col_arrays,Mat3::from_row_arrays,Mat3::from_col_arrays,Mat3::into_row_arrays,Mat3::into_col_arrays
/// K: inst=row_major and column_major Mat2/Mat3 of a non-Copy ownership-tracking element | bound=2x2 and 3x3; unwind 11
/// K: asserts=both layouts agree that nested row/column arrays list element (i,j) where the name says; the elements handed back are the live originals (not dropped, not duplicated); each dropped exactly once at the end
#[kani::proof]
#[kani::unwind(11)]
fn c03_q_nested_arrays_noncopy() {
    if kani::any() {
        c03_nested_body!(2, 4, Mat2, Mat2, [[0, 1], [2, 3]])
    } else {
        c03_nested_body!(3, 9, Mat3, Mat3, [[0, 1, 2], [3, 4, 5], [6, 7, 8]])
    }
}
/// K: fns=Mat4::from_row_arrays,Mat4::from_col_arrays,Mat4::into_row_arrays,Mat4::into_col_arrays
/// K: inst=row_major and column_major Mat4 of a non-Copy ownership-tracking element | bound=4x4; unwind 18
/// K: asserts=both layouts agree that nested row/column arrays list element (i,j) where the name says; the elements handed back are the live originals; each dropped exactly once at the end
#[kani::proof]
#[kani::unwind(18)]
fn c03_q_nested_arrays_noncopy_mat4() {
    c03_nested_body!(4, 16, Mat4, Mat4, [[0, 1, 2, 3], [4, 5, 6, 7], [8, 9, 10, 11], [12, 13, 14, 15]])
}

// ------------------------------------------------------------------------------------------------
// slice views alias the value's own storage
// ------------------------------------------------------------------------------------------------

macro_rules! slice_body {
    ($V:ident, $n:expr, [$($f:tt),+]) => {{
        let mut v = $V::<u8> { $($f: kani::any()),+ };
        let base = &v as *const $V<u8> as *const u8;
        assert!(core::mem::size_of::<$V<u8>>() == $n, "tightly packed");
        let views: [&[u8]; 4] = [v.as_slice(), &*v, AsRef::<[u8]>::as_ref(&v), Borrow::<[u8]>::borrow(&v)];
        let w: u8 = kani::any();
        kani::assume(w < 4);
        let s = views[w as usize];
        assert!(s.as_ptr() == base, "the view starts at the value's address");
        assert!(s.len() == $n, "one entry per element");
        let mut k = 0usize;
        $(
            assert!(&s[k] as *const u8 == &v.$f as *const u8, "entry k is field k");
            assert!(s[k] == v.$f);
            k += 1;
        )+
        let _ = k;
        kani::cover!(w == 3 && s[$n - 1] == 77, "Borrow view, last entry");
        // mutable views: a write through the view lands in the field, and only there
        let i: usize = kani::any();
        kani::assume(i < $n);
        let before = $V::<u8> { $($f: v.$f),+ };
        let mw: u8 = kani::any();
        kani::assume(mw < 4);
        {
            let ms: &mut [u8] = match mw {
                0 => v.as_mut_slice(),
                1 => &mut *v,
                2 => AsMut::<[u8]>::as_mut(&mut v),
                _ => core::borrow::BorrowMut::<[u8]>::borrow_mut(&mut v),
            };
            assert!(ms.as_ptr() == base && ms.len() == $n);
            ms[i] = ms[i].wrapping_add(1);
        }
        let mut k = 0usize;
        $(
            assert!(v.$f == if k == i { before.$f.wrapping_add(1) } else { before.$f }, "write through the view hits field i only");
            k += 1;
        )+
        let _ = k;
        kani::cover!(i == $n - 1 && mw == 2, "AsMut view, last entry written");
    }};
}
/// K: fns=as_slice,as_mut_slice,Deref::deref,DerefMut::deref_mut,AsRef<[T]>::as_ref,AsMut<[T]>::as_mut,Borrow<[T]>::borrow,BorrowMut<[T]>::borrow_mut
/// K: inst=Vec2,Vec3,Vec4,Extent2,Extent3,Rgb,Rgba,Uv,Uvw of u8 | bound=arbitrary bytes, symbolic view kind and index; unwind 6
/// K: asserts=view pointer = value address; len = N; entry k is field k (address and value); a write through a mutable view changes exactly field i
#[kani::proof]
#[kani::unwind(6)]
fn c18_q_slice_views_small() {
    match kani::any::<u8>() % 9 {
        0 => slice_body!(Vec2, 2, [x, y]),
        1 => slice_body!(Vec3, 3, [x, y, z]),
        2 => slice_body!(Vec4, 4, [x, y, z, w]),
        3 => slice_body!(Extent2, 2, [w, h]),
        4 => slice_body!(Extent3, 3, [w, h, d]),
        5 => slice_body!(Rgb, 3, [r, g, b]),
        6 => slice_body!(Rgba, 4, [r, g, b, a]),
        7 => slice_body!(Uv, 2, [u, v]),
        _ => slice_body!(Uvw, 3, [u, v, w]),
    }
}

macro_rules! slice_big_body {
    ($V:ident, $n:expr, $($id:tt),+) => {{
        let arr: [u8; $n] = kani::any();
        let mut v = $V::<u8>::from(arr);
        let base = &v as *const $V<u8> as *const u8;
        assert!(core::mem::size_of::<$V<u8>>() == $n, "tightly packed");
        let w: u8 = kani::any();
        kani::assume(w < 4);
        let s: &[u8] = match w { 0 => v.as_slice(), 1 => &*v, 2 => AsRef::<[u8]>::as_ref(&v), _ => Borrow::<[u8]>::borrow(&v) };
        assert!(s.as_ptr() == base && s.len() == $n);
        $(
            assert!(&s[$id] as *const u8 == &v.$id as *const u8, "entry k is field k");
            assert!(s[$id] == arr[$id], "From<[T;N]> keeps the order");
        )+
        let i: usize = kani::any();
        kani::assume(i < $n);
        kani::cover!(i == $n - 1 && w == 1);
        v.as_mut_slice()[i] = arr[i].wrapping_add(1);
        $( assert!(v.$id == if $id == i { arr[$id].wrapping_add(1) } else { arr[$id] }); )+
    }};
}
/// K: fns=Vec8::as_slice,Vec8::as_mut_slice,Deref,AsRef,Borrow,Vec8::from([T;8]) | inst=Vec8<u8> | bound=arbitrary bytes, symbolic index; unwind 10
/// K: asserts=view pointer = value address; len = N; entry k is field k; write through as_mut_slice changes exactly field i
#[kani::proof]
#[kani::unwind(10)]
fn c18_q_slice_views_vec8() { ids8!(slice_big_body, Vec8, 8) }
/// K: fns=Vec16::as_slice,Vec16::as_mut_slice,Deref,AsRef,Borrow,Vec16::from([T;16]) | inst=Vec16<u8> | bound=arbitrary bytes, symbolic index; unwind 18
/// K: asserts=view pointer = value address; len = N; entry k is field k; write through as_mut_slice changes exactly field i
#[kani::proof]
#[kani::unwind(18)]
fn c18_t_slice_views_vec16() { ids16!(slice_big_body, Vec16, 16) }
/// K: fns=Vec32::as_slice,Vec32::as_mut_slice,Deref,AsRef,Borrow,Vec32::from([T;32]) | inst=Vec32<u8> | bound=arbitrary bytes, symbolic index; unwind 34
/// K: asserts=view pointer = value address; len = N; entry k is field k; write through as_mut_slice changes exactly field i
#[kani::proof]
#[kani::unwind(34)]
fn c18_t_slice_views_vec32() { ids32!(slice_big_body, Vec32, 32) }
/// K: fns=Vec64::as_slice,Vec64::as_mut_slice,Deref,AsRef,Borrow,Vec64::from([T;64]) | inst=Vec64<u8> | bound=arbitrary bytes, symbolic index; unwind 66
/// K: asserts=view pointer = value address; len = N; entry k is field k; write through as_mut_slice changes exactly field i
#[kani::proof]
#[kani::unwind(66)]
fn c18_t_slice_views_vec64() { ids64!(slice_big_body, Vec64, 64) }

/// K: fns=&Vec4::into_iter,&mut Vec4::into_iter,Vec4::iter,Vec4::iter_mut | inst=Vec4<Tok>,Rgb<Tok> | bound=dims 3,4; unwind 6
/// K: asserts=borrowing iteration visits every element once in order and drops nothing; the vector still owns all tokens afterwards
#[kani::proof]
#[kani::unwind(6)]
fn c18_q_borrowing_iter() {
    let mut v = tok_new!(Vec4, 0, 1, 2, 3);
    let mut k = 0u8;
    for t in &v { assert!(peek(t) == k); k += 1; }
    assert!(k == 4);
    for t in &mut v { t.id += 100; }
    let mut k = 100u8;
    for t in v.iter() { assert!(peek(t) == k); k += 1; }
    kani::cover!(k == 104);
    check_drops(4, |_| 0);
    drop(v);
    let mut id = 100; while id < 104 { assert!(drops(id) == 1); id += 1; }
    let c = tok_new!(Rgb, 10, 11, 12);
    let mut k = 10u8;
    for t in &c { assert!(peek(t) == k); k += 1; }
    assert!(k == 13);
    drop(c);
    assert!(drops(10) == 1 && drops(11) == 1 && drops(12) == 1);
}
