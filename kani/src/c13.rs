//! C13 (K part) — comparison-only box methods on Aabr<i8>/Aabb<i8> against pointwise set semantics
//! with an arbitrary point (machine order, no arithmetic in vek => no overflow). Boxes are arbitrary
//! (valid or not) unless a precondition is stated. Metadata format: see c17.rs.

use vek::geom::repr_c::{Aabb, Aabr};
use vek::vec::repr_c::{Vec2, Vec3};

fn any_v2() -> Vec2<i8> { Vec2::new(kani::any(), kani::any()) }
fn any_v3() -> Vec3<i8> { Vec3::new(kani::any(), kani::any(), kani::any()) }
fn any_r() -> Aabr<i8> { Aabr { min: any_v2(), max: any_v2() } }
fn any_b() -> Aabb<i8> { Aabb { min: any_v3(), max: any_v3() } }
// the harness's own membership oracle (closed intervals per axis)
fn in_r(b: Aabr<i8>, p: Vec2<i8>) -> bool { b.min.x <= p.x && p.x <= b.max.x && b.min.y <= p.y && p.y <= b.max.y }
fn in_b(b: Aabb<i8>, p: Vec3<i8>) -> bool {
    b.min.x <= p.x && p.x <= b.max.x && b.min.y <= p.y && p.y <= b.max.y && b.min.z <= p.z && p.z <= b.max.z
}
fn valid_r(b: Aabr<i8>) -> bool { b.min.x <= b.max.x && b.min.y <= b.max.y }
fn valid_b(b: Aabb<i8>) -> bool { b.min.x <= b.max.x && b.min.y <= b.max.y && b.min.z <= b.max.z }

/// K: fns=Aabr::contains_point,Aabb::contains_point,Aabr::is_valid,Aabb::is_valid | inst=Aabr<i8>,Aabb<i8> | bound=all corners and points (valid and invalid boxes)
/// K: asserts=contains_point <=> closed-interval membership on every axis; is_valid <=> min<=max on every axis
#[kani::proof]
fn c13_q_contains_point() {
    let (a, p) = (any_r(), any_v2());
    kani::cover!(a.contains_point(p) && p.x == a.max.x && p.y == a.min.y, "boundary point");
    assert!(a.contains_point(p) == in_r(a, p));
    assert!(a.is_valid() == valid_r(a));
    let (a, p) = (any_b(), any_v3());
    kani::cover!(a.contains_point(p) && p.z == a.max.z, "boundary point 3D");
    kani::cover!(!a.contains_point(p) && valid_b(a));
    assert!(a.contains_point(p) == in_b(a, p));
    assert!(a.is_valid() == valid_b(a));
}
/// K: fns=Aabr::intersection,Aabb::intersection,Aabr::intersect,Aabb::intersect | inst=Aabr<i8>,Aabb<i8> | bound=all boxes (valid or not) and an arbitrary point
/// K: asserts=p in A∩B <=> p in A and p in B; for valid A,B: A∩B invalid <=> disjoint on some axis; in-place form equals returning form
#[kani::proof]
fn c13_q_intersection() {
    let (a, b, p) = (any_r(), any_r(), any_v2());
    let i = a.intersection(b);
    kani::cover!(in_r(i, p) && a.min.x < b.min.x && b.max.y < a.max.y, "overlapping, point inside");
    kani::cover!(valid_r(a) && valid_r(b) && !valid_r(i), "disjoint");
    assert!(in_r(i, p) == (in_r(a, p) && in_r(b, p)));
    if valid_r(a) && valid_r(b) {
        let disjoint = a.max.x < b.min.x || b.max.x < a.min.x || a.max.y < b.min.y || b.max.y < a.min.y;
        assert!(!valid_r(i) == disjoint);
    }
    let mut m = a; m.intersect(b);
    assert!(m.min == i.min && m.max == i.max);
    let (a, b, p) = (any_b(), any_b(), any_v3());
    let i = a.intersection(b);
    kani::cover!(in_b(i, p) && a.min.z < b.min.z, "3D overlapping");
    assert!(in_b(i, p) == (in_b(a, p) && in_b(b, p)));
    let mut m = a; m.intersect(b);
    assert!(m.min == i.min && m.max == i.max);
}
/// K: fns=Aabr::union,Aabb::union,Aabr::expand_to_contain,Aabr::expanded_to_contain_point,Aabb::expanded_to_contain_point,Aabr::new_empty | inst=Aabr<i8>,Aabb<i8>
/// K: bound=all valid boxes A,B, arbitrary point, arbitrary competitor box C | asserts=A∪B contains every point of A and of B, and every valid box C containing A and B contains A∪B (smallest); expanded_to_contain_point = union with the point box
#[kani::proof]
fn c13_q_union() {
    let (a, b, c, p) = (any_r(), any_r(), any_r(), any_v2());
    kani::assume(valid_r(a) && valid_r(b));
    let u = a.union(b);
    kani::cover!(in_r(u, p) && !in_r(a, p) && !in_r(b, p), "hull point outside both");
    if in_r(a, p) || in_r(b, p) { assert!(in_r(u, p)); }
    let c_has = |x: Aabr<i8>| c.min.x <= x.min.x && x.max.x <= c.max.x && c.min.y <= x.min.y && x.max.y <= c.max.y;
    if c_has(a) && c_has(b) { assert!(c_has(u), "the union is the smallest box containing both"); }
    let mut m = a; m.expand_to_contain(b);
    assert!(m.min == u.min && m.max == u.max);
    let e = a.expanded_to_contain_point(p);
    assert!(in_r(e, p) && in_r(e, a.min) && in_r(e, a.max));
    assert!(e.min.x == if p.x < a.min.x { p.x } else { a.min.x } && e.max.y == if p.y > a.max.y { p.y } else { a.max.y });
    let (a, b, c, p) = (any_b(), any_b(), any_b(), any_v3());
    kani::assume(valid_b(a) && valid_b(b));
    let u = a.union(b);
    kani::cover!(in_b(u, p) && !in_b(a, p) && !in_b(b, p), "3D hull point outside both");
    if in_b(a, p) || in_b(b, p) { assert!(in_b(u, p)); }
    let c_has = |x: Aabb<i8>| c.min.x <= x.min.x && x.max.x <= c.max.x && c.min.y <= x.min.y && x.max.y <= c.max.y && c.min.z <= x.min.z && x.max.z <= c.max.z;
    if c_has(a) && c_has(b) { assert!(c_has(u)); }
    let e = a.expanded_to_contain_point(p);
    assert!(in_b(e, p) && in_b(e, a.min) && in_b(e, a.max));
}
/// K: fns=Aabr::contains_aabr,Aabb::contains_aabb | inst=Aabr<i8>,Aabb<i8> | bound=all A, all valid B, arbitrary point
/// K: asserts=contains(A,B) and p in B => p in A; not contains(A,B) => some corner of B is outside A (so contains <=> every point of B is in A)
#[kani::proof]
fn c13_q_contains_box() {
    let (a, b, p) = (any_r(), any_r(), any_v2());
    kani::assume(valid_r(b));
    let c = a.contains_aabr(b);
    kani::cover!(c && b.min.x == a.min.x && b.max.y == a.max.y, "touching from inside");
    kani::cover!(!c && valid_r(a));
    if c && in_r(b, p) { assert!(in_r(a, p)); }
    if !c {
        let corners = [b.min, b.max, Vec2::new(b.min.x, b.max.y), Vec2::new(b.max.x, b.min.y)];
        assert!(!in_r(a, corners[0]) || !in_r(a, corners[1]) || !in_r(a, corners[2]) || !in_r(a, corners[3]));
    }
    let (a, b, p) = (any_b(), any_b(), any_v3());
    kani::assume(valid_b(b));
    let c = a.contains_aabb(b);
    kani::cover!(c && b.max.z == a.max.z);
    if c && in_b(b, p) { assert!(in_b(a, p)); }
    if !c {
        let mut all_in = true;
        let mut k = 0u8;
        while k < 8 {
            let q = Vec3::new(if k & 1 == 0 { b.min.x } else { b.max.x }, if k & 2 == 0 { b.min.y } else { b.max.y }, if k & 4 == 0 { b.min.z } else { b.max.z });
            all_in = all_in && in_b(a, q);
            k += 1;
        }
        assert!(!all_in);
    }
}
/// K: fns=Aabr::collides_with_aabr,Aabb::collides_with_aabb | inst=Aabr<i8>,Aabb<i8> | bound=all boxes of positive extent, arbitrary point in doubled (half-unit) coordinates; unwind 10
/// K: asserts=collides <=> the open interiors share a point: (=>) with the harness witness mid(max(mins), min(maxs)); (<=) for an arbitrary half-grid point interior to both; touching faces do not collide
#[kani::proof]
#[kani::unwind(10)]
fn c13_q_collides() {
    // 2D; q is a point in doubled coordinates (so that midpoints of integer boxes are representable)
    let (a, b) = (any_r(), any_r());
    kani::assume(a.min.x < a.max.x && a.min.y < a.max.y && b.min.x < b.max.x && b.min.y < b.max.y);
    let c = a.collides_with_aabr(b);
    let inside2 = |bx: Aabr<i8>, qx: i16, qy: i16| 2 * (bx.min.x as i16) < qx && qx < 2 * (bx.max.x as i16) && 2 * (bx.min.y as i16) < qy && qy < 2 * (bx.max.y as i16);
    let (qx, qy): (i16, i16) = (kani::any(), kani::any());
    kani::cover!(c && a.min.x < b.min.x && b.max.y < a.max.y);
    kani::cover!(!c && a.max.x == b.min.x && a.min.y == b.min.y, "touching faces");
    if inside2(a, qx, qy) && inside2(b, qx, qy) { assert!(c, "a common interior point => collides"); }
    if c {
        let mx = |u: i8, v: i8| if u > v { u } else { v };
        let mn = |u: i8, v: i8| if u < v { u } else { v };
        let wx = mx(a.min.x, b.min.x) as i16 + mn(a.max.x, b.max.x) as i16;
        let wy = mx(a.min.y, b.min.y) as i16 + mn(a.max.y, b.max.y) as i16;
        assert!(inside2(a, wx, wy) && inside2(b, wx, wy), "collides => the midpoint witness is interior to both");
    }
    assert!(c == b.collides_with_aabr(a), "symmetric");
    // 3D
    let (a, b) = (any_b(), any_b());
    kani::assume(a.min.x < a.max.x && a.min.y < a.max.y && a.min.z < a.max.z && b.min.x < b.max.x && b.min.y < b.max.y && b.min.z < b.max.z);
    let c = a.collides_with_aabb(b);
    let inside3 = |bx: Aabb<i8>, q: [i16; 3]| 2 * (bx.min.x as i16) < q[0] && q[0] < 2 * (bx.max.x as i16) && 2 * (bx.min.y as i16) < q[1] && q[1] < 2 * (bx.max.y as i16)
        && 2 * (bx.min.z as i16) < q[2] && q[2] < 2 * (bx.max.z as i16);
    let q: [i16; 3] = [kani::any(), kani::any(), kani::any()];
    kani::cover!(c && a.min.z < b.min.z);
    kani::cover!(!c && a.max.z == b.min.z && a.min.x == b.min.x && a.min.y == b.min.y, "touching faces 3D");
    if inside3(a, q) && inside3(b, q) { assert!(c); }
    if c {
        let mx = |u: i8, v: i8| if u > v { u } else { v };
        let mn = |u: i8, v: i8| if u < v { u } else { v };
        let w = [mx(a.min.x, b.min.x) as i16 + mn(a.max.x, b.max.x) as i16, mx(a.min.y, b.min.y) as i16 + mn(a.max.y, b.max.y) as i16,
                 mx(a.min.z, b.min.z) as i16 + mn(a.max.z, b.max.z) as i16];
        assert!(inside3(a, w) && inside3(b, w));
    }
}

// ---- IEEE level: comparison-only methods at f32, every bit pattern (NaN, infinities, signed zeros included) -------
// Closed-interval membership in IEEE terms: a NaN coordinate is a member of no interval, a box with a NaN corner has
// no members on that axis. (Engine S works over the reals and cannot see which way an unordered comparison falls.)
fn fv2() -> Vec2<f32> { Vec2::new(kani::any(), kani::any()) }
fn fv3() -> Vec3<f32> { Vec3::new(kani::any(), kani::any(), kani::any()) }
/// K: fns=Aabr::contains_point,Aabb::contains_point,Aabr::is_valid,Aabb::is_valid,Rect::contains_point | inst=Aabr<f32>,Aabb<f32>,Rect<f32,f32> | bound=every bit pattern of every corner and point coordinate (NaN, +-inf, +-0 included)
/// K: asserts=contains_point <=> min <= p <= max on every axis with IEEE comparisons (false for an unordered coordinate); is_valid <=> min <= max on every axis; Rect::contains_point = the converted box's
#[kani::proof]
fn c13_q_contains_point_f32() {
    if kani::any() {
        let (b, p) = (Aabr { min: fv2(), max: fv2() }, fv2());
        kani::cover!(p.x.is_nan(), "NaN point coordinate");
        kani::cover!(b.max.y.is_nan(), "NaN corner");
        kani::cover!(b.contains_point(p), "contained");
        assert!(b.contains_point(p) == (b.min.x <= p.x && p.x <= b.max.x && b.min.y <= p.y && p.y <= b.max.y));
        assert!(b.is_valid() == (b.min.x <= b.max.x && b.min.y <= b.max.y));
        // (the rectangle's far corner is position + extent: kept finite so that the sum is a number)
        kani::assume(b.min.x.is_finite() && b.min.y.is_finite() && b.max.x.abs() < 1.0e30 && b.max.y.abs() < 1.0e30 && b.min.x.abs() < 1.0e30 && b.min.y.abs() < 1.0e30);
        let r = vek::geom::repr_c::Rect::<f32, f32>::new(b.min.x, b.min.y, b.max.x, b.max.y);
        assert!(r.contains_point(p) == (r.x <= p.x && p.x <= r.x + r.w && r.y <= p.y && p.y <= r.y + r.h));
    } else {
        let (b, p) = (Aabb { min: fv3(), max: fv3() }, fv3());
        kani::cover!(p.z.is_nan(), "NaN point coordinate");
        assert!(b.contains_point(p) == (b.min.x <= p.x && p.x <= b.max.x && b.min.y <= p.y && p.y <= b.max.y && b.min.z <= p.z && p.z <= b.max.z));
        assert!(b.is_valid() == (b.min.x <= b.max.x && b.min.y <= b.max.y && b.min.z <= b.max.z));
    }
}
