//! C03 (K part) — raw views and array conversions of Mat2/3/4<u8> with arbitrary bytes, both
//! layouts: CBMC pointer/bounds checks on the MaybeUninit / ptr::read / transmute_unchecked /
//! from_raw_parts code plus the order assertions at machine level. Metadata: see c17.rs.

use vek::mat::repr_c::{column_major as cm, row_major as rm};

/// `$n x $n` matrix built from an arbitrary row-major byte array `src` (element (i,j) = src[n*i+j]).
/// `$at` reads (i,j) through the public storage field, not through vek's Index impl.
macro_rules! mat_u8_body {
    ($M:ident, $n:expr, $at:ident, $slice:ident, $mut_slice:ident, $ptr:ident, $major_is_row:expr) => {{
        let src: [u8; $n * $n] = kani::any();
        let (i, j): (usize, usize) = (kani::any(), kani::any());
        kani::assume(i < $n && j < $n);
        kani::cover!(i == $n - 1 && j == 0 && src[$n * i + j] != src[i + $n * j], "off-diagonal element differs from its mirror");
        let m = $M::<u8>::from_row_array(src);
        assert!(*$at!(m, i, j) == src[$n * i + j], "from_row_array: (i,j) = array[n*i+j]");
        assert!(m[(i, j)] == src[$n * i + j], "indexing by (row, col)");
        let mc = $M::<u8>::from_col_array(src);
        assert!(*$at!(mc, i, j) == src[$n * j + i], "from_col_array: (i,j) = array[n*j+i]");
        assert!(m.into_row_array()[$n * i + j] == src[$n * i + j], "into_row_array");
        assert!(m.into_col_array()[$n * j + i] == src[$n * i + j], "into_col_array");
        assert!(m.into_row_arrays()[i][j] == src[$n * i + j], "into_row_arrays[i][j]");
        assert!(m.into_col_arrays()[j][i] == src[$n * i + j], "into_col_arrays[j][i]");
        let back = $M::<u8>::from_col_arrays(m.into_col_arrays());
        assert!(*$at!(back, i, j) == src[$n * i + j], "col arrays round trip");
        let back = $M::<u8>::from_row_arrays(m.into_row_arrays());
        assert!(*$at!(back, i, j) == src[$n * i + j], "row arrays round trip");
        // flat view: lists elements in the order its name says; with the GL transpose flag it denotes the same matrix
        let s = m.$slice();
        assert!(s.len() == $n * $n);
        assert!(s.as_ptr() == &m as *const $M<u8> as *const u8, "the view aliases the matrix storage");
        assert!(s.as_ptr() == m.$ptr());
        let k = if $major_is_row { $n * i + j } else { $n * j + i };
        assert!(s[k] == src[$n * i + j], "slice order");
        assert!(m.gl_should_transpose() == $major_is_row, "row-major data must be transposed by GL");
        let k_gl = if m.gl_should_transpose() { $n * i + j } else { $n * j + i };
        assert!(s[k_gl] == src[$n * i + j], "slice + transpose flag denote the same matrix");
        let mut w = m;
        w.$mut_slice()[k] = src[$n * i + j].wrapping_add(1);
        assert!(*$at!(w, i, j) == src[$n * i + j].wrapping_add(1), "write through the mutable view hits (i,j)");
        let t = m.transposed();
        assert!(*$at!(t, j, i) == src[$n * i + j], "transposed");
    }};
}
macro_rules! at_rows { ($m:expr, $i:expr, $j:expr) => { &$m.rows[$i][$j] } }
macro_rules! at_cols { ($m:expr, $i:expr, $j:expr) => { &$m.cols[$j][$i] } }

/// K: fns=Mat2::from_row_array,Mat2::from_col_array,Mat2::into_row_array,Mat2::into_col_array,Mat2::into_row_arrays,Mat2::into_col_arrays,Mat2::from_row_arrays,Mat2::from_col_arrays,Mat2::as_row_slice,Mat2::as_mut_row_slice,Mat2::as_row_ptr,Mat2::gl_should_transpose,Mat2::transposed,Mat2::index
/// K: inst=row_major::Mat2/Mat3/Mat4<u8> | bound=arbitrary bytes, symbolic (i,j); unwind 18
/// K: asserts=every conversion agrees that (i,j) is row i, column j; as_row_slice lists rows; view aliases storage; write through the view hits (i,j)
#[kani::proof]
#[kani::unwind(18)]
fn c03_q_raw_views_row_major() {
    use rm::{Mat2, Mat3, Mat4};
    match kani::any::<u8>() % 3 {
        0 => mat_u8_body!(Mat2, 2, at_rows, as_row_slice, as_mut_row_slice, as_row_ptr, true),
        1 => mat_u8_body!(Mat3, 3, at_rows, as_row_slice, as_mut_row_slice, as_row_ptr, true),
        _ => mat_u8_body!(Mat4, 4, at_rows, as_row_slice, as_mut_row_slice, as_row_ptr, true),
    }
}
/// K: fns=Mat2::from_row_array,Mat2::from_col_array,Mat2::into_row_array,Mat2::into_col_array,Mat2::into_row_arrays,Mat2::into_col_arrays,Mat2::from_row_arrays,Mat2::from_col_arrays,Mat2::as_col_slice,Mat2::as_mut_col_slice,Mat2::as_col_ptr,Mat2::gl_should_transpose,Mat2::transposed,Mat2::index
/// K: inst=column_major::Mat2/Mat3/Mat4<u8> | bound=arbitrary bytes, symbolic (i,j); unwind 18
/// K: asserts=every conversion agrees that (i,j) is row i, column j; as_col_slice lists columns; view aliases storage; write through the view hits (i,j)
#[kani::proof]
#[kani::unwind(18)]
fn c03_q_raw_views_column_major() {
    use cm::{Mat2, Mat3, Mat4};
    match kani::any::<u8>() % 3 {
        0 => mat_u8_body!(Mat2, 2, at_cols, as_col_slice, as_mut_col_slice, as_col_ptr, false),
        1 => mat_u8_body!(Mat3, 3, at_cols, as_col_slice, as_mut_col_slice, as_col_ptr, false),
        _ => mat_u8_body!(Mat4, 4, at_cols, as_col_slice, as_mut_col_slice, as_col_ptr, false),
    }
}
/// K: fns=Rows::from(Cols),Cols::from(Rows) on Mat2,Mat3,Mat4 | inst=<u8> | bound=arbitrary bytes, symbolic (i,j); unwind 18
/// K: asserts=layout conversion keeps element (i,j)
#[kani::proof]
#[kani::unwind(18)]
fn c03_q_layout_conversion() {
    let src: [u8; 16] = kani::any();
    let (i, j): (usize, usize) = (kani::any(), kani::any());
    kani::assume(i < 4 && j < 4);
    kani::cover!(i == 3 && j == 1 && src[13] != src[7]);
    let r = rm::Mat4::<u8>::from_row_array(src);
    let c: cm::Mat4<u8> = r.into();
    assert!(c.cols[j][i] == src[4 * i + j]);
    let r2: rm::Mat4<u8> = c.into();
    assert!(r2.rows[i][j] == src[4 * i + j]);
    if i < 3 && j < 3 {
        let s9: [u8; 9] = [src[0], src[1], src[2], src[3], src[4], src[5], src[6], src[7], src[8]];
        let r = rm::Mat3::<u8>::from_row_array(s9);
        let c: cm::Mat3<u8> = r.into();
        assert!(c.cols[j][i] == s9[3 * i + j]);
        let r2: rm::Mat3<u8> = c.into();
        assert!(r2.rows[i][j] == s9[3 * i + j]);
    }
    if i < 2 && j < 2 {
        let s4: [u8; 4] = [src[0], src[1], src[2], src[3]];
        let c = cm::Mat2::<u8>::from_row_array(s4);
        let r: rm::Mat2<u8> = c.into();
        assert!(r.rows[i][j] == s4[2 * i + j]);
    }
}
