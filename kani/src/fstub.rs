//! Contract stubs for libm-level float functions whose CBMC library model is not bit-exact
//! (`-Z stubbing`). Every stub is a *sound over-approximation*: it returns the exact IEEE result where
//! that is expressible, and an arbitrary value elsewhere.

/// Fused multiply-add, f32. Where the product `a*b` is exactly representable in f32 the fused and the
/// two-step result coincide (`round(a*b + c)`), so that value is returned; anywhere else the result is
/// arbitrary. (CBMC's own `fmaf` model flushes subnormal results: `fmaf(-4.25e37, 0.0, 9.0e-39)` is not
/// `9.0e-39` there, while every IEEE machine returns it.)
pub fn fma32_contract(a: f32, b: f32, c: f32) -> f32 {
    let exact = (a as f64) * (b as f64); // 24 + 24 significant bits: exact in f64
    let p = a * b;
    if (p as f64) == exact { p + c } else { kani::any() }
}
/// Fused multiply-add, f64: exact where one factor is 0 or +-1 (the product is then exact), arbitrary elsewhere.
pub fn fma64_contract(a: f64, b: f64, c: f64) -> f64 {
    if a == 0.0 || b == 0.0 || a == 1.0 || b == 1.0 || a == -1.0 || b == -1.0 { a * b + c } else { kani::any() }
}
