//! C15 (K part) — IEEE-754 level check of `length_by_discretization`'s sampling.
//!
//! Engine S decides the length laws (chord <= L <= control polygon, monotone under doubling) in exact
//! real arithmetic, where a sample parameter such as `i/(n+1)` or an accumulated `t += 1/(n+1)` is an
//! exact rational. What exact reals cannot see is a sampling scheme whose *floating-point* parameters
//! miss the end of the curve (an accumulated step that lands just above 1 drops the last segment) or
//! overshoot it. These harnesses run the real generic code at `f32` / `f64` on a curve that degenerates
//! to the straight segment from 0 to `c` on the x axis (start = inner control points = 0, end = (c, 0)):
//! it is monotone, so chord = control-polygon length = c and the discretized length must be c up to
//! rounding. `c` is symbolic over a whole binade window (every float in it, no sampling); the step
//! count is a concrete configuration per harness (it fixes the loop's trip count). Rounding slack: 2^-10
//! relative (the accumulated rounding error of <= 15 segments is below 2^-18 in f32); a dropped or
//! doubled segment changes the length by more than 5%.
//! Metadata format: see c17.rs.

use vek::bezier::repr_c::{CubicBezier2, CubicBezier3, QuadraticBezier2, QuadraticBezier3};
use vek::vec::repr_c::{Vec2, Vec3};

macro_rules! window {
    ($F:ty) => {{
        let c: $F = kani::any();
        kani::assume(c >= 0.25 && c <= 4.0);
        c
    }};
}
macro_rules! straight_len {
    ($F:ty, $curve:expr, $c:ident, $n:expr) => {{
        let $c: $F = window!($F);
        let l: $F = $curve.length_by_discretization($n);
        kani::cover!($c > 1.0 && $c < 2.0, "generic length");
        let slack: $F = 0.0009765625;
        assert!(l >= $c * (1.0 - slack), "discretized length is at least the chord (up to rounding)");
        assert!(l <= $c * (1.0 + slack), "discretized length is at most the control-polygon length (up to rounding)");
    }};
}
macro_rules! q2 { ($F:ty, $n:expr) => { straight_len!($F, QuadraticBezier2 { start: Vec2::new(0.0, 0.0), ctrl: Vec2::new(0.0, 0.0), end: Vec2::new(c, 0.0) }, c, $n) }; }
macro_rules! c2 { ($F:ty, $n:expr) => { straight_len!($F, CubicBezier2 { start: Vec2::new(0.0, 0.0), ctrl0: Vec2::new(0.0, 0.0), ctrl1: Vec2::new(0.0, 0.0), end: Vec2::new(c, 0.0) }, c, $n) }; }
macro_rules! q3 { ($F:ty, $n:expr) => { straight_len!($F, QuadraticBezier3 { start: Vec3::new(0.0, 0.0, 0.0), ctrl: Vec3::new(0.0, 0.0, 0.0), end: Vec3::new(c, 0.0, 0.0) }, c, $n) }; }
macro_rules! c3 { ($F:ty, $n:expr) => { straight_len!($F, CubicBezier3 { start: Vec3::new(0.0, 0.0, 0.0), ctrl0: Vec3::new(0.0, 0.0, 0.0), ctrl1: Vec3::new(0.0, 0.0, 0.0), end: Vec3::new(c, 0.0, 0.0) }, c, $n) }; }

/// K: fns=QuadraticBezier2::length_by_discretization,QuadraticBezier2::evaluate,Vec2::magnitude | inst=QuadraticBezier2<f32>, step_count 9 (10 segments) | bound=every f32 end coordinate in [1/4, 4]; straight degenerate curve; one concrete step count; unwind 13 | cap=600
/// K: asserts=chord*(1-2^-10) <= length <= polygon*(1+2^-10): the samples reach the end point and do not overshoot it under f32 rounding
#[kani::proof]
#[kani::unwind(13)]
fn c15_q_length_f32_quadratic2_s9() { q2!(f32, 9) }
/// K: fns=QuadraticBezier2::length_by_discretization,QuadraticBezier2::evaluate,Vec2::magnitude | inst=QuadraticBezier2<f64>, step_count 8 (9 segments) | bound=every f64 end coordinate in [1/4, 4]; straight degenerate curve; one concrete step count; unwind 12 | cap=600
/// K: asserts=chord*(1-2^-10) <= length <= polygon*(1+2^-10) under f64 rounding
#[kani::proof]
#[kani::unwind(12)]
fn c15_q_length_f64_quadratic2_s8() { q2!(f64, 8) }
/// K: fns=QuadraticBezier2::length_by_discretization | inst=QuadraticBezier2<f32>, step_count 0, 1, 2 | bound=every f32 end coordinate in [1/4, 4]; straight degenerate curve; unwind 5 | cap=600
/// K: asserts=chord*(1-2^-10) <= length <= polygon*(1+2^-10) for the three smallest step counts
#[kani::proof]
#[kani::unwind(5)]
fn c15_q_length_f32_quadratic2_s012() {
    match kani::any::<u8>() % 3 {
        0 => q2!(f32, 0),
        1 => q2!(f32, 1),
        _ => q2!(f32, 2),
    }
}
/// K: fns=CubicBezier2::length_by_discretization | inst=CubicBezier2<f32>, step_count 10 (11 segments) | bound=every f32 end coordinate in [1/4, 4]; unwind 14 | cap=900
/// K: asserts=chord*(1-2^-10) <= length <= polygon*(1+2^-10) under f32 rounding
#[kani::proof]
#[kani::unwind(14)]
fn c15_t_length_f32_cubic2_s10() { c2!(f32, 10) }
/// K: fns=QuadraticBezier3::length_by_discretization | inst=QuadraticBezier3<f32>, step_count 13 (14 segments) | bound=every f32 end coordinate in [1/4, 4]; unwind 17 | cap=900
/// K: asserts=chord*(1-2^-10) <= length <= polygon*(1+2^-10) under f32 rounding
#[kani::proof]
#[kani::unwind(17)]
fn c15_t_length_f32_quadratic3_s13() { q3!(f32, 13) }
/// K: fns=CubicBezier3::length_by_discretization | inst=CubicBezier3<f64>, step_count 10 (11 segments) | bound=every f64 end coordinate in [1/4, 4]; unwind 14 | cap=900
/// K: asserts=chord*(1-2^-10) <= length <= polygon*(1+2^-10) under f64 rounding
#[kani::proof]
#[kani::unwind(14)]
fn c15_t_length_f64_cubic3_s10() { c3!(f64, 10) }
/// K: fns=QuadraticBezier2::length_by_discretization | inst=QuadraticBezier2<f64>, step_count 17 (18 segments) | bound=every f64 end coordinate in [1/4, 4]; unwind 21 | cap=900
/// K: asserts=chord*(1-2^-10) <= length <= polygon*(1+2^-10) under f64 rounding
#[kani::proof]
#[kani::unwind(21)]
fn c15_t_length_f64_quadratic2_s17() { q2!(f64, 17) }
