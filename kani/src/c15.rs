//! C15 (K part) — IEEE-754 level check of `length_by_discretization`'s sampling.
//!
//! Engine S decides the length laws (chord <= L <= control polygon, monotone under doubling) in exact
//! real arithmetic, where a sample parameter such as `i/(n+1)` or an accumulated `t += 1/(n+1)` is an
//! exact rational. What exact reals cannot see is a sampling scheme whose *floating-point* parameters
//! miss the end of the curve (an accumulated step that lands just above 1 drops the last segment) or
//! overshoot it. These harnesses run the real generic code at `f32` / `f64` on a curve that degenerates
//! to the straight segment from 0 to `c` on the x axis (start = inner control points = 0, end = (c, 0)):
//! it is monotone, so chord = control-polygon length = c and the discretized length must be c up to
//! rounding. `c` is symbolic over the 255 values k/8 (k a free byte); the step count is a concrete configuration
//! per harness (it fixes the loop's trip count). All three harnesses are thorough-tier only: even at this size a
//! run takes many minutes of SAT time (float multiplication and CBMC's sqrt model dominate). Rounding slack: 2^-10
//! relative (the accumulated rounding error of <= 15 segments is below 2^-18 in f32); a dropped or
//! doubled segment changes the length by more than 5%.
//! Metadata format: see c17.rs.

use vek::bezier::repr_c::QuadraticBezier2;
use vek::vec::repr_c::Vec2;

macro_rules! window {
    ($F:ty) => {{
        // end coordinate k/8 for every 8-bit k >= 1: [1/8, 32) in steps of 1/8. (A free 24-bit mantissa makes every
        // product of the run a 24x24-bit multiplier: three segments did not finish in 10 minutes.)
        let k: u8 = kani::any();
        kani::assume(k >= 1);
        (k as $F) / 8.0
    }};
}
macro_rules! straight_len {
    ($F:ty, $curve:expr, $c:ident, $n:expr) => {{
        let $c: $F = window!($F);
        let l: $F = $curve.length_by_discretization($n);
        kani::cover!($c > 1.0 && $c < 2.0 && $c != 1.5, "generic length");
        let slack: $F = 0.0009765625;
        assert!(l >= $c * (1.0 - slack) && l <= $c * (1.0 + slack), "chord <= discretized length <= control-polygon length (up to rounding)");
    }};
}
macro_rules! q2 { ($F:ty, $n:expr) => { straight_len!($F, QuadraticBezier2 { start: Vec2::new(0.0, 0.0), ctrl: Vec2::new(0.0, 0.0), end: Vec2::new(c, 0.0) }, c, $n) }; }

/// K: fns=QuadraticBezier2::length_by_discretization,QuadraticBezier2::evaluate,Vec2::magnitude | inst=QuadraticBezier2<f32>, step_count 9 (10 segments) | bound=end coordinate k/8 for every 8-bit k >= 1; straight degenerate curve; one concrete step count; unwind 13 | cap=2400
/// K: asserts=chord*(1-2^-10) <= length <= polygon*(1+2^-10): the samples reach the end point and do not overshoot it under f32 rounding
#[kani::proof]
#[kani::unwind(13)]
fn c15_t_length_f32_quadratic2_s9() { q2!(f32, 9) }
// (the f64 instantiation at step_count 8 — 9 segments, the smallest count at which an accumulated f64 parameter misses
// the end — was tried and did not reach a verdict in 40 minutes; it is not registered)
/// K: fns=QuadraticBezier2::length_by_discretization | inst=QuadraticBezier2<f32>, step_count 2 (3 segments) | bound=end coordinate k/8 for every 8-bit k >= 1; straight degenerate curve; unwind 5 | cap=2400
/// K: asserts=chord*(1-2^-10) <= length <= polygon*(1+2^-10)
#[kani::proof]
#[kani::unwind(5)]
fn c15_t_length_f32_quadratic2_s2() { q2!(f32, 2) }
