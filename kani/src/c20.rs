//! C20 (K part) — checked/wrapping/saturating/overflowing add/sub/mul lifts at i8/u8 (machine
//! semantics of the scalar ops), and `numcast` at concrete primitive pairs. Metadata: see c17.rs.

use num_traits::ops::overflowing::{OverflowingAdd, OverflowingMul, OverflowingSub};
use num_traits::ops::saturating::{SaturatingAdd, SaturatingMul, SaturatingSub};
use num_traits::ops::wrapping::{WrappingAdd, WrappingMul, WrappingSub};
use num_traits::{CheckedAdd, CheckedMul, CheckedSub, NumCast};
use vek::mat::repr_c::{column_major as cm, row_major as rm};
use vek::vec::repr_c::{Vec2, Vec3, Vec4};

macro_rules! lift_ops_body {
    ($V:ident, $T:ty, [$($f:ident),+], $cadd:ident, $wadd:ident, $sadd:ident, $oadd:ident) => {{
        let a = $V::<$T> { $($f: kani::any()),+ };
        let b = $V::<$T> { $($f: kani::any()),+ };
        // checked: None iff some lane None, else lane-wise
        let c = a.$cadd(&b);
        let any_none = false $(|| a.$f.$cadd(b.$f).is_none())+;
        kani::cover!(any_none, "some lane overflows");
        kani::cover!(!any_none, "no lane overflows");
        assert!(c.is_none() == any_none, "None exactly when some lane is None");
        if let Some(c) = c { $( assert!(Some(c.$f) == a.$f.$cadd(b.$f)); )+ }
        // wrapping / saturating: lane-wise
        let w = a.$wadd(&b);
        let s = a.$sadd(&b);
        $( assert!(w.$f == a.$f.$wadd(b.$f)); assert!(s.$f == a.$f.$sadd(b.$f)); )+
        // overflowing: lane-wise value, flag = OR of the lane flags
        let (o, flag) = a.$oadd(&b);
        let any_flag = false $(|| a.$f.$oadd(b.$f).1)+;
        assert!(flag == any_flag, "overflow flag = OR of lane flags");
        assert!(flag == any_none, "overflowing and checked agree");
        $( assert!(o.$f == a.$f.$oadd(b.$f).0); )+
    }};
}
macro_rules! lift_ops_all_dims {
    ($T:ty, $cadd:ident, $wadd:ident, $sadd:ident, $oadd:ident) => {
        match kani::any::<u8>() % 3 {
            0 => lift_ops_body!(Vec2, $T, [x, y], $cadd, $wadd, $sadd, $oadd),
            1 => lift_ops_body!(Vec3, $T, [x, y, z], $cadd, $wadd, $sadd, $oadd),
            _ => lift_ops_body!(Vec4, $T, [x, y, z, w], $cadd, $wadd, $sadd, $oadd),
        }
    };
}
/// K: fns=Vec2::checked_add,Vec2::wrapping_add,Vec2::saturating_add,Vec2::overflowing_add + same on Vec3,Vec4 | inst=Vec2/3/4<i8> | bound=all lane values
/// K: asserts=lane-wise equal to the scalar op; checked None iff some lane None; overflow flag = OR of lane flags
#[kani::proof]
fn c20_q_add_lifts_i8() { lift_ops_all_dims!(i8, checked_add, wrapping_add, saturating_add, overflowing_add) }
/// K: fns=Vec2::checked_add,Vec2::wrapping_add,Vec2::saturating_add,Vec2::overflowing_add + same on Vec3,Vec4 | inst=Vec2/3/4<u8> | bound=all lane values
/// K: asserts=lane-wise equal to the scalar op; checked None iff some lane None; overflow flag = OR of lane flags
#[kani::proof]
fn c20_q_add_lifts_u8() { lift_ops_all_dims!(u8, checked_add, wrapping_add, saturating_add, overflowing_add) }
/// K: fns=Vec2::checked_sub,Vec2::wrapping_sub,Vec2::saturating_sub,Vec2::overflowing_sub + same on Vec3,Vec4 | inst=Vec2/3/4<i8> | bound=all lane values
/// K: asserts=lane-wise equal to the scalar op; checked None iff some lane None; overflow flag = OR of lane flags
#[kani::proof]
fn c20_q_sub_lifts_i8() { lift_ops_all_dims!(i8, checked_sub, wrapping_sub, saturating_sub, overflowing_sub) }
/// K: fns=Vec2::checked_sub,Vec2::wrapping_sub,Vec2::saturating_sub,Vec2::overflowing_sub + same on Vec3,Vec4 | inst=Vec2/3/4<u8> | bound=all lane values
/// K: asserts=lane-wise equal to the scalar op; checked None iff some lane None; overflow flag = OR of lane flags
#[kani::proof]
fn c20_q_sub_lifts_u8() { lift_ops_all_dims!(u8, checked_sub, wrapping_sub, saturating_sub, overflowing_sub) }
/// K: fns=Vec2::checked_mul,Vec2::wrapping_mul,Vec2::saturating_mul,Vec2::overflowing_mul + same on Vec3,Vec4 | inst=Vec2/3/4<i8> | bound=all lane values (8-bit symbolic x symbolic products)
/// K: asserts=lane-wise equal to the scalar op; checked None iff some lane None; overflow flag = OR of lane flags | cap=600
#[kani::proof]
fn c20_q_mul_lifts_i8() { lift_ops_all_dims!(i8, checked_mul, wrapping_mul, saturating_mul, overflowing_mul) }
/// K: fns=Vec2::checked_mul,Vec2::wrapping_mul,Vec2::saturating_mul,Vec2::overflowing_mul + same on Vec3,Vec4 | inst=Vec2/3/4<u8> | bound=all lane values (8-bit symbolic x symbolic products)
/// K: asserts=lane-wise equal to the scalar op; checked None iff some lane None; overflow flag = OR of lane flags | cap=600
#[kani::proof]
fn c20_q_mul_lifts_u8() { lift_ops_all_dims!(u8, checked_mul, wrapping_mul, saturating_mul, overflowing_mul) }

// ---- numcast ----
macro_rules! numcast_vec_body {
    ($V:ident, $S:ty, $D:ty, [$($f:ident),+]) => {{
        let v = $V::<$S> { $($f: kani::any()),+ };
        let r: Option<$V<$D>> = v.numcast();
        let all_some = true $(&& <$D as NumCast>::from(v.$f).is_some())+;
        kani::cover!(all_some, "every lane representable");
        kani::cover!(!all_some || <$D as NumCast>::from(<$S>::MAX).is_some(), "some lane not representable (when the pair can fail at all)");
        assert!(r.is_some() == all_some, "Some exactly when every lane's scalar cast is Some");
        if let Some(r) = r { $( assert!(Some(r.$f) == <$D as NumCast>::from(v.$f)); )+ }
    }};
}
macro_rules! numcast_vecs {
    ($S:ty, $D:ty) => {
        match kani::any::<u8>() % 3 {
            0 => numcast_vec_body!(Vec2, $S, $D, [x, y]),
            1 => numcast_vec_body!(Vec3, $S, $D, [x, y, z]),
            _ => numcast_vec_body!(Vec4, $S, $D, [x, y, z, w]),
        }
    };
}
/// K: fns=Vec2::numcast,Vec3::numcast,Vec4::numcast | inst=f32->i32 | bound=all bit patterns per lane (incl. NaN, infinities)
/// K: asserts=Some iff every lane's NumCast::from is Some; then lane-wise equal to the scalar cast
#[kani::proof]
fn c20_q_numcast_vec_f32_i32() { numcast_vecs!(f32, i32) }
/// K: fns=Vec2::numcast,Vec3::numcast,Vec4::numcast | inst=f64->u8 | bound=all bit patterns per lane
/// K: asserts=Some iff every lane's NumCast::from is Some; then lane-wise equal to the scalar cast
#[kani::proof]
fn c20_q_numcast_vec_f64_u8() { numcast_vecs!(f64, u8) }
/// K: fns=Vec2::numcast,Vec3::numcast,Vec4::numcast | inst=i64->u8,u16->i8 | bound=all lane values
/// K: asserts=Some iff every lane's NumCast::from is Some; then lane-wise equal to the scalar cast
#[kani::proof]
fn c20_q_numcast_vec_ints() {
    if kani::any() { numcast_vecs!(i64, u8) } else { numcast_vecs!(u16, i8) }
}
/// K: fns=Vec2::numcast,Vec3::numcast,Vec4::numcast | inst=i32->f32 | bound=all lane values
/// K: asserts=always Some; lane-wise equal to the scalar cast (rounding of |x| > 2^24 as `as f32`)
#[kani::proof]
fn c20_q_numcast_vec_i32_f32() { numcast_vecs!(i32, f32) }

/// Matrices: element (i,j) through the storage fields; both layouts.
macro_rules! numcast_mat_body {
    ($M:ident, $lines:ident, $n:expr, $S:ty, $D:ty) => {{
        let src: [$S; $n * $n] = kani::any();
        let m = $M::<$S>::from_row_array(src);
        let r: Option<$M<$D>> = m.numcast();
        let mut all_some = true;
        let mut k = 0;
        while k < $n * $n { all_some = all_some && <$D as NumCast>::from(src[k]).is_some(); k += 1; }
        kani::cover!(all_some);
        kani::cover!(!all_some || <$D as NumCast>::from(<$S>::MAX).is_some());
        assert!(r.is_some() == all_some);
        if let Some(r) = r {
            let out = r.into_row_array();
            let mut k = 0;
            while k < $n * $n { assert!(Some(out[k]) == <$D as NumCast>::from(src[k])); k += 1; }
        }
    }};
}
/// K: fns=Mat2::numcast,Mat3::numcast,Mat4::numcast (row_major and column_major) | inst=i64->u8 | bound=all element values; unwind 18
/// K: asserts=Some iff every element's NumCast::from is Some; then element (i,j) = scalar cast of element (i,j)
#[kani::proof]
#[kani::unwind(18)]
fn c20_q_numcast_mat_i64_u8() {
    use cm::{Mat2 as C2, Mat3 as C3, Mat4 as C4};
    use rm::{Mat2 as R2, Mat3 as R3, Mat4 as R4};
    match kani::any::<u8>() % 6 {
        0 => numcast_mat_body!(R2, rows, 2, i64, u8),
        1 => numcast_mat_body!(R3, rows, 3, i64, u8),
        2 => numcast_mat_body!(R4, rows, 4, i64, u8),
        3 => numcast_mat_body!(C2, cols, 2, i64, u8),
        4 => numcast_mat_body!(C3, cols, 3, i64, u8),
        _ => numcast_mat_body!(C4, cols, 4, i64, u8),
    }
}
/// K: fns=Mat2::numcast,Mat3::numcast,Mat4::numcast (row_major and column_major) | inst=f32->i32,u16->i8 | bound=all element values; unwind 18
/// K: asserts=Some iff every element's NumCast::from is Some; then element (i,j) = scalar cast of element (i,j)
#[kani::proof]
#[kani::unwind(18)]
fn c20_q_numcast_mat_f32_i32_u16_i8() {
    use cm::{Mat2 as C2, Mat3 as C3, Mat4 as C4};
    use rm::{Mat2 as R2, Mat3 as R3, Mat4 as R4};
    match kani::any::<u8>() % 6 {
        0 => numcast_mat_body!(R2, rows, 2, f32, i32),
        1 => numcast_mat_body!(R3, rows, 3, u16, i8),
        2 => numcast_mat_body!(R4, rows, 4, u16, i8),
        3 => numcast_mat_body!(C2, cols, 2, u16, i8),
        4 => numcast_mat_body!(C3, cols, 3, f32, i32),
        _ => numcast_mat_body!(C4, cols, 4, f32, i32),
    }
}
/// K: fns=Mat2::numcast,Mat3::numcast,Mat4::numcast (row_major and column_major) | inst=f64->u8,i32->f32 | bound=all element values; unwind 18
/// K: asserts=Some iff every element's NumCast::from is Some; then element (i,j) = scalar cast of element (i,j)
#[kani::proof]
#[kani::unwind(18)]
fn c20_q_numcast_mat_f64_u8_i32_f32() {
    use cm::{Mat2 as C2, Mat3 as C3, Mat4 as C4};
    use rm::{Mat2 as R2, Mat3 as R3, Mat4 as R4};
    match kani::any::<u8>() % 6 {
        0 => numcast_mat_body!(R2, rows, 2, f64, u8),
        1 => numcast_mat_body!(R3, rows, 3, i32, f32),
        2 => numcast_mat_body!(R4, rows, 4, f64, u8),
        3 => numcast_mat_body!(C2, cols, 2, i32, f32),
        4 => numcast_mat_body!(C3, cols, 3, f64, u8),
        _ => numcast_mat_body!(C4, cols, 4, i32, f32),
    }
}
