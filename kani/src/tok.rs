//! Ownership-tracking element type for C18 (and helper sinks).
//!
//! `Tok` is not `Copy`/`Clone`. Each token has an id; `Drop` increments `DROPS[id]`; the harness
//! marks a token as GONE when the container under test has handed it out (yielded it); after that,
//! any `==`, `hash` or `{:?}` that reaches the token through the container is a read of a
//! moved-out slot and fails the "K-READ-AFTER-MOVE" assertion. (A bitwise copy of a moved-out
//! token keeps its id, so the stale read is recognised by id.)
//! Kani runs every harness from a fresh copy of the statics.

use core::fmt;
use core::hash::{Hash, Hasher};

pub const MAX_ID: usize = 224;
pub const DEFAULT_BASE: u8 = 128; // ids handed out by `Tok::default()`

static mut DROPS: [u8; MAX_ID] = [0; MAX_ID];
static mut GONE: [bool; MAX_ID] = [false; MAX_ID];
static mut NEXT_DEFAULT: u8 = DEFAULT_BASE;
static mut OBSERVED: u32 = 0;

pub struct Tok {
    /// identity: which drop counter / liveness flag this token owns
    pub id: u8,
    /// payload: what `==` and `hash` look at (so two distinct tokens can be equal); `new` sets it to `id`
    pub val: u8,
}

impl Tok {
    pub fn new(id: u8) -> Tok {
        Tok { id, val: id }
    }
    pub fn with(id: u8, val: u8) -> Tok {
        Tok { id, val }
    }
}
impl Default for Tok {
    fn default() -> Tok {
        unsafe {
            let id = NEXT_DEFAULT;
            NEXT_DEFAULT += 1;
            Tok { id, val: id }
        }
    }
}
impl Drop for Tok {
    fn drop(&mut self) {
        unsafe {
            DROPS[self.id as usize] += 1;
        }
    }
}

pub fn drops(id: usize) -> u8 {
    unsafe { DROPS[id] }
}
pub fn defaults_made() -> usize {
    unsafe { (NEXT_DEFAULT - DEFAULT_BASE) as usize }
}
pub fn observed() -> u32 {
    unsafe { OBSERVED }
}
fn live(id: u8) -> bool {
    unsafe { !GONE[id as usize] && DROPS[id as usize] == 0 }
}
/// The container handed this token out: record it, check it was not dropped, and leak it so that
/// any later drop of the same id can only come from the container.
pub fn take(t: Tok) -> u8 {
    let id = t.id;
    unsafe {
        assert!(!GONE[id as usize], "K-YIELDED-TWICE: token handed out twice");
        assert!(DROPS[id as usize] == 0, "K-DROPPED-THEN-YIELDED");
        GONE[id as usize] = true;
    }
    core::mem::forget(t);
    id
}
/// Look at a token that must still be owned by the container (not handed out, not dropped).
pub fn peek(t: &Tok) -> u8 {
    assert!(live(t.id), "K-READ-AFTER-MOVE: token was already moved out or dropped");
    t.id
}

impl PartialEq for Tok {
    fn eq(&self, other: &Tok) -> bool {
        assert!(live(self.id) && live(other.id), "K-READ-AFTER-MOVE: == on a moved-out element");
        unsafe { OBSERVED += 1; }
        self.val == other.val
    }
}
impl Eq for Tok {}
impl Hash for Tok {
    fn hash<H: Hasher>(&self, state: &mut H) {
        assert!(live(self.id), "K-READ-AFTER-MOVE: hash of a moved-out element");
        unsafe { OBSERVED += 1; }
        state.write_u8(self.val);
    }
}
impl fmt::Debug for Tok {
    fn fmt(&self, f: &mut fmt::Formatter) -> fmt::Result {
        assert!(live(self.id), "K-READ-AFTER-MOVE: {{:?}} of a moved-out element");
        unsafe { OBSERVED += 1; }
        f.write_str("T")
    }
}

/// A wrapper produced by `map` closures (distinct type, carries the token).
pub struct Boxed(pub Tok);

/// Loop-free hasher (the default `write` would loop over bytes).
pub struct NullHasher(pub u64);
impl Hasher for NullHasher {
    fn finish(&self) -> u64 { self.0 }
    fn write(&mut self, bytes: &[u8]) { self.0 = self.0.wrapping_add(bytes.len() as u64); }
    fn write_u8(&mut self, i: u8) { self.0 = self.0.wrapping_add(i as u64); }
    fn write_usize(&mut self, i: usize) { self.0 = self.0.wrapping_add(i as u64); }
}

/// Deterministic, loop-free hasher whose result depends on every written value and on the order.
pub struct MixHasher(pub u64);
impl Hasher for MixHasher {
    fn finish(&self) -> u64 { self.0 }
    fn write(&mut self, bytes: &[u8]) { self.0 = self.0.rotate_left(7) ^ (bytes.len() as u64) ^ 0x5555; }
    fn write_u8(&mut self, i: u8) { self.0 = self.0.rotate_left(5) ^ (i as u64) ^ 0x9e37; }
    fn write_usize(&mut self, i: usize) { self.0 = self.0.rotate_left(11) ^ (i as u64) ^ 0x79b9; }
}

/// `fmt::Write` sink that discards its input.
pub struct NullSink;
impl fmt::Write for NullSink {
    fn write_str(&mut self, _s: &str) -> fmt::Result { Ok(()) }
    fn write_char(&mut self, _c: char) -> fmt::Result { Ok(()) }
}
