//! C17 — clamp / range test / wrap / ping-pong laws on the real `vek::ops` impls (engine K).
//!
//! Every harness is a `#[kani::proof]` over ALL bit patterns of its inputs (no sampling); the
//! oracle is written here from the property statement in a wider machine type and never calls vek.
//! Metadata for the driver is the `/// K:` doc line(s) in front of each harness:
//!   fns=<vek functions exercised> | inst=<instantiation> | bound=<what is bounded> | asserts=<claim>
//!   [| cap=<seconds>] [| panics=<regex every failed check of a should_panic harness must match>]
//! Harnesses live at the top level of this file (the driver appends playback tests at its end).

use core::num::Wrapping;
use core::ops::{Add, Sub};
use num_traits::{One, Zero};
use vek::ops::*;
use vek::vec::repr_c::{Extent2, Extent3, Rgb, Rgba, Uv, Uvw, Vec16, Vec2, Vec3, Vec32, Vec4, Vec64, Vec8};

/// Integer scalar under test + the oracle operations, computed in a wider primitive type `W`.
pub trait KInt:
    Copy + PartialOrd + PartialEq + Zero + One + Add<Output = Self> + Sub<Output = Self>
    + Clamp + IsBetween<Output = bool> + Wrap
{
    const SIGNED: bool;
    fn any() -> Self;
    /// `r ≡ v (mod hi-lo)`, all arithmetic in the wider type (no overflow possible).
    fn congruent(r: Self, v: Self, lo: Self, hi: Self) -> bool;
    /// triangle wave of period `2*up`, peak `up`, evaluated at `v` (wider type), `up > 0`.
    fn is_triangle(r: Self, v: Self, up: Self) -> bool;
    fn minus_one() -> Option<Self>;
}

macro_rules! kint {
    ($T:ty, $W:ty, $signed:expr, |$x:ident| $prim:expr, |$y:ident| $mk:expr, $m1:expr) => {
        impl KInt for $T {
            const SIGNED: bool = $signed;
            fn any() -> Self { let $y = kani::any(); $mk }
            fn congruent(r: Self, v: Self, lo: Self, hi: Self) -> bool {
                let w = |$x: $T| -> $W { ($prim) as $W };
                let p = w(hi) - w(lo);
                (w(r) - w(v)) % p == 0
            }
            fn is_triangle(r: Self, v: Self, up: Self) -> bool {
                let w = |$x: $T| -> $W { ($prim) as $W };
                let (r, v, up) = (w(r), w(v), w(up));
                let m = v.rem_euclid(2 * up);
                r == if m <= up { m } else { 2 * up - m }
            }
            fn minus_one() -> Option<Self> { $m1 }
        }
    };
}
kint!(i8, i16, true, |x| x, |y| y, Some(-1));
kint!(u8, i16, false, |x| x, |y| y, None);
kint!(Wrapping<i8>, i16, true, |x| x.0, |y| Wrapping(y), Some(Wrapping(-1)));
kint!(Wrapping<u8>, i16, false, |x| x.0, |y| Wrapping(y), None);
kint!(i16, i32, true, |x| x, |y| y, Some(-1));
kint!(u16, i32, false, |x| x, |y| y, None);

// ------------------------------------------------------------------------------------------------
// generic law bodies
// ------------------------------------------------------------------------------------------------

/// Clamp / IsBetween laws for every (v, lower, upper) with lower <= upper; no panic on that domain.
fn clamp_laws<T: KInt>() {
    let (v, l, u) = (T::any(), T::any(), T::any());
    kani::assume(l <= u);
    let r = v.clamped(l, u);
    kani::cover!(v < l, "below");
    kani::cover!(v > u, "above");
    kani::cover!(l < v && v < u, "strictly inside");
    kani::cover!(v == l && l < u, "on the lower bound");
    kani::cover!(v == u && l < u, "on the upper bound");
    if v < l {
        assert!(r == l, "below the range -> lower bound");
    } else if v > u {
        assert!(r == u, "above the range -> upper bound");
    } else {
        assert!(r == v, "inside the range -> the value itself");
    }
    assert!(r.clamped(l, u) == r, "idempotent");
    let b = v.is_between(l, u);
    assert!(b == (l <= v && v <= u), "is_between = closed interval membership");
    assert!(b == (r == v), "is_between <=> clamped == self");
}

/// The alias forms equal the base form (same domain).
fn clamp_aliases<T: KInt>() {
    let (v, l, u) = (T::any(), T::any(), T::any());
    kani::assume(l <= u);
    let r = v.clamped(l, u);
    kani::cover!(r != v, "clamping changed the value");
    assert!(T::clamp(v, l, u) == r);
    assert!(v.clamped_to_inclusive_range(l..=u) == r);
    assert!(T::clamp_to_inclusive_range(v, l..=u) == r);
    assert!(v.is_between_inclusive_range_bounds(l..=u) == v.is_between(l, u));
    // 0..1 forms
    let r01 = v.clamped(T::zero(), T::one());
    assert!(v.clamped01() == r01);
    assert!(T::clamp01(v) == r01);
    assert!(v.is_between01() == v.is_between(T::zero(), T::one()));
}

/// `clamped_minus1_1` family (signed types only: needs Neg).
macro_rules! clamp_m1_body {
    ($T:ty, $any:expr, $m1:expr, $one:expr) => {{
        let v: $T = $any;
        let r = v.clamped($m1, $one);
        kani::cover!(r != v, "clamping changed the value");
        kani::cover!(r == v, "already inside");
        assert!(v.clamped_minus1_1() == r);
        assert!(<$T as Clamp>::clamp_minus1_1(v) == r);
        assert!($m1 <= r && r <= $one);
    }};
}

/// clamped / is_between panic for EVERY input with lower > upper: the call never returns.
/// (should_panic twin of clamp_laws; the driver checks that the only failed checks are vek's
/// documented assertion — a "K-NOPANIC" failure means some input returned normally.)
fn clamp_panics<T: KInt>() {
    let (v, l, u) = (T::any(), T::any(), T::any());
    kani::assume(l > u);
    kani::cover!(l > u, "inverted bounds exist");
    let _ = v.clamped(l, u);
    panic!("K-NOPANIC: returned normally although lower > upper");
}
fn is_between_panics<T: KInt>() {
    let (v, l, u) = (T::any(), T::any(), T::any());
    kani::assume(l > u);
    kani::cover!(l > u, "inverted bounds exist");
    let _ = v.is_between(l, u);
    panic!("K-NOPANIC: returned normally although lower > upper");
}

fn wrap_domain<T: KInt>(l: T, u: T) -> bool {
    l >= T::zero() && l < u
}

/// wrapped_between: for every v and every 0 <= lower < upper: no panic, result in [lower, upper),
/// result ≡ v (mod upper-lower) — hence the unique such value.
fn wrapped_between_laws<T: KInt>() {
    let (v, l, u) = (T::any(), T::any(), T::any());
    kani::assume(wrap_domain(l, u));
    let r = v.wrapped_between(l, u);
    kani::cover!(v < l, "below");
    kani::cover!(v >= u, "at or above upper");
    kani::cover!(l <= v && v < u, "inside");
    kani::cover!(r != v && l > T::zero(), "moved, lower > 0");
    assert!(l <= r && r < u, "result in [lower, upper)");
    assert!(T::congruent(r, v, l, u), "result congruent to the input modulo upper-lower");
    if l <= v && v < u {
        assert!(r == v, "identity inside the range");
    }
    assert!(T::wrap_between(v, l, u) == r, "alias wrap_between");
}

/// wrapped(upper): for every v and every upper > 0: result in [0, upper) and ≡ v (mod upper).
fn wrapped_laws<T: KInt>() {
    let (v, u) = (T::any(), T::any());
    kani::assume(u > T::zero());
    let r = v.wrapped(u);
    kani::cover!(v < T::zero() || v >= u, "outside [0,upper)");
    kani::cover!(r != v, "moved");
    kani::cover!(r == v, "kept");
    assert!(T::zero() <= r && r < u, "result in [0, upper)");
    assert!(T::congruent(r, v, T::zero(), u), "result congruent to the input modulo upper");
    assert!(T::wrap(v, u) == r, "alias wrap");
}

/// wrapped(upper) == wrapped_between(0, upper) (cheap relation, no oracle division).
fn wrapped_is_wrapped_between0<T: KInt>() {
    let (v, u) = (T::any(), T::any());
    kani::assume(u > T::zero());
    kani::cover!(v >= u, "at or above upper");
    assert!(v.wrapped(u) == v.wrapped_between(T::zero(), u));
}

/// pingpong(upper): for every v and every upper > 0: the triangle wave of period 2*upper.
fn pingpong_laws<T: KInt>() {
    let (v, u) = (T::any(), T::any());
    kani::assume(u > T::zero());
    let r = v.pingpong(u);
    kani::cover!(r == u, "peak reached");
    kani::cover!(r == T::zero() && v != T::zero(), "trough reached away from 0");
    kani::cover!(v > u && r != T::zero() && r != u, "falling/rising edge beyond the first period");
    assert!(T::zero() <= r && r <= u, "values in [0, upper]");
    assert!(T::is_triangle(r, v, u), "triangle wave of period 2*upper");
}

/// Documented panics: the call never returns outside the documented domain.
fn wrapped_between_panics<T: KInt>() {
    let (v, l, u) = (T::any(), T::any(), T::any());
    kani::assume(!wrap_domain(l, u));
    kani::cover!(l >= u, "lower >= upper");
    kani::cover!(!T::SIGNED || (l < T::zero() && l < u), "negative lower (signed types)");
    let _ = v.wrapped_between(l, u);
    panic!("K-NOPANIC: returned normally outside the documented domain");
}
fn wrapped_panics<T: KInt>() {
    let (v, u) = (T::any(), T::any());
    kani::assume(!(u > T::zero()));
    kani::cover!(u == T::zero(), "upper == 0");
    let _ = v.wrapped(u);
    panic!("K-NOPANIC: returned normally outside the documented domain");
}
fn pingpong_panics<T: KInt>() {
    let (v, u) = (T::any(), T::any());
    kani::assume(!(u > T::zero()));
    kani::cover!(u == T::zero(), "upper == 0");
    let _ = v.pingpong(u);
    panic!("K-NOPANIC: returned normally outside the documented domain");
}

fn partial_minmax_int<T: KInt>() {
    let (a, b) = (T::any(), T::any());
    let (mn, mx) = (partial_min(a, b), partial_max(a, b));
    kani::cover!(a < b);
    kani::cover!(a > b);
    kani::cover!(a == b);
    assert!(mn <= a && mn <= b && (mn == a || mn == b));
    assert!(mx >= a && mx >= b && (mx == a || mx == b));
}

// ------------------------------------------------------------------------------------------------
// quick tier: i8, u8, Wrapping<i8>, Wrapping<u8> — all 2^24 triples each
// ------------------------------------------------------------------------------------------------

/// K: fns=Clamp::clamped,IsBetween::is_between | inst=i8 | bound=all 2^24 (value,lower,upper) with lower<=upper
/// K: asserts=value inside -> itself; outside -> nearer bound; idempotent; is_between = membership = (clamped==self); no panic
#[kani::proof]
fn c17_q_clamp_laws_i8() { clamp_laws::<i8>() }
/// K: fns=Clamp::clamped,IsBetween::is_between | inst=u8 | bound=all 2^24 (value,lower,upper) with lower<=upper
/// K: asserts=value inside -> itself; outside -> nearer bound; idempotent; is_between = membership = (clamped==self); no panic
#[kani::proof]
fn c17_q_clamp_laws_u8() { clamp_laws::<u8>() }
/// K: fns=Clamp::clamped,IsBetween::is_between | inst=Wrapping<i8> | bound=all 2^24 triples with lower<=upper
/// K: asserts=value inside -> itself; outside -> nearer bound; idempotent; is_between = membership = (clamped==self); no panic
#[kani::proof]
fn c17_q_clamp_laws_wi8() { clamp_laws::<Wrapping<i8>>() }
/// K: fns=Clamp::clamped,IsBetween::is_between | inst=Wrapping<u8> | bound=all 2^24 triples with lower<=upper
/// K: asserts=value inside -> itself; outside -> nearer bound; idempotent; is_between = membership = (clamped==self); no panic
#[kani::proof]
fn c17_q_clamp_laws_wu8() { clamp_laws::<Wrapping<u8>>() }

/// K: fns=Clamp::clamp,Clamp::clamped_to_inclusive_range,Clamp::clamp_to_inclusive_range,Clamp::clamped01,Clamp::clamp01,IsBetween::is_between01,IsBetween::is_between_inclusive_range_bounds
/// K: inst=i8 | bound=all triples with lower<=upper | asserts=each alias equals the base form clamped/is_between
#[kani::proof]
fn c17_q_clamp_aliases_i8() { clamp_aliases::<i8>() }
/// K: fns=Clamp::clamp,Clamp::clamped_to_inclusive_range,Clamp::clamp_to_inclusive_range,Clamp::clamped01,Clamp::clamp01,IsBetween::is_between01,IsBetween::is_between_inclusive_range_bounds
/// K: inst=u8 | bound=all triples with lower<=upper | asserts=each alias equals the base form clamped/is_between
#[kani::proof]
fn c17_q_clamp_aliases_u8() { clamp_aliases::<u8>() }
/// K: fns=Clamp::clamp,Clamp::clamped_to_inclusive_range,Clamp::clamp_to_inclusive_range,Clamp::clamped01,Clamp::clamp01,IsBetween::is_between01,IsBetween::is_between_inclusive_range_bounds
/// K: inst=Wrapping<i8> | bound=all triples with lower<=upper | asserts=each alias equals the base form clamped/is_between
#[kani::proof]
fn c17_q_clamp_aliases_wi8() { clamp_aliases::<Wrapping<i8>>() }
/// K: fns=Clamp::clamp,Clamp::clamped_to_inclusive_range,Clamp::clamp_to_inclusive_range,Clamp::clamped01,Clamp::clamp01,IsBetween::is_between01,IsBetween::is_between_inclusive_range_bounds
/// K: inst=Wrapping<u8> | bound=all triples with lower<=upper | asserts=each alias equals the base form clamped/is_between
#[kani::proof]
fn c17_q_clamp_aliases_wu8() { clamp_aliases::<Wrapping<u8>>() }

/// K: fns=Clamp::clamped_minus1_1,Clamp::clamp_minus1_1 | inst=i8,Wrapping<i8>,f32,f64 | bound=all values (floats: non-NaN)
/// K: asserts=equal to clamped(-1,1); result in [-1,1]
#[kani::proof]
fn c17_q_clamp_minus1_1() {
    clamp_m1_body!(i8, kani::any(), -1i8, 1i8);
    clamp_m1_body!(Wrapping<i8>, Wrapping(kani::any()), Wrapping(-1i8), Wrapping(1i8));
    clamp_m1_body!(f32, { let x: f32 = kani::any(); kani::assume(!x.is_nan()); x }, -1f32, 1f32);
    clamp_m1_body!(f64, { let x: f64 = kani::any(); kani::assume(!x.is_nan()); x }, -1f64, 1f64);
}

/// K: fns=Clamp::clamped | inst=i8,u8,Wrapping<i8>,Wrapping<u8> | bound=all triples with lower>upper
/// K: asserts=the call never returns (documented panic) | panics=assertion failed: lower <= upper
#[kani::proof]
#[kani::should_panic]
fn c17_q_clamped_panics_iff_inverted() {
    match kani::any::<u8>() % 4 {
        0 => clamp_panics::<i8>(),
        1 => clamp_panics::<u8>(),
        2 => clamp_panics::<Wrapping<i8>>(),
        _ => clamp_panics::<Wrapping<u8>>(),
    }
}
/// K: fns=IsBetween::is_between | inst=i8,u8,Wrapping<i8>,Wrapping<u8> | bound=all triples with lower>upper
/// K: asserts=the call never returns (documented panic) | panics=assertion failed: lower <= upper
#[kani::proof]
#[kani::should_panic]
fn c17_q_is_between_panics_iff_inverted() {
    match kani::any::<u8>() % 4 {
        0 => is_between_panics::<i8>(),
        1 => is_between_panics::<u8>(),
        2 => is_between_panics::<Wrapping<i8>>(),
        _ => is_between_panics::<Wrapping<u8>>(),
    }
}

/// K: fns=Wrap::wrapped_between,Wrap::wrap_between | inst=i8 | bound=all 2^24 triples with 0<=lower<upper
/// K: asserts=no panic; result in [lower,upper); result ≡ value (mod upper-lower) (oracle in i16); identity inside
#[kani::proof]
fn c17_q_wrapped_between_i8() { wrapped_between_laws::<i8>() }
/// K: fns=Wrap::wrapped_between,Wrap::wrap_between | inst=u8 | bound=all 2^24 triples with 0<=lower<upper
/// K: asserts=no panic; result in [lower,upper); result ≡ value (mod upper-lower) (oracle in i16); identity inside
#[kani::proof]
fn c17_q_wrapped_between_u8() { wrapped_between_laws::<u8>() }
/// K: fns=Wrap::wrapped_between,Wrap::wrap_between | inst=Wrapping<i8> | bound=all 2^24 triples with 0<=lower<upper
/// K: asserts=result in [lower,upper); result ≡ value (mod upper-lower) (oracle in i16); identity inside
#[kani::proof]
fn c17_q_wrapped_between_wi8() { wrapped_between_laws::<Wrapping<i8>>() }
/// K: fns=Wrap::wrapped_between,Wrap::wrap_between | inst=Wrapping<u8> | bound=all 2^24 triples with 0<=lower<upper
/// K: asserts=result in [lower,upper); result ≡ value (mod upper-lower) (oracle in i16); identity inside
#[kani::proof]
fn c17_q_wrapped_between_wu8() { wrapped_between_laws::<Wrapping<u8>>() }

/// K: fns=Wrap::wrapped,Wrap::wrap | inst=i8 | bound=all 2^16 (value,upper) with upper>0
/// K: asserts=no panic; result in [0,upper); result ≡ value (mod upper) (oracle in i16)
#[kani::proof]
fn c17_q_wrapped_i8() { wrapped_laws::<i8>() }
/// K: fns=Wrap::wrapped,Wrap::wrap | inst=u8 | bound=all 2^16 (value,upper) with upper>0
/// K: asserts=no panic; result in [0,upper); result ≡ value (mod upper) (oracle in i16)
#[kani::proof]
fn c17_q_wrapped_u8() { wrapped_laws::<u8>() }
/// K: fns=Wrap::wrapped,Wrap::wrap | inst=Wrapping<i8> | bound=all 2^16 (value,upper) with upper>0
/// K: asserts=result in [0,upper); result ≡ value (mod upper) (oracle in i16)
#[kani::proof]
fn c17_q_wrapped_wi8() { wrapped_laws::<Wrapping<i8>>() }
/// K: fns=Wrap::wrapped,Wrap::wrap | inst=Wrapping<u8> | bound=all 2^16 (value,upper) with upper>0
/// K: asserts=result in [0,upper); result ≡ value (mod upper) (oracle in i16)
#[kani::proof]
fn c17_q_wrapped_wu8() { wrapped_laws::<Wrapping<u8>>() }

/// K: fns=Wrap::pingpong | inst=i8 | bound=all 2^16 (value,upper) with upper>0
/// K: asserts=no panic; value in [0,upper]; equals the triangle wave of period 2*upper (oracle: rem_euclid in i16)
#[kani::proof]
fn c17_q_pingpong_i8() { pingpong_laws::<i8>() }
/// K: fns=Wrap::pingpong | inst=u8 | bound=all 2^16 (value,upper) with upper>0
/// K: asserts=no panic; value in [0,upper]; equals the triangle wave of period 2*upper (oracle: rem_euclid in i16)
#[kani::proof]
fn c17_q_pingpong_u8() { pingpong_laws::<u8>() }
/// K: fns=Wrap::pingpong | inst=Wrapping<i8> | bound=all 2^16 (value,upper) with upper>0
/// K: asserts=value in [0,upper]; equals the triangle wave of period 2*upper (oracle: rem_euclid in i16)
#[kani::proof]
fn c17_q_pingpong_wi8() { pingpong_laws::<Wrapping<i8>>() }
/// K: fns=Wrap::pingpong | inst=Wrapping<u8> | bound=all 2^16 (value,upper) with upper>0
/// K: asserts=value in [0,upper]; equals the triangle wave of period 2*upper (oracle: rem_euclid in i16)
#[kani::proof]
fn c17_q_pingpong_wu8() { pingpong_laws::<Wrapping<u8>>() }

/// K: fns=Wrap::wrapped_between | inst=i8,u8,Wrapping<i8>,Wrapping<u8> | bound=all triples with lower<0 or lower>=upper
/// K: asserts=the call never returns (documented panics) | panics=assertion failed: (lower < upper|lower >= Self::zero\(\)|upper > Self::zero\(\))
#[kani::proof]
#[kani::should_panic]
fn c17_q_wrapped_between_panics_outside_domain() {
    match kani::any::<u8>() % 4 {
        0 => wrapped_between_panics::<i8>(),
        1 => wrapped_between_panics::<u8>(),
        2 => wrapped_between_panics::<Wrapping<i8>>(),
        _ => wrapped_between_panics::<Wrapping<u8>>(),
    }
}
/// K: fns=Wrap::wrapped | inst=i8,u8,Wrapping<i8>,Wrapping<u8> | bound=all (value,upper) with upper<=0
/// K: asserts=the call never returns (documented panic) | panics=assertion failed: upper > Self::zero\(\)
#[kani::proof]
#[kani::should_panic]
fn c17_q_wrapped_panics_nonpositive_upper() {
    match kani::any::<u8>() % 4 {
        0 => wrapped_panics::<i8>(),
        1 => wrapped_panics::<u8>(),
        2 => wrapped_panics::<Wrapping<i8>>(),
        _ => wrapped_panics::<Wrapping<u8>>(),
    }
}
/// K: fns=Wrap::pingpong | inst=i8,u8,Wrapping<i8>,Wrapping<u8> | bound=all (value,upper) with upper<=0
/// K: asserts=the call never returns (documented panic) | panics=assertion failed: upper > Self::zero\(\)
#[kani::proof]
#[kani::should_panic]
fn c17_q_pingpong_panics_nonpositive_upper() {
    match kani::any::<u8>() % 4 {
        0 => pingpong_panics::<i8>(),
        1 => pingpong_panics::<u8>(),
        2 => pingpong_panics::<Wrapping<i8>>(),
        _ => pingpong_panics::<Wrapping<u8>>(),
    }
}

/// K: fns=partial_min,partial_max | inst=i8,u8,Wrapping<i8>,f32,f64 | bound=all pairs (floats: non-NaN)
/// K: asserts=result is one of the operands and is <= / >= both
#[kani::proof]
fn c17_q_partial_min_max() {
    partial_minmax_int::<i8>();
    partial_minmax_int::<u8>();
    partial_minmax_int::<Wrapping<i8>>();
    let (a, b): (f32, f32) = (kani::any(), kani::any());
    kani::assume(!a.is_nan() && !b.is_nan());
    let (mn, mx) = (partial_min(a, b), partial_max(a, b));
    assert!(mn <= a && mn <= b && (mn == a || mn == b));
    assert!(mx >= a && mx >= b && (mx == a || mx == b));
    let (a, b): (f64, f64) = (kani::any(), kani::any());
    kani::assume(!a.is_nan() && !b.is_nan());
    let (mn, mx) = (partial_min(a, b), partial_max(a, b));
    kani::cover!(a < b && mn == a && mx == b);
    assert!(mn <= a && mn <= b && (mn == a || mn == b));
    assert!(mx >= a && mx >= b && (mx == a || mx == b));
}

// ------------------------------------------------------------------------------------------------
// floats (non-NaN)
// ------------------------------------------------------------------------------------------------

macro_rules! float_clamp_laws {
    ($F:ty) => {{
        let (v, l, u): ($F, $F, $F) = (kani::any(), kani::any(), kani::any());
        kani::assume(!v.is_nan() && !l.is_nan() && !u.is_nan());
        kani::assume(l <= u);
        let r = v.clamped(l, u);
        kani::cover!(v < l && l.is_finite(), "below");
        kani::cover!(v > u && v.is_infinite(), "above, infinite input");
        kani::cover!(l < v && v < u, "strictly inside");
        if v < l {
            assert!(r == l);
        } else if v > u {
            assert!(r == u);
        } else {
            assert!(r == v);
        }
        assert!(r.clamped(l, u) == r, "idempotent");
        let b = v.is_between(l, u);
        assert!(b == (l <= v && v <= u));
        assert!(b == (r == v));
        assert!(<$F as Clamp>::clamp(v, l, u) == r);
        assert!(v.clamped_to_inclusive_range(l..=u) == r);
        assert!(v.clamped01() == v.clamped(0.0, 1.0));
        assert!(<$F as Clamp>::clamp01(v) == v.clamped(0.0, 1.0));
        assert!(v.is_between01() == v.is_between(0.0, 1.0));
    }};
}
/// K: fns=Clamp::clamped,IsBetween::is_between,Clamp::clamp,Clamp::clamped_to_inclusive_range,Clamp::clamped01,Clamp::clamp01,IsBetween::is_between01
/// K: inst=f32 | bound=all non-NaN (value,lower,upper) incl. infinities and signed zeros, lower<=upper
/// K: asserts=inside -> itself; outside -> nearer bound; idempotent; is_between = membership = (clamped==self); aliases equal base form; no panic
#[kani::proof]
fn c17_q_clamp_laws_f32() { float_clamp_laws!(f32) }
/// K: fns=Clamp::clamped,IsBetween::is_between,Clamp::clamp,Clamp::clamped_to_inclusive_range,Clamp::clamped01,Clamp::clamp01,IsBetween::is_between01
/// K: inst=f64 | bound=all non-NaN (value,lower,upper) incl. infinities and signed zeros, lower<=upper
/// K: asserts=inside -> itself; outside -> nearer bound; idempotent; is_between = membership = (clamped==self); aliases equal base form; no panic
#[kani::proof]
fn c17_q_clamp_laws_f64() { float_clamp_laws!(f64) }

macro_rules! float_nan_value_laws {
    ($F:ty) => {{
        let (v, l, u): ($F, $F, $F) = (kani::any(), kani::any(), kani::any());
        kani::assume(!l.is_nan() && !u.is_nan() && l <= u);
        kani::cover!(v.is_nan(), "NaN value");
        kani::cover!(v.is_infinite() && l.is_infinite(), "infinite value and bound");
        let b = v.is_between(l, u);
        let r = v.clamped(l, u);
        // a NaN is a member of no interval; the range test is the chained comparison for every value
        assert!(b == (l <= v && v <= u));
        assert!(b == (r == v));
        // whatever the value, the clamped result is a member of [lower, upper]
        assert!(l <= r && r <= u);
        assert!(v.is_between01() == (0.0 <= v && v <= 1.0));
    }};
}
/// K: fns=Clamp::clamped,IsBetween::is_between,IsBetween::is_between01 | inst=f32 | bound=every value including NaN and the infinities; bounds non-NaN with lower<=upper
/// K: asserts=is_between is the chained comparison lower<=v<=upper (so a NaN value is in no interval), agrees with clamped==self, and the clamped result always lies in [lower, upper]
#[kani::proof]
fn c17_q_clamp_nan_value_f32() { float_nan_value_laws!(f32) }
/// K: fns=Clamp::clamped,IsBetween::is_between,IsBetween::is_between01 | inst=f64 | bound=every value including NaN and the infinities; bounds non-NaN with lower<=upper
/// K: asserts=is_between is the chained comparison lower<=v<=upper (so a NaN value is in no interval), agrees with clamped==self, and the clamped result always lies in [lower, upper]
#[kani::proof]
fn c17_q_clamp_nan_value_f64() { float_nan_value_laws!(f64) }
/// K: fns=Clamp::clamped,IsBetween::is_between | inst=f32 | bound=all triples in which a bound is NaN
/// K: asserts=the call never returns: a NaN bound is not ordered, which is the documented panic | panics=assertion failed: lower <= upper
#[kani::proof]
#[kani::should_panic]
fn c17_q_float_clamp_panics_on_nan_bound() {
    let (v, l, u): (f32, f32, f32) = (kani::any(), kani::any(), kani::any());
    kani::assume(l.is_nan() || u.is_nan());
    kani::cover!(l.is_nan() && !u.is_nan());
    let which: bool = kani::any();
    if which { let _ = v.clamped(l, u); } else { let _ = v.is_between(l, u); }
    panic!("K-NOPANIC: returned normally although a bound is NaN");
}

/// K: fns=Clamp::clamped,IsBetween::is_between | inst=f32,f64 | bound=all non-NaN triples with lower>upper
/// K: asserts=the call never returns (documented panic) | panics=assertion failed: lower <= upper
#[kani::proof]
#[kani::should_panic]
fn c17_q_float_clamp_panics_iff_inverted() {
    let which: u8 = kani::any();
    if which & 1 == 0 {
        let (v, l, u): (f32, f32, f32) = (kani::any(), kani::any(), kani::any());
        kani::assume(!v.is_nan() && !l.is_nan() && !u.is_nan() && l > u);
        kani::cover!(l > u);
        if which & 2 == 0 { let _ = v.clamped(l, u); } else { let _ = v.is_between(l, u); }
    } else {
        let (v, l, u): (f64, f64, f64) = (kani::any(), kani::any(), kani::any());
        kani::assume(!v.is_nan() && !l.is_nan() && !u.is_nan() && l > u);
        kani::cover!(l > u);
        if which & 2 == 0 { let _ = v.clamped(l, u); } else { let _ = v.is_between(l, u); }
    }
    panic!("K-NOPANIC: returned normally although lower > upper");
}

/// K: fns=Wrap::wrapped | inst=f32 | bound=all finite (value,upper) with 0<=value<upper
/// K: asserts=wrapped is the identity on [0,upper) (bit-exact up to the sign of zero) | cap=600
#[kani::proof]
fn c17_q_f32_wrapped_identity_inside() {
    let (v, u): (f32, f32) = (kani::any(), kani::any());
    kani::assume(v.is_finite() && u.is_finite());
    kani::assume(0.0 <= v && v < u);
    kani::cover!(v > 0.0 && u > 1.0e30);
    kani::cover!(v > 0.0 && u < 1.0e-30);
    let r = v.wrapped(u);
    assert!(r == v);
}

/// K: fns=Wrap::wrapped,Wrap::pingpong | inst=f32,f64 | bound=all non-NaN (value,upper) with upper<=0
/// K: asserts=the call never returns (documented panic) | panics=assertion failed: upper > Self::zero\(\)
#[kani::proof]
#[kani::should_panic]
fn c17_q_float_wrap_panics_nonpositive_upper() {
    let which: u8 = kani::any();
    if which & 1 == 0 {
        let (v, u): (f32, f32) = (kani::any(), kani::any());
        kani::assume(!v.is_nan() && !u.is_nan() && u <= 0.0);
        kani::cover!(u == 0.0);
        if which & 2 == 0 { let _ = v.wrapped(u); } else { let _ = v.pingpong(u); }
    } else {
        let (v, u): (f64, f64) = (kani::any(), kani::any());
        kani::assume(!v.is_nan() && !u.is_nan() && u <= 0.0);
        kani::cover!(u < 0.0);
        if which & 2 == 0 { let _ = v.wrapped(u); } else { let _ = v.pingpong(u); }
    }
    panic!("K-NOPANIC: returned normally although upper <= 0");
}

// ------------------------------------------------------------------------------------------------
// vector lifts: the vector forms apply the scalar function per lane (src/vec.rs Wrap/Clamp/IsBetween)
// ------------------------------------------------------------------------------------------------

/// A scalar whose Clamp/Wrap functions only RECORD which function was applied to which operands
/// (an "opaque term": no arithmetic, so results are equal iff the same function was applied to the
/// same lane values). The vector lifts are generic in `T` (they only call `T`'s scalar functions), so
/// any lane-routing or wrong-function mistake in a lift shows up with this `T` — for all lane values.
/// (Comparing two copies of the real 8-bit division circuits lane by lane is what CBMC is bad at:
/// > 4 min per harness; the real i8/u8 instantiations follow below with concrete wrap bounds.)
#[derive(Clone, Copy, PartialEq, Debug)]
pub struct Lane { pub v: u8, pub a: u8, pub b: u8, pub op: u8 }
#[allow(non_snake_case)]
fn Lane(v: u8) -> Lane { Lane { v, a: 0, b: 0, op: 0 } }
impl Clamp for Lane {
    fn clamped(self, lower: Lane, upper: Lane) -> Lane { Lane { v: self.v, a: lower.v, b: upper.v, op: 1 } }
}
impl IsBetween for Lane {
    type Output = bool;
    fn is_between(self, lower: Lane, upper: Lane) -> bool { (self.v ^ (lower.v >> 1) ^ (upper.v >> 2)) & 1 == 1 }
}
impl Wrap for Lane {
    fn wrapped(self, upper: Lane) -> Lane { Lane { v: self.v, a: upper.v, b: 0, op: 3 } }
    fn wrapped_between(self, lower: Lane, upper: Lane) -> Lane { Lane { v: self.v, a: lower.v, b: upper.v, op: 4 } }
    fn pingpong(self, upper: Lane) -> Lane { Lane { v: self.v, a: upper.v, b: 0, op: 5 } }
}

/// All five lifts, both bound forms, on one vector type; every lane compared through its field.
macro_rules! lane_lift_body {
    ($V:ident, [$($f:tt),+]) => {{
        let v = $V::<Lane> { $($f: Lane(kani::any())),+ };
        let lo = $V::<Lane> { $($f: Lane(kani::any())),+ };
        let hi = $V::<Lane> { $($f: Lane(kani::any())),+ };
        let (sl, su) = (Lane(kani::any()), Lane(kani::any()));
        kani::cover!(true $(&& v.$f.v != hi.$f.v)+, "every lane differs from its bound");
        let c = v.clamped(lo, hi);
        let b = v.is_between(lo, hi);
        let w = v.wrapped(hi);
        let wb = v.wrapped_between(lo, hi);
        let p = v.pingpong(hi);
        let cs = v.clamped(sl, su);
        let bs = v.is_between(sl, su);
        let ws = v.wrapped(su);
        let wbs = v.wrapped_between(sl, su);
        let ps = v.pingpong(su);
        let wa = $V::<Lane>::wrap(v, su);
        let ca = $V::<Lane>::clamp(v, lo, hi);
        $(
            assert!(c.$f == v.$f.clamped(lo.$f, hi.$f));
            assert!(b.$f == v.$f.is_between(lo.$f, hi.$f));
            assert!(w.$f == v.$f.wrapped(hi.$f));
            assert!(wb.$f == v.$f.wrapped_between(lo.$f, hi.$f));
            assert!(p.$f == v.$f.pingpong(hi.$f));
            assert!(cs.$f == v.$f.clamped(sl, su));
            assert!(bs.$f == v.$f.is_between(sl, su));
            assert!(ws.$f == v.$f.wrapped(su));
            assert!(wbs.$f == v.$f.wrapped_between(sl, su));
            assert!(ps.$f == v.$f.pingpong(su));
            assert!(wa.$f == v.$f.wrapped(su));
            assert!(ca.$f == v.$f.clamped(lo.$f, hi.$f));
        )+
    }};
}
macro_rules! lane_lift_big { ($V:ident, $($id:tt),+) => { lane_lift_body!($V, [$($id),+]) } }
macro_rules! ids8 { ($m:ident $(, $a:tt)*) => { $m!($($a,)* 0, 1, 2, 3, 4, 5, 6, 7) } }
macro_rules! ids16 { ($m:ident $(, $a:tt)*) => { $m!($($a,)* 0, 1, 2, 3, 4, 5, 6, 7, 8, 9, 10, 11, 12, 13, 14, 15) } }
macro_rules! ids32 { ($m:ident $(, $a:tt)*) => { $m!($($a,)* 0, 1, 2, 3, 4, 5, 6, 7, 8, 9, 10, 11, 12, 13, 14, 15,
    16, 17, 18, 19, 20, 21, 22, 23, 24, 25, 26, 27, 28, 29, 30, 31) } }
macro_rules! ids64 { ($m:ident $(, $a:tt)*) => { $m!($($a,)* 0, 1, 2, 3, 4, 5, 6, 7, 8, 9, 10, 11, 12, 13, 14, 15,
    16, 17, 18, 19, 20, 21, 22, 23, 24, 25, 26, 27, 28, 29, 30, 31, 32, 33, 34, 35, 36, 37, 38, 39, 40, 41, 42, 43, 44, 45, 46, 47,
    48, 49, 50, 51, 52, 53, 54, 55, 56, 57, 58, 59, 60, 61, 62, 63) } }

/// K: fns=Vec2::clamped,Vec2::is_between,Vec2::wrapped,Vec2::wrapped_between,Vec2::pingpong,Vec2::wrap,Vec2::clamp (vector-bound and scalar-bound forms) + same on Vec3,Vec4
/// K: inst=Vec2/Vec3/Vec4<Lane> (Lane = harness scalar with cheap asymmetric Clamp/IsBetween/Wrap) | bound=all lane values and bounds
/// K: asserts=lane i of every lifted result = the scalar function applied to lane i of the operands (scalar bound: same bound in every lane)
#[kani::proof]
fn c17_q_lift_lanes_vec234() {
    match kani::any::<u8>() % 3 {
        0 => lane_lift_body!(Vec2, [x, y]),
        1 => lane_lift_body!(Vec3, [x, y, z]),
        _ => lane_lift_body!(Vec4, [x, y, z, w]),
    }
}
/// K: fns=clamped,is_between,wrapped,wrapped_between,pingpong,wrap,clamp lifts on Extent2,Extent3,Rgb,Rgba,Uv,Uvw
/// K: inst=<Lane> | bound=all lane values and bounds
/// K: asserts=lane i of every lifted result = the scalar function applied to lane i of the operands
#[kani::proof]
fn c17_q_lift_lanes_other_types() {
    match kani::any::<u8>() % 6 {
        0 => lane_lift_body!(Extent2, [w, h]),
        1 => lane_lift_body!(Extent3, [w, h, d]),
        2 => lane_lift_body!(Rgb, [r, g, b]),
        3 => lane_lift_body!(Rgba, [r, g, b, a]),
        4 => lane_lift_body!(Uv, [u, v]),
        _ => lane_lift_body!(Uvw, [u, v, w]),
    }
}
/// K: fns=Vec8::clamped,Vec8::is_between,Vec8::wrapped,Vec8::wrapped_between,Vec8::pingpong,Vec8::wrap,Vec8::clamp | inst=Vec8<Lane> | bound=all lane values and bounds
/// K: asserts=lane i of every lifted result = the scalar function applied to lane i of the operands
#[kani::proof]
fn c17_q_lift_lanes_vec8() { ids8!(lane_lift_big, Vec8) }
/// K: fns=Vec16::clamped,Vec16::is_between,Vec16::wrapped,Vec16::wrapped_between,Vec16::pingpong,Vec16::wrap,Vec16::clamp | inst=Vec16<Lane> | bound=all lane values and bounds
/// K: asserts=lane i of every lifted result = the scalar function applied to lane i of the operands
#[kani::proof]
fn c17_q_lift_lanes_vec16() { ids16!(lane_lift_big, Vec16) }
/// K: fns=Vec32::clamped,Vec32::is_between,Vec32::wrapped,Vec32::wrapped_between,Vec32::pingpong,Vec32::wrap,Vec32::clamp | inst=Vec32<Lane> | bound=all lane values and bounds
/// K: asserts=lane i of every lifted result = the scalar function applied to lane i of the operands
#[kani::proof]
fn c17_t_lift_lanes_vec32() { ids32!(lane_lift_big, Vec32) }
/// K: fns=Vec64::clamped,Vec64::is_between,Vec64::wrapped,Vec64::wrapped_between,Vec64::pingpong,Vec64::wrap,Vec64::clamp | inst=Vec64<Lane> | bound=all lane values and bounds
/// K: asserts=lane i of every lifted result = the scalar function applied to lane i of the operands
#[kani::proof]
fn c17_t_lift_lanes_vec64() { ids64!(lane_lift_big, Vec64) }

/// Real machine scalars: clamp / is_between lifts fully symbolic (comparisons only); the wrap family
/// with symbolic lane values and CONCRETE, pairwise distinct bounds per lane (a symbolic divisor in
/// 2N copies of the division circuit does not finish).
macro_rules! real_lift_body {
    ($V:ident, $T:ty, [$($f:ident : $lo:expr, $hi:expr);+]) => {{
        let v = $V::<$T> { $($f: kani::any()),+ };
        let lo = $V::<$T> { $($f: kani::any()),+ };
        let hi = $V::<$T> { $($f: kani::any()),+ };
        let (sl, su): ($T, $T) = (kani::any(), kani::any());
        kani::assume(true $(&& lo.$f <= hi.$f)+);
        kani::assume(sl <= su);
        kani::cover!(true $(&& v.$f > hi.$f)+, "every lane above its bound");
        let c = v.clamped(lo, hi);
        let b = v.is_between(lo, hi);
        let cs = v.clamped(sl, su);
        let bs = v.is_between(sl, su);
        $(
            assert!(c.$f == v.$f.clamped(lo.$f, hi.$f));
            assert!(b.$f == v.$f.is_between(lo.$f, hi.$f));
            assert!(cs.$f == v.$f.clamped(sl, su));
            assert!(bs.$f == v.$f.is_between(sl, su));
        )+
        let klo = $V::<$T> { $($f: $lo),+ };
        let khi = $V::<$T> { $($f: $hi),+ };
        kani::cover!(true $(&& v.$f >= $hi)+, "every lane wraps");
        let wb = v.wrapped_between(klo, khi);
        let w = v.wrapped(khi);
        let p = v.pingpong(khi);
        let wbs = v.wrapped_between(2, 7);
        let ws = v.wrapped(7);
        let ps = v.pingpong(7);
        $(
            assert!(wb.$f == v.$f.wrapped_between($lo, $hi));
            assert!(w.$f == v.$f.wrapped($hi));
            assert!(p.$f == v.$f.pingpong($hi));
            assert!(wbs.$f == v.$f.wrapped_between(2, 7));
            assert!(ws.$f == v.$f.wrapped(7));
            assert!(ps.$f == v.$f.pingpong(7));
        )+
    }};
}
/// K: fns=Vec2::clamped,Vec2::is_between,Vec2::wrapped,Vec2::wrapped_between,Vec2::pingpong + same on Vec3,Vec4 (vector-bound and scalar-bound forms)
/// K: inst=Vec2/Vec3/Vec4<i8> | bound=clamp/is_between: all lanes and bounds with lower<=upper; wrap family: all lane values, concrete distinct bounds per lane (0..3,1..5,2..11,3..127; scalar 2..7)
/// K: asserts=lane i of the result = the scalar function on lane i; no panic
#[kani::proof]
fn c17_q_lift_real_i8() {
    match kani::any::<u8>() % 3 {
        0 => real_lift_body!(Vec2, i8, [x: 0, 3; y: 1, 5]),
        1 => real_lift_body!(Vec3, i8, [x: 0, 3; y: 1, 5; z: 2, 11]),
        _ => real_lift_body!(Vec4, i8, [x: 0, 3; y: 1, 5; z: 2, 11; w: 3, 127]),
    }
}
/// K: fns=Vec2::clamped,Vec2::is_between,Vec2::wrapped,Vec2::wrapped_between,Vec2::pingpong + same on Vec3,Vec4 (vector-bound and scalar-bound forms)
/// K: inst=Vec2/Vec3/Vec4<u8> | bound=clamp/is_between: all lanes and bounds with lower<=upper; wrap family: all lane values, concrete distinct bounds per lane (0..3,1..5,2..11,3..255; scalar 2..7)
/// K: asserts=lane i of the result = the scalar function on lane i; no panic
#[kani::proof]
fn c17_q_lift_real_u8() {
    match kani::any::<u8>() % 3 {
        0 => real_lift_body!(Vec2, u8, [x: 0, 3; y: 1, 5]),
        1 => real_lift_body!(Vec3, u8, [x: 0, 3; y: 1, 5; z: 2, 11]),
        _ => real_lift_body!(Vec4, u8, [x: 0, 3; y: 1, 5; z: 2, 11; w: 3, 255]),
    }
}

/// K: fns=Vec3::clamped,Vec3::is_between | inst=Vec3<i8> | bound=all inputs where at least one lane has lower>upper
/// K: asserts=the call never returns (the scalar panic propagates) | panics=assertion failed: lower <= upper
#[kani::proof]
#[kani::should_panic]
fn c17_q_lift_panics_if_any_lane_inverted() {
    let v = Vec3::<i8>::new(kani::any(), kani::any(), kani::any());
    let lo = Vec3::<i8>::new(kani::any(), kani::any(), kani::any());
    let hi = Vec3::<i8>::new(kani::any(), kani::any(), kani::any());
    kani::assume(lo.x > hi.x || lo.y > hi.y || lo.z > hi.z);
    kani::cover!(lo.x <= hi.x && lo.y <= hi.y && lo.z > hi.z, "only the last lane is inverted");
    if kani::any() { let _ = v.clamped(lo, hi); } else { let _ = v.is_between(lo, hi); }
    panic!("K-NOPANIC: returned normally although a lane has lower > upper");
}

// ------------------------------------------------------------------------------------------------
// thorough tier: 16-bit (division by a symbolic 16-bit divisor is what bit-blasting is bad at: these
// are attempted under a cap and reported as undecided when the cap is hit)
// ------------------------------------------------------------------------------------------------

/// K: fns=Clamp::clamped,IsBetween::is_between | inst=i16 | bound=all 2^48 triples with lower<=upper
/// K: asserts=value inside -> itself; outside -> nearer bound; idempotent; is_between = membership = (clamped==self); no panic
#[kani::proof]
fn c17_t_clamp_laws_i16() { clamp_laws::<i16>() }
/// K: fns=Clamp::clamped,IsBetween::is_between | inst=u16 | bound=all 2^48 triples with lower<=upper
/// K: asserts=value inside -> itself; outside -> nearer bound; idempotent; is_between = membership = (clamped==self); no panic
#[kani::proof]
fn c17_t_clamp_laws_u16() { clamp_laws::<u16>() }
/// K: fns=Clamp::clamp,Clamp::clamped_to_inclusive_range,Clamp::clamp_to_inclusive_range,Clamp::clamped01,Clamp::clamp01,IsBetween::is_between01,IsBetween::is_between_inclusive_range_bounds
/// K: inst=i16,u16 | bound=all triples with lower<=upper | asserts=each alias equals the base form
#[kani::proof]
fn c17_t_clamp_aliases_16() {
    if kani::any() { clamp_aliases::<i16>() } else { clamp_aliases::<u16>() }
}
/// K: fns=Wrap::wrapped_between,Wrap::wrap_between | inst=i16 | bound=all 2^48 triples with 0<=lower<upper
/// K: asserts=no panic; result in [lower,upper); result ≡ value (mod upper-lower) (oracle in i32) | cap=900
#[kani::proof]
fn c17_t_wrapped_between_i16() { wrapped_between_laws::<i16>() }
/// K: fns=Wrap::wrapped_between,Wrap::wrap_between | inst=u16 | bound=all 2^48 triples with 0<=lower<upper
/// K: asserts=no panic; result in [lower,upper); result ≡ value (mod upper-lower) (oracle in i32) | cap=900
#[kani::proof]
fn c17_t_wrapped_between_u16() { wrapped_between_laws::<u16>() }
/// K: fns=Wrap::wrapped,Wrap::wrap | inst=i16 | bound=all 2^32 (value,upper) with upper>0
/// K: asserts=no panic; result in [0,upper); result ≡ value (mod upper) (oracle in i32) | cap=900
#[kani::proof]
fn c17_t_wrapped_i16() { wrapped_laws::<i16>() }
/// K: fns=Wrap::wrapped,Wrap::wrap | inst=u16 | bound=all 2^32 (value,upper) with upper>0
/// K: asserts=no panic; result in [0,upper); result ≡ value (mod upper) (oracle in i32) | cap=900
#[kani::proof]
fn c17_t_wrapped_u16() { wrapped_laws::<u16>() }
/// K: fns=Wrap::pingpong | inst=i16 | bound=all 2^32 (value,upper) with upper>0
/// K: asserts=no panic; value in [0,upper]; triangle wave of period 2*upper (oracle in i32) | cap=900
#[kani::proof]
fn c17_t_pingpong_i16() { pingpong_laws::<i16>() }
/// K: fns=Wrap::pingpong | inst=u16 | bound=all 2^32 (value,upper) with upper>0
/// K: asserts=no panic; value in [0,upper]; triangle wave of period 2*upper (oracle in i32) | cap=900
#[kani::proof]
fn c17_t_pingpong_u16() { pingpong_laws::<u16>() }
/// K: fns=Wrap::wrapped,Wrap::wrapped_between | inst=i16,u16 | bound=all (value,upper) with upper>0
/// K: asserts=wrapped(upper) == wrapped_between(0,upper); no panic (no oracle division) | cap=900
#[kani::proof]
fn c17_t_wrapped_is_wrapped_between0_16() {
    if kani::any() { wrapped_is_wrapped_between0::<i16>() } else { wrapped_is_wrapped_between0::<u16>() }
}
/// K: fns=Wrap::wrapped_between,Wrap::wrapped,Wrap::pingpong,Clamp::clamped,IsBetween::is_between | inst=i16,u16
/// K: bound=all inputs outside the documented domains | asserts=the call never returns
/// K: panics=assertion failed: (lower <= upper|lower < upper|lower >= Self::zero\(\)|upper > Self::zero\(\))
#[kani::proof]
#[kani::should_panic]
fn c17_t_panics_outside_domain_16() {
    match kani::any::<u8>() % 10 {
        0 => wrapped_between_panics::<i16>(),
        1 => wrapped_panics::<i16>(),
        2 => pingpong_panics::<i16>(),
        3 => wrapped_between_panics::<u16>(),
        4 => wrapped_panics::<u16>(),
        5 => pingpong_panics::<u16>(),
        6 => clamp_panics::<i16>(),
        7 => is_between_panics::<i16>(),
        8 => clamp_panics::<u16>(),
        _ => is_between_panics::<u16>(),
    }
}

/// f32 `wrapped` stays in [0, upper] up to 8 ulp(|value|) for ONE concrete upper (a symbolic float divisor
/// and factor are out of reach; one upper per harness because the float pipelines are independent).
fn f32_wrapped_range(u: f32) {
    let v: f32 = kani::any();
    // subnormal inputs are outside the claim (DESIGN §8): e.g. (-1.7e-44f32).wrapped(360.0) returns the
    // input itself (v/upper underflows to -0.0), i.e. a negative value 12 subnormal-ulps below 0.
    kani::assume((v == 0.0 || v.is_normal()) && v.abs() <= 1048576.0 * u);
    kani::cover!(v < 0.0);
    kani::cover!(v > u);
    let r = v.wrapped(u);
    let tol = 8.0 * f32::EPSILON * v.abs().max(f32::MIN_POSITIVE);
    assert!(r >= -tol && r <= u + tol);
}
/// K: fns=Wrap::wrapped | inst=f32, upper = 1 | bound=normal or zero value with |value| <= 2^20*upper (subnormals excluded), one concrete upper
/// K: asserts=no panic; -8ulp(|value|) <= result <= upper + 8ulp(|value|) (the property's "few ulps of the input's magnitude") | cap=900
#[kani::proof]
fn c17_q_f32_wrapped_range_u1() { f32_wrapped_range(1.0) }
/// K: fns=Wrap::wrapped | inst=f32, upper = 3 | bound=normal or zero value with |value| <= 2^20*upper (subnormals excluded), one concrete upper
/// K: asserts=no panic; -8ulp(|value|) <= result <= upper + 8ulp(|value|) (the property's "few ulps of the input's magnitude") | cap=900
#[kani::proof]
fn c17_q_f32_wrapped_range_u3() { f32_wrapped_range(3.0) }
/// K: fns=Wrap::wrapped | inst=f32, upper = 0.1 | bound=normal or zero value with |value| <= 2^20*upper (subnormals excluded), one concrete upper
/// K: asserts=no panic; -8ulp(|value|) <= result <= upper + 8ulp(|value|) (the property's "few ulps of the input's magnitude") | cap=900
#[kani::proof]
fn c17_t_f32_wrapped_range_u0p1() { f32_wrapped_range(0.1) }
/// K: fns=Wrap::wrapped | inst=f32, upper = 360 | bound=normal or zero value with |value| <= 2^20*upper (subnormals excluded), one concrete upper
/// K: asserts=no panic; -8ulp(|value|) <= result <= upper + 8ulp(|value|) (the property's "few ulps of the input's magnitude") | cap=900
#[kani::proof]
fn c17_q_f32_wrapped_range_u360() { f32_wrapped_range(360.0) }
/// K: fns=Wrap::wrapped | inst=f32, upper = 2*PI_f32 | bound=normal or zero value with |value| <= 2^20*upper (subnormals excluded), one concrete upper
/// K: asserts=no panic; -8ulp(|value|) <= result <= upper + 8ulp(|value|) (the property's "few ulps of the input's magnitude") | cap=900
#[kani::proof]
fn c17_t_f32_wrapped_range_u2pi() { f32_wrapped_range(core::f32::consts::PI + core::f32::consts::PI) }
