//! C12 (K part) — scalar Lerp impls at machine level: float endpoints, integer Lerp<f32>/Lerp<f64>
//! for ALL endpoint pairs x a concrete dyadic factor grid. (A symbolic float factor is out of
//! reach: > 10 min.) Metadata format: see c17.rs.

use vek::ops::Lerp;

/// round-half-away-from-zero of num / 2^sh, exact integer arithmetic without a division circuit.
fn round_half_away(num: i32, sh: u32) -> i32 {
    let half = 1i32 << (sh - 1);
    if num >= 0 { (num + half) >> sh } else { -((-num + half) >> sh) }
}

macro_rules! float_endpoints {
    ($F:ty) => {{
        let (a, b): ($F, $F) = (kani::any(), kani::any());
        kani::assume(a.is_finite() && b.is_finite());
        kani::cover!(a > 1.0e30 && b < -1.0e30, "huge endpoints of opposite sign");
        kani::cover!(a != b && a.abs() < 1.0e-30, "tiny endpoint");
        assert!(<$F as Lerp<$F>>::lerp_unclamped_precise(a, b, 0.0) == a);
        assert!(<$F as Lerp<$F>>::lerp_unclamped_precise(a, b, 1.0) == b);
        assert!(<&$F as Lerp<$F>>::lerp_unclamped_precise(&a, &b, 0.0) == a);
        assert!(<&$F as Lerp<$F>>::lerp_unclamped_precise(&a, &b, 1.0) == b);
        assert!(<$F as Lerp<$F>>::lerp_precise(a, b, 0.0) == a);
        assert!(<$F as Lerp<$F>>::lerp_precise(a, b, 1.0) == b);
        // clamped forms: any factor <= 0 acts as 0, any factor >= 1 acts as 1
        let t: $F = kani::any();
        kani::assume(!t.is_nan());
        if t <= 0.0 { assert!(<$F as Lerp<$F>>::lerp_precise(a, b, t) == a); }
        if t >= 1.0 { assert!(<$F as Lerp<$F>>::lerp_precise(a, b, t) == b); }
        assert!(<$F as Lerp<$F>>::lerp_unclamped_precise_inclusive_range(a..=b, 1.0) == b);
    }};
}
/// K: fns=f32::lerp_unclamped_precise,<&f32>::lerp_unclamped_precise,f32::lerp_precise,f32::lerp_unclamped_precise_inclusive_range
/// K: inst=f32 | bound=all finite (from,to); factor 0, 1, and any non-NaN factor outside (0,1) for the clamped form | stubs=f32::mul_add -> contract (exact where the product is exact, arbitrary elsewhere)
/// K: asserts=precise formula returns `from` exactly at 0 and `to` exactly at 1; clamped form saturates
#[kani::proof]
#[kani::stub(f32::mul_add, crate::fstub::fma32_contract)]
fn c12_q_f32_precise_endpoints() { float_endpoints!(f32) }
/// K: fns=f64::lerp_unclamped_precise,<&f64>::lerp_unclamped_precise | inst=f64 | bound=all finite (from,to); factor 0 and 1 | stubs=f64::mul_add -> contract (exact where one factor is 0 or +-1, arbitrary elsewhere)
/// K: asserts=precise formula returns `from` exactly at 0 and `to` exactly at 1, by value and by reference
#[kani::proof]
#[kani::stub(f64::mul_add, crate::fstub::fma64_contract)]
fn c12_q_f64_precise_endpoints() {
    let (a, b): (f64, f64) = (kani::any(), kani::any());
    kani::assume(a.is_finite() && b.is_finite());
    kani::cover!(a > 1.0e300 && b < -1.0e300, "huge endpoints of opposite sign");
    kani::cover!(a != b && a.abs() < 1.0e-300, "tiny endpoint");
    assert!(<f64 as Lerp<f64>>::lerp_unclamped_precise(a, b, 0.0) == a);
    assert!(<f64 as Lerp<f64>>::lerp_unclamped_precise(a, b, 1.0) == b);
    assert!(<&f64 as Lerp<f64>>::lerp_unclamped_precise(&a, &b, 0.0) == a);
    assert!(<&f64 as Lerp<f64>>::lerp_unclamped_precise(&a, &b, 1.0) == b);
}
/// K: fns=f64::lerp_precise,f64::lerp_unclamped_precise_inclusive_range | inst=f64 | bound=all finite (from,to); any non-NaN factor outside (0,1)
/// K: asserts=clamped precise form returns `from` for every factor <= 0 and `to` for every factor >= 1; range form equals pair form at 1
#[kani::proof]
#[kani::stub(f64::mul_add, crate::fstub::fma64_contract)]
fn c12_t_f64_precise_clamped_endpoints() {
    let (a, b): (f64, f64) = (kani::any(), kani::any());
    kani::assume(a.is_finite() && b.is_finite());
    let t: f64 = kani::any();
    kani::assume(!t.is_nan());
    kani::cover!(t < -1.0e10 && a != b);
    kani::cover!(t > 1.0 && a != b);
    if t <= 0.0 { assert!(<f64 as Lerp<f64>>::lerp_precise(a, b, t) == a); }
    if t >= 1.0 { assert!(<f64 as Lerp<f64>>::lerp_precise(a, b, t) == b); }
    assert!(<f64 as Lerp<f64>>::lerp_unclamped_precise_inclusive_range(a..=b, 1.0) == b);
}

/// Integer lerp of `$T` with factor type `$F` at the ONE concrete factor k/2^sh: all endpoint pairs.
/// (One factor per harness: the float pipelines of different factors are independent, and CBMC
/// decides 25 of them in one formula far slower than 25 formulas.)
macro_rules! int_lerp_at {
    ($T:ty, $F:ty, $sh:expr, $k:expr) => {{
        let (a, b): ($T, $T) = (kani::any(), kani::any());
        kani::cover!(b < a, "to < from");
        kani::cover!(a == <$T>::MIN && b == <$T>::MAX, "full span");
        let den: i32 = 1 << $sh;
        let k: i32 = $k;
        let t = k as $F / den as $F; // exact (dyadic)
        let want = round_half_away(den * (a as i32) + k * ((b as i32) - (a as i32)), $sh);
        if want >= <$T>::MIN as i32 && want <= <$T>::MAX as i32 {
            let want = want as $T;
            assert!(<$T as Lerp<$F>>::lerp_unclamped(a, b, t) == want, "fast formula");
            assert!(<$T as Lerp<$F>>::lerp_unclamped_precise(a, b, t) == want, "precise formula");
            assert!(<&$T as Lerp<$F>>::lerp_unclamped(&a, &b, t) == want, "fast formula by reference");
        }
        // clamped form = unclamped at clamp01(k/den)
        let kc = if k < 0 { 0 } else if k > den { den } else { k };
        let wantc = round_half_away(den * (a as i32) + kc * ((b as i32) - (a as i32)), $sh) as $T;
        assert!(<&$T as Lerp<$F>>::lerp_precise(&a, &b, t) == wantc, "clamped precise form by reference");
    }};
}

// ---- quick (named c12_q_*): u8 x f32 at k/8 for k in {-8,-4,-3,0,2,4,5,8,12,16}; i8 x f32 for k in {-8,-4,-3,0,2,4,8,12,16};
// u8 x f64 for k in {-8,0,4,16}; i8 x f64 for k in {-8,0,4}. Every other k of the k/8 grid in [-8,16] is thorough-only
// (c12_t_*): the thorough tier covers the full grid [-8,16]/8 for f32 and for f64, both u8 and i8. ----
/// K: fns=u8::lerp_unclamped,u8::lerp_unclamped_precise,<&u8>::lerp_unclamped,<&u8>::lerp_precise (Lerp<f32>) | inst=u8, factor f32 = -8/8 | bound=ALL (from,to) pairs, one concrete factor
/// K: asserts=result = round_half_away((8*from + -8*(to-from))/8) whenever that fits u8 (oracle in i32); fast, precise, by-reference; clamped form = value at clamp01(factor); no panic
#[kani::proof]
fn c12_q_u8_lerp_f32_m8of8() { int_lerp_at!(u8, f32, 3, -8) }
/// K: fns=u8::lerp_unclamped,u8::lerp_unclamped_precise,<&u8>::lerp_unclamped,<&u8>::lerp_precise (Lerp<f32>) | inst=u8, factor f32 = -7/8 | bound=ALL (from,to) pairs, one concrete factor
/// K: asserts=result = round_half_away((8*from + -7*(to-from))/8) whenever that fits u8 (oracle in i32); fast, precise, by-reference; clamped form = value at clamp01(factor); no panic
#[kani::proof]
fn c12_t_u8_lerp_f32_m7of8() { int_lerp_at!(u8, f32, 3, -7) }
/// K: fns=u8::lerp_unclamped,u8::lerp_unclamped_precise,<&u8>::lerp_unclamped,<&u8>::lerp_precise (Lerp<f32>) | inst=u8, factor f32 = -6/8 | bound=ALL (from,to) pairs, one concrete factor
/// K: asserts=result = round_half_away((8*from + -6*(to-from))/8) whenever that fits u8 (oracle in i32); fast, precise, by-reference; clamped form = value at clamp01(factor); no panic
#[kani::proof]
fn c12_t_u8_lerp_f32_m6of8() { int_lerp_at!(u8, f32, 3, -6) }
/// K: fns=u8::lerp_unclamped,u8::lerp_unclamped_precise,<&u8>::lerp_unclamped,<&u8>::lerp_precise (Lerp<f32>) | inst=u8, factor f32 = -5/8 | bound=ALL (from,to) pairs, one concrete factor
/// K: asserts=result = round_half_away((8*from + -5*(to-from))/8) whenever that fits u8 (oracle in i32); fast, precise, by-reference; clamped form = value at clamp01(factor); no panic
#[kani::proof]
fn c12_t_u8_lerp_f32_m5of8() { int_lerp_at!(u8, f32, 3, -5) }
/// K: fns=u8::lerp_unclamped,u8::lerp_unclamped_precise,<&u8>::lerp_unclamped,<&u8>::lerp_precise (Lerp<f32>) | inst=u8, factor f32 = -4/8 | bound=ALL (from,to) pairs, one concrete factor
/// K: asserts=result = round_half_away((8*from + -4*(to-from))/8) whenever that fits u8 (oracle in i32); fast, precise, by-reference; clamped form = value at clamp01(factor); no panic
#[kani::proof]
fn c12_q_u8_lerp_f32_m4of8() { int_lerp_at!(u8, f32, 3, -4) }
/// K: fns=u8::lerp_unclamped,u8::lerp_unclamped_precise,<&u8>::lerp_unclamped,<&u8>::lerp_precise (Lerp<f32>) | inst=u8, factor f32 = -3/8 | bound=ALL (from,to) pairs, one concrete factor
/// K: asserts=result = round_half_away((8*from + -3*(to-from))/8) whenever that fits u8 (oracle in i32); fast, precise, by-reference; clamped form = value at clamp01(factor); no panic
#[kani::proof]
fn c12_q_u8_lerp_f32_m3of8() { int_lerp_at!(u8, f32, 3, -3) }
/// K: fns=u8::lerp_unclamped,u8::lerp_unclamped_precise,<&u8>::lerp_unclamped,<&u8>::lerp_precise (Lerp<f32>) | inst=u8, factor f32 = -2/8 | bound=ALL (from,to) pairs, one concrete factor
/// K: asserts=result = round_half_away((8*from + -2*(to-from))/8) whenever that fits u8 (oracle in i32); fast, precise, by-reference; clamped form = value at clamp01(factor); no panic
#[kani::proof]
fn c12_t_u8_lerp_f32_m2of8() { int_lerp_at!(u8, f32, 3, -2) }
/// K: fns=u8::lerp_unclamped,u8::lerp_unclamped_precise,<&u8>::lerp_unclamped,<&u8>::lerp_precise (Lerp<f32>) | inst=u8, factor f32 = -1/8 | bound=ALL (from,to) pairs, one concrete factor
/// K: asserts=result = round_half_away((8*from + -1*(to-from))/8) whenever that fits u8 (oracle in i32); fast, precise, by-reference; clamped form = value at clamp01(factor); no panic
#[kani::proof]
fn c12_t_u8_lerp_f32_m1of8() { int_lerp_at!(u8, f32, 3, -1) }
/// K: fns=u8::lerp_unclamped,u8::lerp_unclamped_precise,<&u8>::lerp_unclamped,<&u8>::lerp_precise (Lerp<f32>) | inst=u8, factor f32 = 0/8 | bound=ALL (from,to) pairs, one concrete factor
/// K: asserts=result = round_half_away((8*from + 0*(to-from))/8) whenever that fits u8 (oracle in i32); fast, precise, by-reference; clamped form = value at clamp01(factor); no panic
#[kani::proof]
fn c12_q_u8_lerp_f32_0of8() { int_lerp_at!(u8, f32, 3, 0) }
/// K: fns=u8::lerp_unclamped,u8::lerp_unclamped_precise,<&u8>::lerp_unclamped,<&u8>::lerp_precise (Lerp<f32>) | inst=u8, factor f32 = 1/8 | bound=ALL (from,to) pairs, one concrete factor
/// K: asserts=result = round_half_away((8*from + 1*(to-from))/8) whenever that fits u8 (oracle in i32); fast, precise, by-reference; clamped form = value at clamp01(factor); no panic
#[kani::proof]
fn c12_t_u8_lerp_f32_1of8() { int_lerp_at!(u8, f32, 3, 1) }
/// K: fns=u8::lerp_unclamped,u8::lerp_unclamped_precise,<&u8>::lerp_unclamped,<&u8>::lerp_precise (Lerp<f32>) | inst=u8, factor f32 = 2/8 | bound=ALL (from,to) pairs, one concrete factor
/// K: asserts=result = round_half_away((8*from + 2*(to-from))/8) whenever that fits u8 (oracle in i32); fast, precise, by-reference; clamped form = value at clamp01(factor); no panic
#[kani::proof]
fn c12_q_u8_lerp_f32_2of8() { int_lerp_at!(u8, f32, 3, 2) }
/// K: fns=u8::lerp_unclamped,u8::lerp_unclamped_precise,<&u8>::lerp_unclamped,<&u8>::lerp_precise (Lerp<f32>) | inst=u8, factor f32 = 3/8 | bound=ALL (from,to) pairs, one concrete factor
/// K: asserts=result = round_half_away((8*from + 3*(to-from))/8) whenever that fits u8 (oracle in i32); fast, precise, by-reference; clamped form = value at clamp01(factor); no panic
#[kani::proof]
fn c12_t_u8_lerp_f32_3of8() { int_lerp_at!(u8, f32, 3, 3) }
/// K: fns=u8::lerp_unclamped,u8::lerp_unclamped_precise,<&u8>::lerp_unclamped,<&u8>::lerp_precise (Lerp<f32>) | inst=u8, factor f32 = 4/8 | bound=ALL (from,to) pairs, one concrete factor
/// K: asserts=result = round_half_away((8*from + 4*(to-from))/8) whenever that fits u8 (oracle in i32); fast, precise, by-reference; clamped form = value at clamp01(factor); no panic
#[kani::proof]
fn c12_q_u8_lerp_f32_4of8() { int_lerp_at!(u8, f32, 3, 4) }
/// K: fns=u8::lerp_unclamped,u8::lerp_unclamped_precise,<&u8>::lerp_unclamped,<&u8>::lerp_precise (Lerp<f32>) | inst=u8, factor f32 = 5/8 | bound=ALL (from,to) pairs, one concrete factor
/// K: asserts=result = round_half_away((8*from + 5*(to-from))/8) whenever that fits u8 (oracle in i32); fast, precise, by-reference; clamped form = value at clamp01(factor); no panic
#[kani::proof]
fn c12_q_u8_lerp_f32_5of8() { int_lerp_at!(u8, f32, 3, 5) }
/// K: fns=u8::lerp_unclamped,u8::lerp_unclamped_precise,<&u8>::lerp_unclamped,<&u8>::lerp_precise (Lerp<f32>) | inst=u8, factor f32 = 6/8 | bound=ALL (from,to) pairs, one concrete factor
/// K: asserts=result = round_half_away((8*from + 6*(to-from))/8) whenever that fits u8 (oracle in i32); fast, precise, by-reference; clamped form = value at clamp01(factor); no panic
#[kani::proof]
fn c12_t_u8_lerp_f32_6of8() { int_lerp_at!(u8, f32, 3, 6) }
/// K: fns=u8::lerp_unclamped,u8::lerp_unclamped_precise,<&u8>::lerp_unclamped,<&u8>::lerp_precise (Lerp<f32>) | inst=u8, factor f32 = 7/8 | bound=ALL (from,to) pairs, one concrete factor
/// K: asserts=result = round_half_away((8*from + 7*(to-from))/8) whenever that fits u8 (oracle in i32); fast, precise, by-reference; clamped form = value at clamp01(factor); no panic
#[kani::proof]
fn c12_t_u8_lerp_f32_7of8() { int_lerp_at!(u8, f32, 3, 7) }
/// K: fns=u8::lerp_unclamped,u8::lerp_unclamped_precise,<&u8>::lerp_unclamped,<&u8>::lerp_precise (Lerp<f32>) | inst=u8, factor f32 = 8/8 | bound=ALL (from,to) pairs, one concrete factor
/// K: asserts=result = round_half_away((8*from + 8*(to-from))/8) whenever that fits u8 (oracle in i32); fast, precise, by-reference; clamped form = value at clamp01(factor); no panic
#[kani::proof]
fn c12_q_u8_lerp_f32_8of8() { int_lerp_at!(u8, f32, 3, 8) }
/// K: fns=u8::lerp_unclamped,u8::lerp_unclamped_precise,<&u8>::lerp_unclamped,<&u8>::lerp_precise (Lerp<f32>) | inst=u8, factor f32 = 9/8 | bound=ALL (from,to) pairs, one concrete factor
/// K: asserts=result = round_half_away((8*from + 9*(to-from))/8) whenever that fits u8 (oracle in i32); fast, precise, by-reference; clamped form = value at clamp01(factor); no panic
#[kani::proof]
fn c12_t_u8_lerp_f32_9of8() { int_lerp_at!(u8, f32, 3, 9) }
/// K: fns=u8::lerp_unclamped,u8::lerp_unclamped_precise,<&u8>::lerp_unclamped,<&u8>::lerp_precise (Lerp<f32>) | inst=u8, factor f32 = 10/8 | bound=ALL (from,to) pairs, one concrete factor
/// K: asserts=result = round_half_away((8*from + 10*(to-from))/8) whenever that fits u8 (oracle in i32); fast, precise, by-reference; clamped form = value at clamp01(factor); no panic
#[kani::proof]
fn c12_t_u8_lerp_f32_10of8() { int_lerp_at!(u8, f32, 3, 10) }
/// K: fns=u8::lerp_unclamped,u8::lerp_unclamped_precise,<&u8>::lerp_unclamped,<&u8>::lerp_precise (Lerp<f32>) | inst=u8, factor f32 = 11/8 | bound=ALL (from,to) pairs, one concrete factor
/// K: asserts=result = round_half_away((8*from + 11*(to-from))/8) whenever that fits u8 (oracle in i32); fast, precise, by-reference; clamped form = value at clamp01(factor); no panic
#[kani::proof]
fn c12_t_u8_lerp_f32_11of8() { int_lerp_at!(u8, f32, 3, 11) }
/// K: fns=u8::lerp_unclamped,u8::lerp_unclamped_precise,<&u8>::lerp_unclamped,<&u8>::lerp_precise (Lerp<f32>) | inst=u8, factor f32 = 12/8 | bound=ALL (from,to) pairs, one concrete factor
/// K: asserts=result = round_half_away((8*from + 12*(to-from))/8) whenever that fits u8 (oracle in i32); fast, precise, by-reference; clamped form = value at clamp01(factor); no panic
#[kani::proof]
fn c12_q_u8_lerp_f32_12of8() { int_lerp_at!(u8, f32, 3, 12) }
/// K: fns=u8::lerp_unclamped,u8::lerp_unclamped_precise,<&u8>::lerp_unclamped,<&u8>::lerp_precise (Lerp<f32>) | inst=u8, factor f32 = 13/8 | bound=ALL (from,to) pairs, one concrete factor
/// K: asserts=result = round_half_away((8*from + 13*(to-from))/8) whenever that fits u8 (oracle in i32); fast, precise, by-reference; clamped form = value at clamp01(factor); no panic
#[kani::proof]
fn c12_t_u8_lerp_f32_13of8() { int_lerp_at!(u8, f32, 3, 13) }
/// K: fns=u8::lerp_unclamped,u8::lerp_unclamped_precise,<&u8>::lerp_unclamped,<&u8>::lerp_precise (Lerp<f32>) | inst=u8, factor f32 = 14/8 | bound=ALL (from,to) pairs, one concrete factor
/// K: asserts=result = round_half_away((8*from + 14*(to-from))/8) whenever that fits u8 (oracle in i32); fast, precise, by-reference; clamped form = value at clamp01(factor); no panic
#[kani::proof]
fn c12_t_u8_lerp_f32_14of8() { int_lerp_at!(u8, f32, 3, 14) }
/// K: fns=u8::lerp_unclamped,u8::lerp_unclamped_precise,<&u8>::lerp_unclamped,<&u8>::lerp_precise (Lerp<f32>) | inst=u8, factor f32 = 15/8 | bound=ALL (from,to) pairs, one concrete factor
/// K: asserts=result = round_half_away((8*from + 15*(to-from))/8) whenever that fits u8 (oracle in i32); fast, precise, by-reference; clamped form = value at clamp01(factor); no panic
#[kani::proof]
fn c12_t_u8_lerp_f32_15of8() { int_lerp_at!(u8, f32, 3, 15) }
/// K: fns=u8::lerp_unclamped,u8::lerp_unclamped_precise,<&u8>::lerp_unclamped,<&u8>::lerp_precise (Lerp<f32>) | inst=u8, factor f32 = 16/8 | bound=ALL (from,to) pairs, one concrete factor
/// K: asserts=result = round_half_away((8*from + 16*(to-from))/8) whenever that fits u8 (oracle in i32); fast, precise, by-reference; clamped form = value at clamp01(factor); no panic
#[kani::proof]
fn c12_q_u8_lerp_f32_16of8() { int_lerp_at!(u8, f32, 3, 16) }
/// K: fns=i8::lerp_unclamped,i8::lerp_unclamped_precise,<&i8>::lerp_unclamped,<&i8>::lerp_precise (Lerp<f32>) | inst=i8, factor f32 = -8/8 | bound=ALL (from,to) pairs, one concrete factor
/// K: asserts=result = round_half_away((8*from + -8*(to-from))/8) whenever that fits i8 (oracle in i32); fast, precise, by-reference; clamped form = value at clamp01(factor); no panic
#[kani::proof]
fn c12_q_i8_lerp_f32_m8of8() { int_lerp_at!(i8, f32, 3, -8) }
/// K: fns=i8::lerp_unclamped,i8::lerp_unclamped_precise,<&i8>::lerp_unclamped,<&i8>::lerp_precise (Lerp<f32>) | inst=i8, factor f32 = -7/8 | bound=ALL (from,to) pairs, one concrete factor
/// K: asserts=result = round_half_away((8*from + -7*(to-from))/8) whenever that fits i8 (oracle in i32); fast, precise, by-reference; clamped form = value at clamp01(factor); no panic
#[kani::proof]
fn c12_t_i8_lerp_f32_m7of8() { int_lerp_at!(i8, f32, 3, -7) }
/// K: fns=i8::lerp_unclamped,i8::lerp_unclamped_precise,<&i8>::lerp_unclamped,<&i8>::lerp_precise (Lerp<f32>) | inst=i8, factor f32 = -6/8 | bound=ALL (from,to) pairs, one concrete factor
/// K: asserts=result = round_half_away((8*from + -6*(to-from))/8) whenever that fits i8 (oracle in i32); fast, precise, by-reference; clamped form = value at clamp01(factor); no panic
#[kani::proof]
fn c12_t_i8_lerp_f32_m6of8() { int_lerp_at!(i8, f32, 3, -6) }
/// K: fns=i8::lerp_unclamped,i8::lerp_unclamped_precise,<&i8>::lerp_unclamped,<&i8>::lerp_precise (Lerp<f32>) | inst=i8, factor f32 = -5/8 | bound=ALL (from,to) pairs, one concrete factor
/// K: asserts=result = round_half_away((8*from + -5*(to-from))/8) whenever that fits i8 (oracle in i32); fast, precise, by-reference; clamped form = value at clamp01(factor); no panic
#[kani::proof]
fn c12_t_i8_lerp_f32_m5of8() { int_lerp_at!(i8, f32, 3, -5) }
/// K: fns=i8::lerp_unclamped,i8::lerp_unclamped_precise,<&i8>::lerp_unclamped,<&i8>::lerp_precise (Lerp<f32>) | inst=i8, factor f32 = -4/8 | bound=ALL (from,to) pairs, one concrete factor
/// K: asserts=result = round_half_away((8*from + -4*(to-from))/8) whenever that fits i8 (oracle in i32); fast, precise, by-reference; clamped form = value at clamp01(factor); no panic
#[kani::proof]
fn c12_q_i8_lerp_f32_m4of8() { int_lerp_at!(i8, f32, 3, -4) }
/// K: fns=i8::lerp_unclamped,i8::lerp_unclamped_precise,<&i8>::lerp_unclamped,<&i8>::lerp_precise (Lerp<f32>) | inst=i8, factor f32 = -3/8 | bound=ALL (from,to) pairs, one concrete factor
/// K: asserts=result = round_half_away((8*from + -3*(to-from))/8) whenever that fits i8 (oracle in i32); fast, precise, by-reference; clamped form = value at clamp01(factor); no panic
#[kani::proof]
fn c12_q_i8_lerp_f32_m3of8() { int_lerp_at!(i8, f32, 3, -3) }
/// K: fns=i8::lerp_unclamped,i8::lerp_unclamped_precise,<&i8>::lerp_unclamped,<&i8>::lerp_precise (Lerp<f32>) | inst=i8, factor f32 = -2/8 | bound=ALL (from,to) pairs, one concrete factor
/// K: asserts=result = round_half_away((8*from + -2*(to-from))/8) whenever that fits i8 (oracle in i32); fast, precise, by-reference; clamped form = value at clamp01(factor); no panic
#[kani::proof]
fn c12_t_i8_lerp_f32_m2of8() { int_lerp_at!(i8, f32, 3, -2) }
/// K: fns=i8::lerp_unclamped,i8::lerp_unclamped_precise,<&i8>::lerp_unclamped,<&i8>::lerp_precise (Lerp<f32>) | inst=i8, factor f32 = -1/8 | bound=ALL (from,to) pairs, one concrete factor
/// K: asserts=result = round_half_away((8*from + -1*(to-from))/8) whenever that fits i8 (oracle in i32); fast, precise, by-reference; clamped form = value at clamp01(factor); no panic
#[kani::proof]
fn c12_t_i8_lerp_f32_m1of8() { int_lerp_at!(i8, f32, 3, -1) }
/// K: fns=i8::lerp_unclamped,i8::lerp_unclamped_precise,<&i8>::lerp_unclamped,<&i8>::lerp_precise (Lerp<f32>) | inst=i8, factor f32 = 0/8 | bound=ALL (from,to) pairs, one concrete factor
/// K: asserts=result = round_half_away((8*from + 0*(to-from))/8) whenever that fits i8 (oracle in i32); fast, precise, by-reference; clamped form = value at clamp01(factor); no panic
#[kani::proof]
fn c12_q_i8_lerp_f32_0of8() { int_lerp_at!(i8, f32, 3, 0) }
/// K: fns=i8::lerp_unclamped,i8::lerp_unclamped_precise,<&i8>::lerp_unclamped,<&i8>::lerp_precise (Lerp<f32>) | inst=i8, factor f32 = 1/8 | bound=ALL (from,to) pairs, one concrete factor
/// K: asserts=result = round_half_away((8*from + 1*(to-from))/8) whenever that fits i8 (oracle in i32); fast, precise, by-reference; clamped form = value at clamp01(factor); no panic
#[kani::proof]
fn c12_t_i8_lerp_f32_1of8() { int_lerp_at!(i8, f32, 3, 1) }
/// K: fns=i8::lerp_unclamped,i8::lerp_unclamped_precise,<&i8>::lerp_unclamped,<&i8>::lerp_precise (Lerp<f32>) | inst=i8, factor f32 = 2/8 | bound=ALL (from,to) pairs, one concrete factor
/// K: asserts=result = round_half_away((8*from + 2*(to-from))/8) whenever that fits i8 (oracle in i32); fast, precise, by-reference; clamped form = value at clamp01(factor); no panic
#[kani::proof]
fn c12_q_i8_lerp_f32_2of8() { int_lerp_at!(i8, f32, 3, 2) }
/// K: fns=i8::lerp_unclamped,i8::lerp_unclamped_precise,<&i8>::lerp_unclamped,<&i8>::lerp_precise (Lerp<f32>) | inst=i8, factor f32 = 3/8 | bound=ALL (from,to) pairs, one concrete factor
/// K: asserts=result = round_half_away((8*from + 3*(to-from))/8) whenever that fits i8 (oracle in i32); fast, precise, by-reference; clamped form = value at clamp01(factor); no panic
#[kani::proof]
fn c12_t_i8_lerp_f32_3of8() { int_lerp_at!(i8, f32, 3, 3) }
/// K: fns=i8::lerp_unclamped,i8::lerp_unclamped_precise,<&i8>::lerp_unclamped,<&i8>::lerp_precise (Lerp<f32>) | inst=i8, factor f32 = 4/8 | bound=ALL (from,to) pairs, one concrete factor
/// K: asserts=result = round_half_away((8*from + 4*(to-from))/8) whenever that fits i8 (oracle in i32); fast, precise, by-reference; clamped form = value at clamp01(factor); no panic
#[kani::proof]
fn c12_q_i8_lerp_f32_4of8() { int_lerp_at!(i8, f32, 3, 4) }
/// K: fns=i8::lerp_unclamped,i8::lerp_unclamped_precise,<&i8>::lerp_unclamped,<&i8>::lerp_precise (Lerp<f32>) | inst=i8, factor f32 = 5/8 | bound=ALL (from,to) pairs, one concrete factor
/// K: asserts=result = round_half_away((8*from + 5*(to-from))/8) whenever that fits i8 (oracle in i32); fast, precise, by-reference; clamped form = value at clamp01(factor); no panic
#[kani::proof]
fn c12_t_i8_lerp_f32_5of8() { int_lerp_at!(i8, f32, 3, 5) }
/// K: fns=i8::lerp_unclamped,i8::lerp_unclamped_precise,<&i8>::lerp_unclamped,<&i8>::lerp_precise (Lerp<f32>) | inst=i8, factor f32 = 6/8 | bound=ALL (from,to) pairs, one concrete factor
/// K: asserts=result = round_half_away((8*from + 6*(to-from))/8) whenever that fits i8 (oracle in i32); fast, precise, by-reference; clamped form = value at clamp01(factor); no panic
#[kani::proof]
fn c12_t_i8_lerp_f32_6of8() { int_lerp_at!(i8, f32, 3, 6) }
/// K: fns=i8::lerp_unclamped,i8::lerp_unclamped_precise,<&i8>::lerp_unclamped,<&i8>::lerp_precise (Lerp<f32>) | inst=i8, factor f32 = 7/8 | bound=ALL (from,to) pairs, one concrete factor
/// K: asserts=result = round_half_away((8*from + 7*(to-from))/8) whenever that fits i8 (oracle in i32); fast, precise, by-reference; clamped form = value at clamp01(factor); no panic
#[kani::proof]
fn c12_t_i8_lerp_f32_7of8() { int_lerp_at!(i8, f32, 3, 7) }
/// K: fns=i8::lerp_unclamped,i8::lerp_unclamped_precise,<&i8>::lerp_unclamped,<&i8>::lerp_precise (Lerp<f32>) | inst=i8, factor f32 = 8/8 | bound=ALL (from,to) pairs, one concrete factor
/// K: asserts=result = round_half_away((8*from + 8*(to-from))/8) whenever that fits i8 (oracle in i32); fast, precise, by-reference; clamped form = value at clamp01(factor); no panic
#[kani::proof]
fn c12_q_i8_lerp_f32_8of8() { int_lerp_at!(i8, f32, 3, 8) }
/// K: fns=i8::lerp_unclamped,i8::lerp_unclamped_precise,<&i8>::lerp_unclamped,<&i8>::lerp_precise (Lerp<f32>) | inst=i8, factor f32 = 9/8 | bound=ALL (from,to) pairs, one concrete factor
/// K: asserts=result = round_half_away((8*from + 9*(to-from))/8) whenever that fits i8 (oracle in i32); fast, precise, by-reference; clamped form = value at clamp01(factor); no panic
#[kani::proof]
fn c12_t_i8_lerp_f32_9of8() { int_lerp_at!(i8, f32, 3, 9) }
/// K: fns=i8::lerp_unclamped,i8::lerp_unclamped_precise,<&i8>::lerp_unclamped,<&i8>::lerp_precise (Lerp<f32>) | inst=i8, factor f32 = 10/8 | bound=ALL (from,to) pairs, one concrete factor
/// K: asserts=result = round_half_away((8*from + 10*(to-from))/8) whenever that fits i8 (oracle in i32); fast, precise, by-reference; clamped form = value at clamp01(factor); no panic
#[kani::proof]
fn c12_t_i8_lerp_f32_10of8() { int_lerp_at!(i8, f32, 3, 10) }
/// K: fns=i8::lerp_unclamped,i8::lerp_unclamped_precise,<&i8>::lerp_unclamped,<&i8>::lerp_precise (Lerp<f32>) | inst=i8, factor f32 = 11/8 | bound=ALL (from,to) pairs, one concrete factor
/// K: asserts=result = round_half_away((8*from + 11*(to-from))/8) whenever that fits i8 (oracle in i32); fast, precise, by-reference; clamped form = value at clamp01(factor); no panic
#[kani::proof]
fn c12_t_i8_lerp_f32_11of8() { int_lerp_at!(i8, f32, 3, 11) }
/// K: fns=i8::lerp_unclamped,i8::lerp_unclamped_precise,<&i8>::lerp_unclamped,<&i8>::lerp_precise (Lerp<f32>) | inst=i8, factor f32 = 12/8 | bound=ALL (from,to) pairs, one concrete factor
/// K: asserts=result = round_half_away((8*from + 12*(to-from))/8) whenever that fits i8 (oracle in i32); fast, precise, by-reference; clamped form = value at clamp01(factor); no panic
#[kani::proof]
fn c12_q_i8_lerp_f32_12of8() { int_lerp_at!(i8, f32, 3, 12) }
/// K: fns=i8::lerp_unclamped,i8::lerp_unclamped_precise,<&i8>::lerp_unclamped,<&i8>::lerp_precise (Lerp<f32>) | inst=i8, factor f32 = 13/8 | bound=ALL (from,to) pairs, one concrete factor
/// K: asserts=result = round_half_away((8*from + 13*(to-from))/8) whenever that fits i8 (oracle in i32); fast, precise, by-reference; clamped form = value at clamp01(factor); no panic
#[kani::proof]
fn c12_t_i8_lerp_f32_13of8() { int_lerp_at!(i8, f32, 3, 13) }
/// K: fns=i8::lerp_unclamped,i8::lerp_unclamped_precise,<&i8>::lerp_unclamped,<&i8>::lerp_precise (Lerp<f32>) | inst=i8, factor f32 = 14/8 | bound=ALL (from,to) pairs, one concrete factor
/// K: asserts=result = round_half_away((8*from + 14*(to-from))/8) whenever that fits i8 (oracle in i32); fast, precise, by-reference; clamped form = value at clamp01(factor); no panic
#[kani::proof]
fn c12_t_i8_lerp_f32_14of8() { int_lerp_at!(i8, f32, 3, 14) }
/// K: fns=i8::lerp_unclamped,i8::lerp_unclamped_precise,<&i8>::lerp_unclamped,<&i8>::lerp_precise (Lerp<f32>) | inst=i8, factor f32 = 15/8 | bound=ALL (from,to) pairs, one concrete factor
/// K: asserts=result = round_half_away((8*from + 15*(to-from))/8) whenever that fits i8 (oracle in i32); fast, precise, by-reference; clamped form = value at clamp01(factor); no panic
#[kani::proof]
fn c12_t_i8_lerp_f32_15of8() { int_lerp_at!(i8, f32, 3, 15) }
/// K: fns=i8::lerp_unclamped,i8::lerp_unclamped_precise,<&i8>::lerp_unclamped,<&i8>::lerp_precise (Lerp<f32>) | inst=i8, factor f32 = 16/8 | bound=ALL (from,to) pairs, one concrete factor
/// K: asserts=result = round_half_away((8*from + 16*(to-from))/8) whenever that fits i8 (oracle in i32); fast, precise, by-reference; clamped form = value at clamp01(factor); no panic
#[kani::proof]
fn c12_q_i8_lerp_f32_16of8() { int_lerp_at!(i8, f32, 3, 16) }
/// K: fns=u8::lerp_unclamped,u8::lerp_unclamped_precise,<&u8>::lerp_unclamped,<&u8>::lerp_precise (Lerp<f64>) | inst=u8, factor f64 = -8/8 | bound=ALL (from,to) pairs, one concrete factor
/// K: asserts=result = round_half_away((8*from + -8*(to-from))/8) whenever that fits u8 (oracle in i32); fast, precise, by-reference; clamped form = value at clamp01(factor); no panic
#[kani::proof]
fn c12_q_u8_lerp_f64_m8of8() { int_lerp_at!(u8, f64, 3, -8) }
/// K: fns=u8::lerp_unclamped,u8::lerp_unclamped_precise,<&u8>::lerp_unclamped,<&u8>::lerp_precise (Lerp<f64>) | inst=u8, factor f64 = -6/8 | bound=ALL (from,to) pairs, one concrete factor
/// K: asserts=result = round_half_away((8*from + -6*(to-from))/8) whenever that fits u8 (oracle in i32); fast, precise, by-reference; clamped form = value at clamp01(factor); no panic
#[kani::proof]
fn c12_t_u8_lerp_f64_m6of8() { int_lerp_at!(u8, f64, 3, -6) }
/// K: fns=u8::lerp_unclamped,u8::lerp_unclamped_precise,<&u8>::lerp_unclamped,<&u8>::lerp_precise (Lerp<f64>) | inst=u8, factor f64 = -4/8 | bound=ALL (from,to) pairs, one concrete factor
/// K: asserts=result = round_half_away((8*from + -4*(to-from))/8) whenever that fits u8 (oracle in i32); fast, precise, by-reference; clamped form = value at clamp01(factor); no panic
#[kani::proof]
fn c12_t_u8_lerp_f64_m4of8() { int_lerp_at!(u8, f64, 3, -4) }
/// K: fns=u8::lerp_unclamped,u8::lerp_unclamped_precise,<&u8>::lerp_unclamped,<&u8>::lerp_precise (Lerp<f64>) | inst=u8, factor f64 = -2/8 | bound=ALL (from,to) pairs, one concrete factor
/// K: asserts=result = round_half_away((8*from + -2*(to-from))/8) whenever that fits u8 (oracle in i32); fast, precise, by-reference; clamped form = value at clamp01(factor); no panic
#[kani::proof]
fn c12_t_u8_lerp_f64_m2of8() { int_lerp_at!(u8, f64, 3, -2) }
/// K: fns=u8::lerp_unclamped,u8::lerp_unclamped_precise,<&u8>::lerp_unclamped,<&u8>::lerp_precise (Lerp<f64>) | inst=u8, factor f64 = 0/8 | bound=ALL (from,to) pairs, one concrete factor
/// K: asserts=result = round_half_away((8*from + 0*(to-from))/8) whenever that fits u8 (oracle in i32); fast, precise, by-reference; clamped form = value at clamp01(factor); no panic
#[kani::proof]
fn c12_q_u8_lerp_f64_0of8() { int_lerp_at!(u8, f64, 3, 0) }
/// K: fns=u8::lerp_unclamped,u8::lerp_unclamped_precise,<&u8>::lerp_unclamped,<&u8>::lerp_precise (Lerp<f64>) | inst=u8, factor f64 = 2/8 | bound=ALL (from,to) pairs, one concrete factor
/// K: asserts=result = round_half_away((8*from + 2*(to-from))/8) whenever that fits u8 (oracle in i32); fast, precise, by-reference; clamped form = value at clamp01(factor); no panic
#[kani::proof]
fn c12_t_u8_lerp_f64_2of8() { int_lerp_at!(u8, f64, 3, 2) }
/// K: fns=u8::lerp_unclamped,u8::lerp_unclamped_precise,<&u8>::lerp_unclamped,<&u8>::lerp_precise (Lerp<f64>) | inst=u8, factor f64 = 4/8 | bound=ALL (from,to) pairs, one concrete factor
/// K: asserts=result = round_half_away((8*from + 4*(to-from))/8) whenever that fits u8 (oracle in i32); fast, precise, by-reference; clamped form = value at clamp01(factor); no panic
#[kani::proof]
fn c12_q_u8_lerp_f64_4of8() { int_lerp_at!(u8, f64, 3, 4) }
/// K: fns=u8::lerp_unclamped,u8::lerp_unclamped_precise,<&u8>::lerp_unclamped,<&u8>::lerp_precise (Lerp<f64>) | inst=u8, factor f64 = 6/8 | bound=ALL (from,to) pairs, one concrete factor
/// K: asserts=result = round_half_away((8*from + 6*(to-from))/8) whenever that fits u8 (oracle in i32); fast, precise, by-reference; clamped form = value at clamp01(factor); no panic
#[kani::proof]
fn c12_t_u8_lerp_f64_6of8() { int_lerp_at!(u8, f64, 3, 6) }
/// K: fns=u8::lerp_unclamped,u8::lerp_unclamped_precise,<&u8>::lerp_unclamped,<&u8>::lerp_precise (Lerp<f64>) | inst=u8, factor f64 = 8/8 | bound=ALL (from,to) pairs, one concrete factor
/// K: asserts=result = round_half_away((8*from + 8*(to-from))/8) whenever that fits u8 (oracle in i32); fast, precise, by-reference; clamped form = value at clamp01(factor); no panic
#[kani::proof]
fn c12_t_u8_lerp_f64_8of8() { int_lerp_at!(u8, f64, 3, 8) }
/// K: fns=u8::lerp_unclamped,u8::lerp_unclamped_precise,<&u8>::lerp_unclamped,<&u8>::lerp_precise (Lerp<f64>) | inst=u8, factor f64 = 10/8 | bound=ALL (from,to) pairs, one concrete factor
/// K: asserts=result = round_half_away((8*from + 10*(to-from))/8) whenever that fits u8 (oracle in i32); fast, precise, by-reference; clamped form = value at clamp01(factor); no panic
#[kani::proof]
fn c12_t_u8_lerp_f64_10of8() { int_lerp_at!(u8, f64, 3, 10) }
/// K: fns=u8::lerp_unclamped,u8::lerp_unclamped_precise,<&u8>::lerp_unclamped,<&u8>::lerp_precise (Lerp<f64>) | inst=u8, factor f64 = 12/8 | bound=ALL (from,to) pairs, one concrete factor
/// K: asserts=result = round_half_away((8*from + 12*(to-from))/8) whenever that fits u8 (oracle in i32); fast, precise, by-reference; clamped form = value at clamp01(factor); no panic
#[kani::proof]
fn c12_t_u8_lerp_f64_12of8() { int_lerp_at!(u8, f64, 3, 12) }
/// K: fns=u8::lerp_unclamped,u8::lerp_unclamped_precise,<&u8>::lerp_unclamped,<&u8>::lerp_precise (Lerp<f64>) | inst=u8, factor f64 = 14/8 | bound=ALL (from,to) pairs, one concrete factor
/// K: asserts=result = round_half_away((8*from + 14*(to-from))/8) whenever that fits u8 (oracle in i32); fast, precise, by-reference; clamped form = value at clamp01(factor); no panic
#[kani::proof]
fn c12_t_u8_lerp_f64_14of8() { int_lerp_at!(u8, f64, 3, 14) }
/// K: fns=u8::lerp_unclamped,u8::lerp_unclamped_precise,<&u8>::lerp_unclamped,<&u8>::lerp_precise (Lerp<f64>) | inst=u8, factor f64 = 16/8 | bound=ALL (from,to) pairs, one concrete factor
/// K: asserts=result = round_half_away((8*from + 16*(to-from))/8) whenever that fits u8 (oracle in i32); fast, precise, by-reference; clamped form = value at clamp01(factor); no panic
#[kani::proof]
fn c12_q_u8_lerp_f64_16of8() { int_lerp_at!(u8, f64, 3, 16) }
/// K: fns=i8::lerp_unclamped,i8::lerp_unclamped_precise,<&i8>::lerp_unclamped,<&i8>::lerp_precise (Lerp<f64>) | inst=i8, factor f64 = -8/8 | bound=ALL (from,to) pairs, one concrete factor
/// K: asserts=result = round_half_away((8*from + -8*(to-from))/8) whenever that fits i8 (oracle in i32); fast, precise, by-reference; clamped form = value at clamp01(factor); no panic
#[kani::proof]
fn c12_q_i8_lerp_f64_m8of8() { int_lerp_at!(i8, f64, 3, -8) }
/// K: fns=i8::lerp_unclamped,i8::lerp_unclamped_precise,<&i8>::lerp_unclamped,<&i8>::lerp_precise (Lerp<f64>) | inst=i8, factor f64 = -6/8 | bound=ALL (from,to) pairs, one concrete factor
/// K: asserts=result = round_half_away((8*from + -6*(to-from))/8) whenever that fits i8 (oracle in i32); fast, precise, by-reference; clamped form = value at clamp01(factor); no panic
#[kani::proof]
fn c12_t_i8_lerp_f64_m6of8() { int_lerp_at!(i8, f64, 3, -6) }
/// K: fns=i8::lerp_unclamped,i8::lerp_unclamped_precise,<&i8>::lerp_unclamped,<&i8>::lerp_precise (Lerp<f64>) | inst=i8, factor f64 = -4/8 | bound=ALL (from,to) pairs, one concrete factor
/// K: asserts=result = round_half_away((8*from + -4*(to-from))/8) whenever that fits i8 (oracle in i32); fast, precise, by-reference; clamped form = value at clamp01(factor); no panic
#[kani::proof]
fn c12_t_i8_lerp_f64_m4of8() { int_lerp_at!(i8, f64, 3, -4) }
/// K: fns=i8::lerp_unclamped,i8::lerp_unclamped_precise,<&i8>::lerp_unclamped,<&i8>::lerp_precise (Lerp<f64>) | inst=i8, factor f64 = -2/8 | bound=ALL (from,to) pairs, one concrete factor
/// K: asserts=result = round_half_away((8*from + -2*(to-from))/8) whenever that fits i8 (oracle in i32); fast, precise, by-reference; clamped form = value at clamp01(factor); no panic
#[kani::proof]
fn c12_t_i8_lerp_f64_m2of8() { int_lerp_at!(i8, f64, 3, -2) }
/// K: fns=i8::lerp_unclamped,i8::lerp_unclamped_precise,<&i8>::lerp_unclamped,<&i8>::lerp_precise (Lerp<f64>) | inst=i8, factor f64 = 0/8 | bound=ALL (from,to) pairs, one concrete factor
/// K: asserts=result = round_half_away((8*from + 0*(to-from))/8) whenever that fits i8 (oracle in i32); fast, precise, by-reference; clamped form = value at clamp01(factor); no panic
#[kani::proof]
fn c12_q_i8_lerp_f64_0of8() { int_lerp_at!(i8, f64, 3, 0) }
/// K: fns=i8::lerp_unclamped,i8::lerp_unclamped_precise,<&i8>::lerp_unclamped,<&i8>::lerp_precise (Lerp<f64>) | inst=i8, factor f64 = 2/8 | bound=ALL (from,to) pairs, one concrete factor
/// K: asserts=result = round_half_away((8*from + 2*(to-from))/8) whenever that fits i8 (oracle in i32); fast, precise, by-reference; clamped form = value at clamp01(factor); no panic
#[kani::proof]
fn c12_t_i8_lerp_f64_2of8() { int_lerp_at!(i8, f64, 3, 2) }
/// K: fns=i8::lerp_unclamped,i8::lerp_unclamped_precise,<&i8>::lerp_unclamped,<&i8>::lerp_precise (Lerp<f64>) | inst=i8, factor f64 = 4/8 | bound=ALL (from,to) pairs, one concrete factor
/// K: asserts=result = round_half_away((8*from + 4*(to-from))/8) whenever that fits i8 (oracle in i32); fast, precise, by-reference; clamped form = value at clamp01(factor); no panic
#[kani::proof]
fn c12_q_i8_lerp_f64_4of8() { int_lerp_at!(i8, f64, 3, 4) }
/// K: fns=i8::lerp_unclamped,i8::lerp_unclamped_precise,<&i8>::lerp_unclamped,<&i8>::lerp_precise (Lerp<f64>) | inst=i8, factor f64 = 6/8 | bound=ALL (from,to) pairs, one concrete factor
/// K: asserts=result = round_half_away((8*from + 6*(to-from))/8) whenever that fits i8 (oracle in i32); fast, precise, by-reference; clamped form = value at clamp01(factor); no panic
#[kani::proof]
fn c12_t_i8_lerp_f64_6of8() { int_lerp_at!(i8, f64, 3, 6) }
/// K: fns=i8::lerp_unclamped,i8::lerp_unclamped_precise,<&i8>::lerp_unclamped,<&i8>::lerp_precise (Lerp<f64>) | inst=i8, factor f64 = 8/8 | bound=ALL (from,to) pairs, one concrete factor
/// K: asserts=result = round_half_away((8*from + 8*(to-from))/8) whenever that fits i8 (oracle in i32); fast, precise, by-reference; clamped form = value at clamp01(factor); no panic
#[kani::proof]
fn c12_t_i8_lerp_f64_8of8() { int_lerp_at!(i8, f64, 3, 8) }
/// K: fns=i8::lerp_unclamped,i8::lerp_unclamped_precise,<&i8>::lerp_unclamped,<&i8>::lerp_precise (Lerp<f64>) | inst=i8, factor f64 = 10/8 | bound=ALL (from,to) pairs, one concrete factor
/// K: asserts=result = round_half_away((8*from + 10*(to-from))/8) whenever that fits i8 (oracle in i32); fast, precise, by-reference; clamped form = value at clamp01(factor); no panic
#[kani::proof]
fn c12_t_i8_lerp_f64_10of8() { int_lerp_at!(i8, f64, 3, 10) }
/// K: fns=i8::lerp_unclamped,i8::lerp_unclamped_precise,<&i8>::lerp_unclamped,<&i8>::lerp_precise (Lerp<f64>) | inst=i8, factor f64 = 12/8 | bound=ALL (from,to) pairs, one concrete factor
/// K: asserts=result = round_half_away((8*from + 12*(to-from))/8) whenever that fits i8 (oracle in i32); fast, precise, by-reference; clamped form = value at clamp01(factor); no panic
#[kani::proof]
fn c12_t_i8_lerp_f64_12of8() { int_lerp_at!(i8, f64, 3, 12) }
/// K: fns=i8::lerp_unclamped,i8::lerp_unclamped_precise,<&i8>::lerp_unclamped,<&i8>::lerp_precise (Lerp<f64>) | inst=i8, factor f64 = 14/8 | bound=ALL (from,to) pairs, one concrete factor
/// K: asserts=result = round_half_away((8*from + 14*(to-from))/8) whenever that fits i8 (oracle in i32); fast, precise, by-reference; clamped form = value at clamp01(factor); no panic
#[kani::proof]
fn c12_t_i8_lerp_f64_14of8() { int_lerp_at!(i8, f64, 3, 14) }
/// K: fns=i8::lerp_unclamped,i8::lerp_unclamped_precise,<&i8>::lerp_unclamped,<&i8>::lerp_precise (Lerp<f64>) | inst=i8, factor f64 = 16/8 | bound=ALL (from,to) pairs, one concrete factor
/// K: asserts=result = round_half_away((8*from + 16*(to-from))/8) whenever that fits i8 (oracle in i32); fast, precise, by-reference; clamped form = value at clamp01(factor); no panic
#[kani::proof]
fn c12_t_i8_lerp_f64_16of8() { int_lerp_at!(i8, f64, 3, 16) }

// ---- thorough: the odd k/8 with f64; the odd k/16 in [-16,32] with f32 (u8); 16-bit: k/8 for k in {-8,0,4,8,16}
// (decided in 2-660 s) and ONE odd numerator (u16, 5/8) kept as the honest attempt: -3/8, 5/8, 13/8 hit the 900 s cap ----
/// K: fns=u8::lerp_unclamped,u8::lerp_unclamped_precise,<&u8>::lerp_unclamped,<&u8>::lerp_precise (Lerp<f64>) | inst=u8, factor f64 = -7/8 | bound=ALL (from,to) pairs, one concrete factor
/// K: asserts=result = round_half_away((8*from + -7*(to-from))/8) whenever that fits u8 (oracle in i32); fast, precise, by-reference; clamped form = value at clamp01(factor); no panic | cap=900
#[kani::proof]
fn c12_t_u8_lerp_f64_m7of8() { int_lerp_at!(u8, f64, 3, -7) }
/// K: fns=u8::lerp_unclamped,u8::lerp_unclamped_precise,<&u8>::lerp_unclamped,<&u8>::lerp_precise (Lerp<f64>) | inst=u8, factor f64 = -5/8 | bound=ALL (from,to) pairs, one concrete factor
/// K: asserts=result = round_half_away((8*from + -5*(to-from))/8) whenever that fits u8 (oracle in i32); fast, precise, by-reference; clamped form = value at clamp01(factor); no panic | cap=900
#[kani::proof]
fn c12_t_u8_lerp_f64_m5of8() { int_lerp_at!(u8, f64, 3, -5) }
/// K: fns=u8::lerp_unclamped,u8::lerp_unclamped_precise,<&u8>::lerp_unclamped,<&u8>::lerp_precise (Lerp<f64>) | inst=u8, factor f64 = -3/8 | bound=ALL (from,to) pairs, one concrete factor
/// K: asserts=result = round_half_away((8*from + -3*(to-from))/8) whenever that fits u8 (oracle in i32); fast, precise, by-reference; clamped form = value at clamp01(factor); no panic | cap=900
#[kani::proof]
fn c12_t_u8_lerp_f64_m3of8() { int_lerp_at!(u8, f64, 3, -3) }
/// K: fns=u8::lerp_unclamped,u8::lerp_unclamped_precise,<&u8>::lerp_unclamped,<&u8>::lerp_precise (Lerp<f64>) | inst=u8, factor f64 = -1/8 | bound=ALL (from,to) pairs, one concrete factor
/// K: asserts=result = round_half_away((8*from + -1*(to-from))/8) whenever that fits u8 (oracle in i32); fast, precise, by-reference; clamped form = value at clamp01(factor); no panic | cap=900
#[kani::proof]
fn c12_t_u8_lerp_f64_m1of8() { int_lerp_at!(u8, f64, 3, -1) }
/// K: fns=u8::lerp_unclamped,u8::lerp_unclamped_precise,<&u8>::lerp_unclamped,<&u8>::lerp_precise (Lerp<f64>) | inst=u8, factor f64 = 1/8 | bound=ALL (from,to) pairs, one concrete factor
/// K: asserts=result = round_half_away((8*from + 1*(to-from))/8) whenever that fits u8 (oracle in i32); fast, precise, by-reference; clamped form = value at clamp01(factor); no panic | cap=900
#[kani::proof]
fn c12_t_u8_lerp_f64_1of8() { int_lerp_at!(u8, f64, 3, 1) }
/// K: fns=u8::lerp_unclamped,u8::lerp_unclamped_precise,<&u8>::lerp_unclamped,<&u8>::lerp_precise (Lerp<f64>) | inst=u8, factor f64 = 3/8 | bound=ALL (from,to) pairs, one concrete factor
/// K: asserts=result = round_half_away((8*from + 3*(to-from))/8) whenever that fits u8 (oracle in i32); fast, precise, by-reference; clamped form = value at clamp01(factor); no panic | cap=900
#[kani::proof]
fn c12_t_u8_lerp_f64_3of8() { int_lerp_at!(u8, f64, 3, 3) }
/// K: fns=u8::lerp_unclamped,u8::lerp_unclamped_precise,<&u8>::lerp_unclamped,<&u8>::lerp_precise (Lerp<f64>) | inst=u8, factor f64 = 5/8 | bound=ALL (from,to) pairs, one concrete factor
/// K: asserts=result = round_half_away((8*from + 5*(to-from))/8) whenever that fits u8 (oracle in i32); fast, precise, by-reference; clamped form = value at clamp01(factor); no panic | cap=900
#[kani::proof]
fn c12_t_u8_lerp_f64_5of8() { int_lerp_at!(u8, f64, 3, 5) }
/// K: fns=u8::lerp_unclamped,u8::lerp_unclamped_precise,<&u8>::lerp_unclamped,<&u8>::lerp_precise (Lerp<f64>) | inst=u8, factor f64 = 7/8 | bound=ALL (from,to) pairs, one concrete factor
/// K: asserts=result = round_half_away((8*from + 7*(to-from))/8) whenever that fits u8 (oracle in i32); fast, precise, by-reference; clamped form = value at clamp01(factor); no panic | cap=900
#[kani::proof]
fn c12_t_u8_lerp_f64_7of8() { int_lerp_at!(u8, f64, 3, 7) }
/// K: fns=u8::lerp_unclamped,u8::lerp_unclamped_precise,<&u8>::lerp_unclamped,<&u8>::lerp_precise (Lerp<f64>) | inst=u8, factor f64 = 9/8 | bound=ALL (from,to) pairs, one concrete factor
/// K: asserts=result = round_half_away((8*from + 9*(to-from))/8) whenever that fits u8 (oracle in i32); fast, precise, by-reference; clamped form = value at clamp01(factor); no panic | cap=900
#[kani::proof]
fn c12_t_u8_lerp_f64_9of8() { int_lerp_at!(u8, f64, 3, 9) }
/// K: fns=u8::lerp_unclamped,u8::lerp_unclamped_precise,<&u8>::lerp_unclamped,<&u8>::lerp_precise (Lerp<f64>) | inst=u8, factor f64 = 11/8 | bound=ALL (from,to) pairs, one concrete factor
/// K: asserts=result = round_half_away((8*from + 11*(to-from))/8) whenever that fits u8 (oracle in i32); fast, precise, by-reference; clamped form = value at clamp01(factor); no panic | cap=900
#[kani::proof]
fn c12_t_u8_lerp_f64_11of8() { int_lerp_at!(u8, f64, 3, 11) }
/// K: fns=u8::lerp_unclamped,u8::lerp_unclamped_precise,<&u8>::lerp_unclamped,<&u8>::lerp_precise (Lerp<f64>) | inst=u8, factor f64 = 13/8 | bound=ALL (from,to) pairs, one concrete factor
/// K: asserts=result = round_half_away((8*from + 13*(to-from))/8) whenever that fits u8 (oracle in i32); fast, precise, by-reference; clamped form = value at clamp01(factor); no panic | cap=900
#[kani::proof]
fn c12_t_u8_lerp_f64_13of8() { int_lerp_at!(u8, f64, 3, 13) }
/// K: fns=u8::lerp_unclamped,u8::lerp_unclamped_precise,<&u8>::lerp_unclamped,<&u8>::lerp_precise (Lerp<f64>) | inst=u8, factor f64 = 15/8 | bound=ALL (from,to) pairs, one concrete factor
/// K: asserts=result = round_half_away((8*from + 15*(to-from))/8) whenever that fits u8 (oracle in i32); fast, precise, by-reference; clamped form = value at clamp01(factor); no panic | cap=900
#[kani::proof]
fn c12_t_u8_lerp_f64_15of8() { int_lerp_at!(u8, f64, 3, 15) }
/// K: fns=i8::lerp_unclamped,i8::lerp_unclamped_precise,<&i8>::lerp_unclamped,<&i8>::lerp_precise (Lerp<f64>) | inst=i8, factor f64 = -7/8 | bound=ALL (from,to) pairs, one concrete factor
/// K: asserts=result = round_half_away((8*from + -7*(to-from))/8) whenever that fits i8 (oracle in i32); fast, precise, by-reference; clamped form = value at clamp01(factor); no panic | cap=900
#[kani::proof]
fn c12_t_i8_lerp_f64_m7of8() { int_lerp_at!(i8, f64, 3, -7) }
/// K: fns=i8::lerp_unclamped,i8::lerp_unclamped_precise,<&i8>::lerp_unclamped,<&i8>::lerp_precise (Lerp<f64>) | inst=i8, factor f64 = -5/8 | bound=ALL (from,to) pairs, one concrete factor
/// K: asserts=result = round_half_away((8*from + -5*(to-from))/8) whenever that fits i8 (oracle in i32); fast, precise, by-reference; clamped form = value at clamp01(factor); no panic | cap=900
#[kani::proof]
fn c12_t_i8_lerp_f64_m5of8() { int_lerp_at!(i8, f64, 3, -5) }
/// K: fns=i8::lerp_unclamped,i8::lerp_unclamped_precise,<&i8>::lerp_unclamped,<&i8>::lerp_precise (Lerp<f64>) | inst=i8, factor f64 = -3/8 | bound=ALL (from,to) pairs, one concrete factor
/// K: asserts=result = round_half_away((8*from + -3*(to-from))/8) whenever that fits i8 (oracle in i32); fast, precise, by-reference; clamped form = value at clamp01(factor); no panic | cap=900
#[kani::proof]
fn c12_t_i8_lerp_f64_m3of8() { int_lerp_at!(i8, f64, 3, -3) }
/// K: fns=i8::lerp_unclamped,i8::lerp_unclamped_precise,<&i8>::lerp_unclamped,<&i8>::lerp_precise (Lerp<f64>) | inst=i8, factor f64 = -1/8 | bound=ALL (from,to) pairs, one concrete factor
/// K: asserts=result = round_half_away((8*from + -1*(to-from))/8) whenever that fits i8 (oracle in i32); fast, precise, by-reference; clamped form = value at clamp01(factor); no panic | cap=900
#[kani::proof]
fn c12_t_i8_lerp_f64_m1of8() { int_lerp_at!(i8, f64, 3, -1) }
/// K: fns=i8::lerp_unclamped,i8::lerp_unclamped_precise,<&i8>::lerp_unclamped,<&i8>::lerp_precise (Lerp<f64>) | inst=i8, factor f64 = 1/8 | bound=ALL (from,to) pairs, one concrete factor
/// K: asserts=result = round_half_away((8*from + 1*(to-from))/8) whenever that fits i8 (oracle in i32); fast, precise, by-reference; clamped form = value at clamp01(factor); no panic | cap=900
#[kani::proof]
fn c12_t_i8_lerp_f64_1of8() { int_lerp_at!(i8, f64, 3, 1) }
/// K: fns=i8::lerp_unclamped,i8::lerp_unclamped_precise,<&i8>::lerp_unclamped,<&i8>::lerp_precise (Lerp<f64>) | inst=i8, factor f64 = 3/8 | bound=ALL (from,to) pairs, one concrete factor
/// K: asserts=result = round_half_away((8*from + 3*(to-from))/8) whenever that fits i8 (oracle in i32); fast, precise, by-reference; clamped form = value at clamp01(factor); no panic | cap=900
#[kani::proof]
fn c12_t_i8_lerp_f64_3of8() { int_lerp_at!(i8, f64, 3, 3) }
/// K: fns=i8::lerp_unclamped,i8::lerp_unclamped_precise,<&i8>::lerp_unclamped,<&i8>::lerp_precise (Lerp<f64>) | inst=i8, factor f64 = 5/8 | bound=ALL (from,to) pairs, one concrete factor
/// K: asserts=result = round_half_away((8*from + 5*(to-from))/8) whenever that fits i8 (oracle in i32); fast, precise, by-reference; clamped form = value at clamp01(factor); no panic | cap=900
#[kani::proof]
fn c12_t_i8_lerp_f64_5of8() { int_lerp_at!(i8, f64, 3, 5) }
/// K: fns=i8::lerp_unclamped,i8::lerp_unclamped_precise,<&i8>::lerp_unclamped,<&i8>::lerp_precise (Lerp<f64>) | inst=i8, factor f64 = 7/8 | bound=ALL (from,to) pairs, one concrete factor
/// K: asserts=result = round_half_away((8*from + 7*(to-from))/8) whenever that fits i8 (oracle in i32); fast, precise, by-reference; clamped form = value at clamp01(factor); no panic | cap=900
#[kani::proof]
fn c12_t_i8_lerp_f64_7of8() { int_lerp_at!(i8, f64, 3, 7) }
/// K: fns=i8::lerp_unclamped,i8::lerp_unclamped_precise,<&i8>::lerp_unclamped,<&i8>::lerp_precise (Lerp<f64>) | inst=i8, factor f64 = 9/8 | bound=ALL (from,to) pairs, one concrete factor
/// K: asserts=result = round_half_away((8*from + 9*(to-from))/8) whenever that fits i8 (oracle in i32); fast, precise, by-reference; clamped form = value at clamp01(factor); no panic | cap=900
#[kani::proof]
fn c12_t_i8_lerp_f64_9of8() { int_lerp_at!(i8, f64, 3, 9) }
/// K: fns=i8::lerp_unclamped,i8::lerp_unclamped_precise,<&i8>::lerp_unclamped,<&i8>::lerp_precise (Lerp<f64>) | inst=i8, factor f64 = 11/8 | bound=ALL (from,to) pairs, one concrete factor
/// K: asserts=result = round_half_away((8*from + 11*(to-from))/8) whenever that fits i8 (oracle in i32); fast, precise, by-reference; clamped form = value at clamp01(factor); no panic | cap=900
#[kani::proof]
fn c12_t_i8_lerp_f64_11of8() { int_lerp_at!(i8, f64, 3, 11) }
/// K: fns=i8::lerp_unclamped,i8::lerp_unclamped_precise,<&i8>::lerp_unclamped,<&i8>::lerp_precise (Lerp<f64>) | inst=i8, factor f64 = 13/8 | bound=ALL (from,to) pairs, one concrete factor
/// K: asserts=result = round_half_away((8*from + 13*(to-from))/8) whenever that fits i8 (oracle in i32); fast, precise, by-reference; clamped form = value at clamp01(factor); no panic | cap=900
#[kani::proof]
fn c12_t_i8_lerp_f64_13of8() { int_lerp_at!(i8, f64, 3, 13) }
/// K: fns=i8::lerp_unclamped,i8::lerp_unclamped_precise,<&i8>::lerp_unclamped,<&i8>::lerp_precise (Lerp<f64>) | inst=i8, factor f64 = 15/8 | bound=ALL (from,to) pairs, one concrete factor
/// K: asserts=result = round_half_away((8*from + 15*(to-from))/8) whenever that fits i8 (oracle in i32); fast, precise, by-reference; clamped form = value at clamp01(factor); no panic | cap=900
#[kani::proof]
fn c12_t_i8_lerp_f64_15of8() { int_lerp_at!(i8, f64, 3, 15) }
/// K: fns=u8::lerp_unclamped,u8::lerp_unclamped_precise,<&u8>::lerp_unclamped,<&u8>::lerp_precise (Lerp<f32>) | inst=u8, factor f32 = -15/16 | bound=ALL (from,to) pairs, one concrete factor
/// K: asserts=result = round_half_away((16*from + -15*(to-from))/16) whenever that fits u8 (oracle in i32); fast, precise, by-reference; clamped form = value at clamp01(factor); no panic | cap=900
#[kani::proof]
fn c12_t_u8_lerp_f32_m15of16() { int_lerp_at!(u8, f32, 4, -15) }
/// K: fns=u8::lerp_unclamped,u8::lerp_unclamped_precise,<&u8>::lerp_unclamped,<&u8>::lerp_precise (Lerp<f32>) | inst=u8, factor f32 = -13/16 | bound=ALL (from,to) pairs, one concrete factor
/// K: asserts=result = round_half_away((16*from + -13*(to-from))/16) whenever that fits u8 (oracle in i32); fast, precise, by-reference; clamped form = value at clamp01(factor); no panic | cap=900
#[kani::proof]
fn c12_t_u8_lerp_f32_m13of16() { int_lerp_at!(u8, f32, 4, -13) }
/// K: fns=u8::lerp_unclamped,u8::lerp_unclamped_precise,<&u8>::lerp_unclamped,<&u8>::lerp_precise (Lerp<f32>) | inst=u8, factor f32 = -11/16 | bound=ALL (from,to) pairs, one concrete factor
/// K: asserts=result = round_half_away((16*from + -11*(to-from))/16) whenever that fits u8 (oracle in i32); fast, precise, by-reference; clamped form = value at clamp01(factor); no panic | cap=900
#[kani::proof]
fn c12_t_u8_lerp_f32_m11of16() { int_lerp_at!(u8, f32, 4, -11) }
/// K: fns=u8::lerp_unclamped,u8::lerp_unclamped_precise,<&u8>::lerp_unclamped,<&u8>::lerp_precise (Lerp<f32>) | inst=u8, factor f32 = -9/16 | bound=ALL (from,to) pairs, one concrete factor
/// K: asserts=result = round_half_away((16*from + -9*(to-from))/16) whenever that fits u8 (oracle in i32); fast, precise, by-reference; clamped form = value at clamp01(factor); no panic | cap=900
#[kani::proof]
fn c12_t_u8_lerp_f32_m9of16() { int_lerp_at!(u8, f32, 4, -9) }
/// K: fns=u8::lerp_unclamped,u8::lerp_unclamped_precise,<&u8>::lerp_unclamped,<&u8>::lerp_precise (Lerp<f32>) | inst=u8, factor f32 = -7/16 | bound=ALL (from,to) pairs, one concrete factor
/// K: asserts=result = round_half_away((16*from + -7*(to-from))/16) whenever that fits u8 (oracle in i32); fast, precise, by-reference; clamped form = value at clamp01(factor); no panic | cap=900
#[kani::proof]
fn c12_t_u8_lerp_f32_m7of16() { int_lerp_at!(u8, f32, 4, -7) }
/// K: fns=u8::lerp_unclamped,u8::lerp_unclamped_precise,<&u8>::lerp_unclamped,<&u8>::lerp_precise (Lerp<f32>) | inst=u8, factor f32 = -5/16 | bound=ALL (from,to) pairs, one concrete factor
/// K: asserts=result = round_half_away((16*from + -5*(to-from))/16) whenever that fits u8 (oracle in i32); fast, precise, by-reference; clamped form = value at clamp01(factor); no panic | cap=900
#[kani::proof]
fn c12_t_u8_lerp_f32_m5of16() { int_lerp_at!(u8, f32, 4, -5) }
/// K: fns=u8::lerp_unclamped,u8::lerp_unclamped_precise,<&u8>::lerp_unclamped,<&u8>::lerp_precise (Lerp<f32>) | inst=u8, factor f32 = -3/16 | bound=ALL (from,to) pairs, one concrete factor
/// K: asserts=result = round_half_away((16*from + -3*(to-from))/16) whenever that fits u8 (oracle in i32); fast, precise, by-reference; clamped form = value at clamp01(factor); no panic | cap=900
#[kani::proof]
fn c12_t_u8_lerp_f32_m3of16() { int_lerp_at!(u8, f32, 4, -3) }
/// K: fns=u8::lerp_unclamped,u8::lerp_unclamped_precise,<&u8>::lerp_unclamped,<&u8>::lerp_precise (Lerp<f32>) | inst=u8, factor f32 = -1/16 | bound=ALL (from,to) pairs, one concrete factor
/// K: asserts=result = round_half_away((16*from + -1*(to-from))/16) whenever that fits u8 (oracle in i32); fast, precise, by-reference; clamped form = value at clamp01(factor); no panic | cap=900
#[kani::proof]
fn c12_t_u8_lerp_f32_m1of16() { int_lerp_at!(u8, f32, 4, -1) }
/// K: fns=u8::lerp_unclamped,u8::lerp_unclamped_precise,<&u8>::lerp_unclamped,<&u8>::lerp_precise (Lerp<f32>) | inst=u8, factor f32 = 1/16 | bound=ALL (from,to) pairs, one concrete factor
/// K: asserts=result = round_half_away((16*from + 1*(to-from))/16) whenever that fits u8 (oracle in i32); fast, precise, by-reference; clamped form = value at clamp01(factor); no panic | cap=900
#[kani::proof]
fn c12_t_u8_lerp_f32_1of16() { int_lerp_at!(u8, f32, 4, 1) }
/// K: fns=u8::lerp_unclamped,u8::lerp_unclamped_precise,<&u8>::lerp_unclamped,<&u8>::lerp_precise (Lerp<f32>) | inst=u8, factor f32 = 3/16 | bound=ALL (from,to) pairs, one concrete factor
/// K: asserts=result = round_half_away((16*from + 3*(to-from))/16) whenever that fits u8 (oracle in i32); fast, precise, by-reference; clamped form = value at clamp01(factor); no panic | cap=900
#[kani::proof]
fn c12_t_u8_lerp_f32_3of16() { int_lerp_at!(u8, f32, 4, 3) }
/// K: fns=u8::lerp_unclamped,u8::lerp_unclamped_precise,<&u8>::lerp_unclamped,<&u8>::lerp_precise (Lerp<f32>) | inst=u8, factor f32 = 5/16 | bound=ALL (from,to) pairs, one concrete factor
/// K: asserts=result = round_half_away((16*from + 5*(to-from))/16) whenever that fits u8 (oracle in i32); fast, precise, by-reference; clamped form = value at clamp01(factor); no panic | cap=900
#[kani::proof]
fn c12_t_u8_lerp_f32_5of16() { int_lerp_at!(u8, f32, 4, 5) }
/// K: fns=u8::lerp_unclamped,u8::lerp_unclamped_precise,<&u8>::lerp_unclamped,<&u8>::lerp_precise (Lerp<f32>) | inst=u8, factor f32 = 7/16 | bound=ALL (from,to) pairs, one concrete factor
/// K: asserts=result = round_half_away((16*from + 7*(to-from))/16) whenever that fits u8 (oracle in i32); fast, precise, by-reference; clamped form = value at clamp01(factor); no panic | cap=900
#[kani::proof]
fn c12_t_u8_lerp_f32_7of16() { int_lerp_at!(u8, f32, 4, 7) }
/// K: fns=u8::lerp_unclamped,u8::lerp_unclamped_precise,<&u8>::lerp_unclamped,<&u8>::lerp_precise (Lerp<f32>) | inst=u8, factor f32 = 9/16 | bound=ALL (from,to) pairs, one concrete factor
/// K: asserts=result = round_half_away((16*from + 9*(to-from))/16) whenever that fits u8 (oracle in i32); fast, precise, by-reference; clamped form = value at clamp01(factor); no panic | cap=900
#[kani::proof]
fn c12_t_u8_lerp_f32_9of16() { int_lerp_at!(u8, f32, 4, 9) }
/// K: fns=u8::lerp_unclamped,u8::lerp_unclamped_precise,<&u8>::lerp_unclamped,<&u8>::lerp_precise (Lerp<f32>) | inst=u8, factor f32 = 11/16 | bound=ALL (from,to) pairs, one concrete factor
/// K: asserts=result = round_half_away((16*from + 11*(to-from))/16) whenever that fits u8 (oracle in i32); fast, precise, by-reference; clamped form = value at clamp01(factor); no panic | cap=900
#[kani::proof]
fn c12_t_u8_lerp_f32_11of16() { int_lerp_at!(u8, f32, 4, 11) }
/// K: fns=u8::lerp_unclamped,u8::lerp_unclamped_precise,<&u8>::lerp_unclamped,<&u8>::lerp_precise (Lerp<f32>) | inst=u8, factor f32 = 13/16 | bound=ALL (from,to) pairs, one concrete factor
/// K: asserts=result = round_half_away((16*from + 13*(to-from))/16) whenever that fits u8 (oracle in i32); fast, precise, by-reference; clamped form = value at clamp01(factor); no panic | cap=900
#[kani::proof]
fn c12_t_u8_lerp_f32_13of16() { int_lerp_at!(u8, f32, 4, 13) }
/// K: fns=u8::lerp_unclamped,u8::lerp_unclamped_precise,<&u8>::lerp_unclamped,<&u8>::lerp_precise (Lerp<f32>) | inst=u8, factor f32 = 15/16 | bound=ALL (from,to) pairs, one concrete factor
/// K: asserts=result = round_half_away((16*from + 15*(to-from))/16) whenever that fits u8 (oracle in i32); fast, precise, by-reference; clamped form = value at clamp01(factor); no panic | cap=900
#[kani::proof]
fn c12_t_u8_lerp_f32_15of16() { int_lerp_at!(u8, f32, 4, 15) }
/// K: fns=u8::lerp_unclamped,u8::lerp_unclamped_precise,<&u8>::lerp_unclamped,<&u8>::lerp_precise (Lerp<f32>) | inst=u8, factor f32 = 17/16 | bound=ALL (from,to) pairs, one concrete factor
/// K: asserts=result = round_half_away((16*from + 17*(to-from))/16) whenever that fits u8 (oracle in i32); fast, precise, by-reference; clamped form = value at clamp01(factor); no panic | cap=900
#[kani::proof]
fn c12_t_u8_lerp_f32_17of16() { int_lerp_at!(u8, f32, 4, 17) }
/// K: fns=u8::lerp_unclamped,u8::lerp_unclamped_precise,<&u8>::lerp_unclamped,<&u8>::lerp_precise (Lerp<f32>) | inst=u8, factor f32 = 19/16 | bound=ALL (from,to) pairs, one concrete factor
/// K: asserts=result = round_half_away((16*from + 19*(to-from))/16) whenever that fits u8 (oracle in i32); fast, precise, by-reference; clamped form = value at clamp01(factor); no panic | cap=900
#[kani::proof]
fn c12_t_u8_lerp_f32_19of16() { int_lerp_at!(u8, f32, 4, 19) }
/// K: fns=u8::lerp_unclamped,u8::lerp_unclamped_precise,<&u8>::lerp_unclamped,<&u8>::lerp_precise (Lerp<f32>) | inst=u8, factor f32 = 21/16 | bound=ALL (from,to) pairs, one concrete factor
/// K: asserts=result = round_half_away((16*from + 21*(to-from))/16) whenever that fits u8 (oracle in i32); fast, precise, by-reference; clamped form = value at clamp01(factor); no panic | cap=900
#[kani::proof]
fn c12_t_u8_lerp_f32_21of16() { int_lerp_at!(u8, f32, 4, 21) }
/// K: fns=u8::lerp_unclamped,u8::lerp_unclamped_precise,<&u8>::lerp_unclamped,<&u8>::lerp_precise (Lerp<f32>) | inst=u8, factor f32 = 23/16 | bound=ALL (from,to) pairs, one concrete factor
/// K: asserts=result = round_half_away((16*from + 23*(to-from))/16) whenever that fits u8 (oracle in i32); fast, precise, by-reference; clamped form = value at clamp01(factor); no panic | cap=900
#[kani::proof]
fn c12_t_u8_lerp_f32_23of16() { int_lerp_at!(u8, f32, 4, 23) }
/// K: fns=u8::lerp_unclamped,u8::lerp_unclamped_precise,<&u8>::lerp_unclamped,<&u8>::lerp_precise (Lerp<f32>) | inst=u8, factor f32 = 25/16 | bound=ALL (from,to) pairs, one concrete factor
/// K: asserts=result = round_half_away((16*from + 25*(to-from))/16) whenever that fits u8 (oracle in i32); fast, precise, by-reference; clamped form = value at clamp01(factor); no panic | cap=900
#[kani::proof]
fn c12_t_u8_lerp_f32_25of16() { int_lerp_at!(u8, f32, 4, 25) }
/// K: fns=u8::lerp_unclamped,u8::lerp_unclamped_precise,<&u8>::lerp_unclamped,<&u8>::lerp_precise (Lerp<f32>) | inst=u8, factor f32 = 27/16 | bound=ALL (from,to) pairs, one concrete factor
/// K: asserts=result = round_half_away((16*from + 27*(to-from))/16) whenever that fits u8 (oracle in i32); fast, precise, by-reference; clamped form = value at clamp01(factor); no panic | cap=900
#[kani::proof]
fn c12_t_u8_lerp_f32_27of16() { int_lerp_at!(u8, f32, 4, 27) }
/// K: fns=u8::lerp_unclamped,u8::lerp_unclamped_precise,<&u8>::lerp_unclamped,<&u8>::lerp_precise (Lerp<f32>) | inst=u8, factor f32 = 29/16 | bound=ALL (from,to) pairs, one concrete factor
/// K: asserts=result = round_half_away((16*from + 29*(to-from))/16) whenever that fits u8 (oracle in i32); fast, precise, by-reference; clamped form = value at clamp01(factor); no panic | cap=900
#[kani::proof]
fn c12_t_u8_lerp_f32_29of16() { int_lerp_at!(u8, f32, 4, 29) }
/// K: fns=u8::lerp_unclamped,u8::lerp_unclamped_precise,<&u8>::lerp_unclamped,<&u8>::lerp_precise (Lerp<f32>) | inst=u8, factor f32 = 31/16 | bound=ALL (from,to) pairs, one concrete factor
/// K: asserts=result = round_half_away((16*from + 31*(to-from))/16) whenever that fits u8 (oracle in i32); fast, precise, by-reference; clamped form = value at clamp01(factor); no panic | cap=900
#[kani::proof]
fn c12_t_u8_lerp_f32_31of16() { int_lerp_at!(u8, f32, 4, 31) }
/// K: fns=u16::lerp_unclamped,u16::lerp_unclamped_precise,<&u16>::lerp_unclamped,<&u16>::lerp_precise (Lerp<f32>) | inst=u16, factor f32 = -8/8 | bound=ALL (from,to) pairs, one concrete factor
/// K: asserts=result = round_half_away((8*from + -8*(to-from))/8) whenever that fits u16 (oracle in i32); fast, precise, by-reference; clamped form = value at clamp01(factor); no panic | cap=900
#[kani::proof]
fn c12_t_u16_lerp_f32_m8of8() { int_lerp_at!(u16, f32, 3, -8) }
/// K: fns=u16::lerp_unclamped,u16::lerp_unclamped_precise,<&u16>::lerp_unclamped,<&u16>::lerp_precise (Lerp<f32>) | inst=u16, factor f32 = 0/8 | bound=ALL (from,to) pairs, one concrete factor
/// K: asserts=result = round_half_away((8*from + 0*(to-from))/8) whenever that fits u16 (oracle in i32); fast, precise, by-reference; clamped form = value at clamp01(factor); no panic | cap=900
#[kani::proof]
fn c12_t_u16_lerp_f32_0of8() { int_lerp_at!(u16, f32, 3, 0) }
/// K: fns=u16::lerp_unclamped,u16::lerp_unclamped_precise,<&u16>::lerp_unclamped,<&u16>::lerp_precise (Lerp<f32>) | inst=u16, factor f32 = 4/8 | bound=ALL (from,to) pairs, one concrete factor
/// K: asserts=result = round_half_away((8*from + 4*(to-from))/8) whenever that fits u16 (oracle in i32); fast, precise, by-reference; clamped form = value at clamp01(factor); no panic | cap=900
#[kani::proof]
fn c12_t_u16_lerp_f32_4of8() { int_lerp_at!(u16, f32, 3, 4) }
/// K: fns=u16::lerp_unclamped,u16::lerp_unclamped_precise,<&u16>::lerp_unclamped,<&u16>::lerp_precise (Lerp<f32>) | inst=u16, factor f32 = 5/8 | bound=ALL (from,to) pairs, one concrete factor
/// K: asserts=result = round_half_away((8*from + 5*(to-from))/8) whenever that fits u16 (oracle in i32); fast, precise, by-reference; clamped form = value at clamp01(factor); no panic | cap=900
#[kani::proof]
fn c12_t_u16_lerp_f32_5of8() { int_lerp_at!(u16, f32, 3, 5) }
/// K: fns=u16::lerp_unclamped,u16::lerp_unclamped_precise,<&u16>::lerp_unclamped,<&u16>::lerp_precise (Lerp<f32>) | inst=u16, factor f32 = 8/8 | bound=ALL (from,to) pairs, one concrete factor
/// K: asserts=result = round_half_away((8*from + 8*(to-from))/8) whenever that fits u16 (oracle in i32); fast, precise, by-reference; clamped form = value at clamp01(factor); no panic | cap=900
#[kani::proof]
fn c12_t_u16_lerp_f32_8of8() { int_lerp_at!(u16, f32, 3, 8) }
/// K: fns=u16::lerp_unclamped,u16::lerp_unclamped_precise,<&u16>::lerp_unclamped,<&u16>::lerp_precise (Lerp<f32>) | inst=u16, factor f32 = 16/8 | bound=ALL (from,to) pairs, one concrete factor
/// K: asserts=result = round_half_away((8*from + 16*(to-from))/8) whenever that fits u16 (oracle in i32); fast, precise, by-reference; clamped form = value at clamp01(factor); no panic | cap=900
#[kani::proof]
fn c12_t_u16_lerp_f32_16of8() { int_lerp_at!(u16, f32, 3, 16) }
/// K: fns=i16::lerp_unclamped,i16::lerp_unclamped_precise,<&i16>::lerp_unclamped,<&i16>::lerp_precise (Lerp<f32>) | inst=i16, factor f32 = -8/8 | bound=ALL (from,to) pairs, one concrete factor
/// K: asserts=result = round_half_away((8*from + -8*(to-from))/8) whenever that fits i16 (oracle in i32); fast, precise, by-reference; clamped form = value at clamp01(factor); no panic | cap=900
#[kani::proof]
fn c12_t_i16_lerp_f32_m8of8() { int_lerp_at!(i16, f32, 3, -8) }
/// K: fns=i16::lerp_unclamped,i16::lerp_unclamped_precise,<&i16>::lerp_unclamped,<&i16>::lerp_precise (Lerp<f32>) | inst=i16, factor f32 = 0/8 | bound=ALL (from,to) pairs, one concrete factor
/// K: asserts=result = round_half_away((8*from + 0*(to-from))/8) whenever that fits i16 (oracle in i32); fast, precise, by-reference; clamped form = value at clamp01(factor); no panic | cap=900
#[kani::proof]
fn c12_t_i16_lerp_f32_0of8() { int_lerp_at!(i16, f32, 3, 0) }
/// K: fns=i16::lerp_unclamped,i16::lerp_unclamped_precise,<&i16>::lerp_unclamped,<&i16>::lerp_precise (Lerp<f32>) | inst=i16, factor f32 = 4/8 | bound=ALL (from,to) pairs, one concrete factor
/// K: asserts=result = round_half_away((8*from + 4*(to-from))/8) whenever that fits i16 (oracle in i32); fast, precise, by-reference; clamped form = value at clamp01(factor); no panic | cap=900
#[kani::proof]
fn c12_t_i16_lerp_f32_4of8() { int_lerp_at!(i16, f32, 3, 4) }
/// K: fns=i16::lerp_unclamped,i16::lerp_unclamped_precise,<&i16>::lerp_unclamped,<&i16>::lerp_precise (Lerp<f32>) | inst=i16, factor f32 = 8/8 | bound=ALL (from,to) pairs, one concrete factor
/// K: asserts=result = round_half_away((8*from + 8*(to-from))/8) whenever that fits i16 (oracle in i32); fast, precise, by-reference; clamped form = value at clamp01(factor); no panic | cap=900
#[kani::proof]
fn c12_t_i16_lerp_f32_8of8() { int_lerp_at!(i16, f32, 3, 8) }
/// K: fns=i16::lerp_unclamped,i16::lerp_unclamped_precise,<&i16>::lerp_unclamped,<&i16>::lerp_precise (Lerp<f32>) | inst=i16, factor f32 = 16/8 | bound=ALL (from,to) pairs, one concrete factor
/// K: asserts=result = round_half_away((8*from + 16*(to-from))/8) whenever that fits i16 (oracle in i32); fast, precise, by-reference; clamped form = value at clamp01(factor); no panic | cap=900
#[kani::proof]
fn c12_t_i16_lerp_f32_16of8() { int_lerp_at!(i16, f32, 3, 16) }

// ---- endpoints at the range limits of the wide integer types (quick) ----------------------------------------
/// Endpoints `k << sh` for every 8-bit `k`: multiples of 2^sh up to the type's limits (u64: 0 .. 255*2^56, i64:
/// -2^63 .. 127*2^56, ...), all exactly representable in f32 and f64. At the factors 0, 1/2, 1 (and outside [0,1]
/// for the clamped form) the real-valued result is itself such a multiple, so the expected value is exact: the
/// endpoints themselves and the exact midpoint, also for to < from and for the full span.
macro_rules! int_lerp_limits {
    ($T:ty, $K:ty, $F:ty, $sh:expr) => {{
        let (ka, kb): ($K, $K) = (kani::any(), kani::any());
        let (a, b): ($T, $T) = ((ka as $T) << $sh, (kb as $T) << $sh);
        kani::cover!(b < a, "to < from");
        kani::cover!(ka == <$K>::MIN && kb == <$K>::MAX, "both range limits");
        let mid = (((ka as i128) + (kb as i128)) << ($sh - 1)) as $T;
        assert!(<$T as Lerp<$F>>::lerp_unclamped(a, b, 0.0) == a, "fast formula at 0");
        assert!(<$T as Lerp<$F>>::lerp_unclamped(a, b, 1.0) == b, "fast formula at 1");
        assert!(<$T as Lerp<$F>>::lerp_unclamped(a, b, 0.5) == mid, "fast formula at 1/2");
        assert!(<$T as Lerp<$F>>::lerp_unclamped_precise(a, b, 0.0) == a, "precise formula at 0");
        assert!(<$T as Lerp<$F>>::lerp_unclamped_precise(a, b, 1.0) == b, "precise formula at 1");
        assert!(<$T as Lerp<$F>>::lerp_unclamped_precise(a, b, 0.5) == mid, "precise formula at 1/2");
        assert!(<&$T as Lerp<$F>>::lerp_unclamped(&a, &b, 1.0) == b, "by reference");
        assert!(<$T as Lerp<$F>>::lerp(a, b, 2.0) == b && <$T as Lerp<$F>>::lerp(a, b, -1.0) == a, "clamped form outside [0,1]");
        assert!(<$T as Lerp<$F>>::lerp_precise(a, b, 2.0) == b && <$T as Lerp<$F>>::lerp_precise(a, b, -1.0) == a, "clamped precise form outside [0,1]");
    }};
}
/// K: fns=u64::lerp_unclamped,u64::lerp_unclamped_precise,u64::lerp,u64::lerp_precise (Lerp<f32>) | inst=u64, factor f32 | bound=endpoints k<<56 for every 8-bit k (multiples of 2^56 up to the range limit), factors 0, 1/2, 1, 2, -1
/// K: asserts=result is the endpoint / the exact midpoint, fast and precise formulas, clamped forms, by reference; includes to<from and both range limits; no panic
#[kani::proof]
fn c12_q_limits_u64_f32() { int_lerp_limits!(u64, u8, f32, 56) }
/// K: fns=u64::lerp_unclamped,u64::lerp_unclamped_precise,u64::lerp,u64::lerp_precise (Lerp<f64>) | inst=u64, factor f64 | bound=endpoints k<<56 for every 8-bit k, factors 0, 1/2, 1, 2, -1
/// K: asserts=result is the endpoint / the exact midpoint, fast and precise formulas, clamped forms, by reference; includes to<from and both range limits; no panic
#[kani::proof]
fn c12_q_limits_u64_f64() { int_lerp_limits!(u64, u8, f64, 56) }
/// K: fns=i64::lerp_unclamped,i64::lerp_unclamped_precise,i64::lerp,i64::lerp_precise (Lerp<f32>) | inst=i64, factor f32 | bound=endpoints k<<56 for every signed 8-bit k (MIN .. 127<<56), factors 0, 1/2, 1, 2, -1
/// K: asserts=result is the endpoint / the exact midpoint, fast and precise formulas, clamped forms, by reference; includes to<from and the full span; no panic
#[kani::proof]
fn c12_q_limits_i64_f32() { int_lerp_limits!(i64, i8, f32, 56) }
/// K: fns=i64::lerp_unclamped,i64::lerp_unclamped_precise,i64::lerp,i64::lerp_precise (Lerp<f64>) | inst=i64, factor f64 | bound=endpoints k<<56 for every signed 8-bit k, factors 0, 1/2, 1, 2, -1
/// K: asserts=result is the endpoint / the exact midpoint, fast and precise formulas, clamped forms, by reference; includes to<from and the full span; no panic
#[kani::proof]
fn c12_q_limits_i64_f64() { int_lerp_limits!(i64, i8, f64, 56) }
/// K: fns=u32::lerp_unclamped,u32::lerp_unclamped_precise,i32::lerp_unclamped,i32::lerp_unclamped_precise,usize::lerp_unclamped,isize::lerp_unclamped | inst=u32,i32 (k<<24), usize,isize (k<<56), factor f32 and f64 | bound=endpoints k<<sh for every 8-bit k, factors 0, 1/2, 1, 2, -1
/// K: asserts=result is the endpoint / the exact midpoint, fast and precise formulas, clamped forms, by reference; no panic | cap=600
#[kani::proof]
fn c12_t_limits_other_widths() {
    match kani::any::<u8>() % 8 {
        0 => int_lerp_limits!(u32, u8, f32, 24), 1 => int_lerp_limits!(u32, u8, f64, 24), 2 => int_lerp_limits!(i32, i8, f32, 24), 3 => int_lerp_limits!(i32, i8, f64, 24),
        4 => int_lerp_limits!(usize, u8, f32, 56), 5 => int_lerp_limits!(usize, u8, f64, 56), 6 => int_lerp_limits!(isize, i8, f32, 56), _ => int_lerp_limits!(isize, i8, f64, 56),
    }
}

// ---- vector / quaternion precise forms at f32: exact endpoints under rounding ------------------------------------
fn fin() -> f32 { let x: f32 = kani::any(); kani::assume(x.is_finite()); x }
/// K: fns=Vec3::lerp_unclamped_precise | inst=Vec3<f32> | bound=all finite components; scalar factors 0 and 1 | stubs=f32::mul_add -> contract (exact where the product is exact)
/// K: asserts=the inherent precise form returns `from` exactly at 0 and `to` exactly at 1
#[kani::proof]
#[kani::stub(f32::mul_add, crate::fstub::fma32_contract)]
fn c12_q_vec3_f32_precise_endpoints() {
    use vek::vec::repr_c::Vec3;
    let (a, b) = (Vec3::new(fin(), fin(), fin()), Vec3::new(fin(), fin(), fin()));
    kani::cover!(a.x > 1.0e30 && b.x < -1.0e30, "huge endpoints of opposite sign");
    kani::cover!(a.y != b.y && b.y.abs() < 1.0e-38, "subnormal endpoint");
    assert!(Vec3::lerp_unclamped_precise(a, b, 1.0f32) == b, "inherent, scalar factor 1");
    assert!(Vec3::lerp_unclamped_precise(a, b, 0.0f32) == a, "inherent, scalar factor 0");
}
/// K: fns=Vec3::lerp_unclamped_precise,Vec3::lerp_precise,<Vec3 as Lerp<f32>>::lerp_unclamped_precise,<&Vec3 as Lerp<f32>>::lerp_unclamped_precise | inst=Vec3<f32> | bound=all finite components; per-element factor in {0,1}^3, clamped form at 2 and -1, trait forms at 0 and 1 | stubs=f32::mul_add -> contract
/// K: asserts=per-element factor picks `from`/`to` per lane exactly; clamped form saturates; Lerp<f32> impls (by value and by reference) return the endpoints exactly
#[kani::proof]
#[kani::stub(f32::mul_add, crate::fstub::fma32_contract)]
fn c12_q_vec3_f32_precise_forms() {
    use vek::vec::repr_c::Vec3;
    let (a, b) = (Vec3::new(fin(), fin(), fin()), Vec3::new(fin(), fin(), fin()));
    kani::cover!(a.z != b.z, "distinct endpoints");
    match kani::any::<u8>() % 3 {
        0 => assert!(Vec3::lerp_unclamped_precise(a, b, Vec3::new(0.0f32, 1.0, 0.0)) == Vec3::new(a.x, b.y, a.z), "inherent, per-element factor"),
        1 => assert!(Vec3::lerp_precise(a, b, 2.0f32) == b && Vec3::lerp_precise(a, b, -1.0f32) == a, "inherent, clamped"),
        _ => assert!(<Vec3<f32> as Lerp<f32>>::lerp_unclamped_precise(a, b, 1.0) == b && <&Vec3<f32> as Lerp<f32>>::lerp_unclamped_precise(&a, &b, 0.0) == a, "Lerp<f32>, by value and by reference"),
    }
}
/// K: fns=Vec2::lerp_unclamped_precise,Rgba::lerp_unclamped_precise,Quaternion::lerp_unclamped_precise_unnormalized,Quaternion::lerp_precise_unnormalized | inst=Vec2/Rgba/Quaternion<f32> | bound=all finite components; factors 0, 1 (and 3, -3 for the clamped quaternion form) | stubs=f32::mul_add -> contract
/// K: asserts=the precise forms return `from` exactly at 0 and `to` exactly at 1
#[kani::proof]
#[kani::stub(f32::mul_add, crate::fstub::fma32_contract)]
fn c12_q_vec_other_f32_precise_endpoints() {
    use vek::quaternion::repr_c::Quaternion;
    use vek::vec::repr_c::{Rgba, Vec2};
    match kani::any::<u8>() % 3 {
        0 => {
            let (a, b) = (Vec2::new(fin(), fin()), Vec2::new(fin(), fin()));
            kani::cover!(a.x != b.x, "distinct endpoints");
            assert!(Vec2::lerp_unclamped_precise(a, b, 0.0f32) == a && Vec2::lerp_unclamped_precise(a, b, 1.0f32) == b);
        }
        1 => {
            let (a, b) = (Rgba::new(fin(), fin(), fin(), fin()), Rgba::new(fin(), fin(), fin(), fin()));
            assert!(Rgba::lerp_unclamped_precise(a, b, 0.0f32) == a && Rgba::lerp_unclamped_precise(a, b, 1.0f32) == b);
        }
        _ => {
            let (a, b) = (Quaternion::from_xyzw(fin(), fin(), fin(), fin()), Quaternion::from_xyzw(fin(), fin(), fin(), fin()));
            assert!(Quaternion::lerp_unclamped_precise_unnormalized(a, b, 0.0) == a && Quaternion::lerp_unclamped_precise_unnormalized(a, b, 1.0) == b);
            assert!(Quaternion::lerp_precise_unnormalized(a, b, 3.0) == b && Quaternion::lerp_precise_unnormalized(a, b, -3.0) == a);
        }
    }
}

// ---- integer precise form: every endpoint the factor type represents exactly ------------------------------------
/// K: fns=i32::lerp_unclamped_precise,i32::lerp_precise,<&i32>::lerp_unclamped_precise,i32::lerp_unclamped (Lerp<f32>) | inst=i32, factor f32 | bound=ALL endpoints with |x| <= 2^24 (every one of them is an f32); factors 0, 1, and outside [0,1] for the clamped form
/// K: asserts=precise form returns the endpoints themselves (rounding to nearest of an integer-valued float is the identity, also for the odd values just below 2^24); fast form at 0; no panic
#[kani::proof]
fn c12_q_i32_precise_endpoints_f32() {
    let (a, b): (i32, i32) = (kani::any(), kani::any());
    kani::assume(a >= -16777216 && a <= 16777216 && b >= -16777216 && b <= 16777216);
    kani::cover!(a == 16777215 && b == -16777215, "odd endpoints next to 2^24");
    kani::cover!(b < a, "to < from");
    assert!(<i32 as Lerp<f32>>::lerp_unclamped_precise(a, b, 0.0) == a, "precise at 0");
    assert!(<i32 as Lerp<f32>>::lerp_unclamped_precise(a, b, 1.0) == b, "precise at 1");
    assert!(<&i32 as Lerp<f32>>::lerp_unclamped_precise(&a, &b, 1.0) == b, "precise at 1 by reference");
    assert!(<i32 as Lerp<f32>>::lerp_precise(a, b, 2.5) == b && <i32 as Lerp<f32>>::lerp_precise(a, b, -0.5) == a, "clamped precise form");
    assert!(<i32 as Lerp<f32>>::lerp_unclamped(a, b, 0.0) == a, "fast at 0");
}
/// K: fns=i64::lerp_unclamped_precise,i64::lerp_precise,u64::lerp_unclamped_precise (Lerp<f64>) | inst=i64,u64, factor f64 | bound=ALL endpoints with |x| <= 2^53 (every one of them is an f64); factors 0, 1, and outside [0,1] for the clamped form | cap=600
/// K: asserts=precise form returns the endpoints themselves, also for the odd values just below 2^53; no panic
#[kani::proof]
fn c12_q_i64_precise_endpoints_f64() {
    let (a, b): (i64, i64) = (kani::any(), kani::any());
    let lim: i64 = 1 << 53;
    kani::assume(a >= -lim && a <= lim && b >= -lim && b <= lim);
    kani::cover!(a == lim - 1 && b == 1 - lim, "odd endpoints next to 2^53");
    assert!(<i64 as Lerp<f64>>::lerp_unclamped_precise(a, b, 0.0) == a, "precise at 0");
    assert!(<i64 as Lerp<f64>>::lerp_unclamped_precise(a, b, 1.0) == b, "precise at 1");
    assert!(<i64 as Lerp<f64>>::lerp_precise(a, b, 2.5) == b && <i64 as Lerp<f64>>::lerp_precise(a, b, -0.5) == a, "clamped precise form");
    if a >= 0 && b >= 0 {
        let (ua, ub) = (a as u64, b as u64);
        assert!(<u64 as Lerp<f64>>::lerp_unclamped_precise(ua, ub, 1.0) == ub && <u64 as Lerp<f64>>::lerp_unclamped_precise(ua, ub, 0.0) == ua, "u64");
    }
}
