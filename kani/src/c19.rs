//! C19 (K part) — 4-lane shuffles for ALL index tuples in usize^4, ColorComponent::full().
//! Metadata format: see c17.rs.

use core::num::Wrapping;
use vek::ops::ColorComponent;
use vek::vec::repr_c::{Rgb, Rgba, Vec4};
use vek::vec::ShuffleMask4;

macro_rules! shuffle_body {
    ($V:ident, [$x:ident, $y:ident, $z:ident, $w:ident]) => {{
        let lo = $V::<u8> { $x: kani::any(), $y: kani::any(), $z: kani::any(), $w: kani::any() };
        let hi = $V::<u8> { $x: kani::any(), $y: kani::any(), $z: kani::any(), $w: kani::any() };
        let (a, b, c, d): (usize, usize, usize, usize) = (kani::any(), kani::any(), kani::any(), kani::any());
        let l = [lo.$x, lo.$y, lo.$z, lo.$w];
        let h = [hi.$x, hi.$y, hi.$z, hi.$w];
        kani::cover!(a > 1000 && b == 7 && c == usize::MAX && d == 2, "out-of-range indices");
        kani::cover!(l[0] != l[1] && l[1] != l[2] && l[2] != l[3] && h[0] != l[0], "distinct lanes");
        let want = (l[a & 3], l[b & 3], h[c & 3], h[d & 3]);
        let r = $V::shuffle_lo_hi(lo, hi, (a, b, c, d));
        assert!((r.$x, r.$y, r.$z, r.$w) == want, "tuple mask");
        let r = $V::shuffle_lo_hi(lo, hi, [a, b, c, d]);
        assert!((r.$x, r.$y, r.$z, r.$w) == want, "array mask");
        let r = $V::shuffle_lo_hi(lo, hi, ShuffleMask4::new(a, b, c, d));
        assert!((r.$x, r.$y, r.$z, r.$w) == want, "ShuffleMask4::new");
        let r = $V::shuffle_lo_hi(lo, hi, a);
        assert!((r.$x, r.$y, r.$z, r.$w) == (l[a & 3], l[a & 3], h[a & 3], h[a & 3]), "broadcast index mask");
        let r = lo.shuffled((a, b, c, d));
        assert!((r.$x, r.$y, r.$z, r.$w) == (l[a & 3], l[b & 3], l[c & 3], l[d & 3]), "shuffled = shuffle_lo_hi(self, self)");
        assert!(ShuffleMask4::new(a, b, c, d).to_indices() == (a & 3, b & 3, c & 3, d & 3), "to_indices");
        assert!(ShuffleMask4::from((a, b, c, d)) == ShuffleMask4::new(a, b, c, d));
        assert!(ShuffleMask4::from([a, b, c, d]) == ShuffleMask4::new(a, b, c, d));
        assert!(ShuffleMask4::from(a) == ShuffleMask4::new(a, a, a, a));
        // the fixed-pattern helpers follow their lane diagrams
        let r = $V::shuffle_lo_hi_0101(lo, hi);
        assert!((r.$x, r.$y, r.$z, r.$w) == (l[0], l[1], h[0], h[1]));
        let r = $V::shuffle_hi_lo_2323(lo, hi);
        assert!((r.$x, r.$y, r.$z, r.$w) == (h[2], h[3], l[2], l[3]));
        let r = $V::interleave_0011(lo, hi);
        assert!((r.$x, r.$y, r.$z, r.$w) == (l[0], h[0], l[1], h[1]));
        let r = $V::interleave_2233(lo, hi);
        assert!((r.$x, r.$y, r.$z, r.$w) == (l[2], h[2], l[3], h[3]));
    }};
}
/// K: fns=Vec4::shuffle_lo_hi,Vec4::shuffled,ShuffleMask4::new,ShuffleMask4::from,ShuffleMask4::to_indices,Vec4::shuffle_lo_hi_0101,Vec4::shuffle_hi_lo_2323,Vec4::interleave_0011,Vec4::interleave_2233
/// K: inst=Vec4<u8> | bound=ALL (a,b,c,d) in usize^4 (hence all 256 masks and out-of-range indices), arbitrary lane bytes; unwind 6
/// K: asserts=result lanes = (lo[a&3], lo[b&3], hi[c&3], hi[d&3]) for tuple/array/mask/broadcast mask forms; to_indices = indices mod 4; fixed helpers match their lane diagrams
#[kani::proof]
#[kani::unwind(6)]
fn c19_q_shuffle_vec4() { shuffle_body!(Vec4, [x, y, z, w]) }
/// K: fns=Rgba::shuffle_lo_hi,Rgba::shuffled,ShuffleMask4::new,ShuffleMask4::from,ShuffleMask4::to_indices,Rgba::shuffle_lo_hi_0101,Rgba::shuffle_hi_lo_2323,Rgba::interleave_0011,Rgba::interleave_2233
/// K: inst=Rgba<u8> | bound=ALL (a,b,c,d) in usize^4, arbitrary lane bytes; unwind 6
/// K: asserts=result lanes = (lo[a&3], lo[b&3], hi[c&3], hi[d&3]) for tuple/array/mask/broadcast mask forms; to_indices = indices mod 4; fixed helpers match their lane diagrams
#[kani::proof]
#[kani::unwind(6)]
fn c19_q_shuffle_rgba() { shuffle_body!(Rgba, [r, g, b, a]) }

/// K: fns=ColorComponent::full | inst=f32,f64,u8,u16,u32,u64,i8,i16,i32,i64 and the Wrapping forms of the 8 integer types
/// K: bound=no input (constants), 18 implementing types | asserts=full() = MAX for integers (and Wrapping(MAX)), 1.0 for floats
#[kani::proof]
fn c19_q_color_component_full() {
    let sel: u8 = kani::any();
    kani::cover!(sel == 17);
    assert!(<f32 as ColorComponent>::full() == 1.0f32);
    assert!(<f64 as ColorComponent>::full() == 1.0f64);
    assert!(<u8 as ColorComponent>::full() == u8::MAX);
    assert!(<u16 as ColorComponent>::full() == u16::MAX);
    assert!(<u32 as ColorComponent>::full() == u32::MAX);
    assert!(<u64 as ColorComponent>::full() == u64::MAX);
    assert!(<i8 as ColorComponent>::full() == i8::MAX);
    assert!(<i16 as ColorComponent>::full() == i16::MAX);
    assert!(<i32 as ColorComponent>::full() == i32::MAX);
    assert!(<i64 as ColorComponent>::full() == i64::MAX);
    assert!(<Wrapping<u8> as ColorComponent>::full() == Wrapping(u8::MAX));
    assert!(<Wrapping<u16> as ColorComponent>::full() == Wrapping(u16::MAX));
    assert!(<Wrapping<u32> as ColorComponent>::full() == Wrapping(u32::MAX));
    assert!(<Wrapping<u64> as ColorComponent>::full() == Wrapping(u64::MAX));
    assert!(<Wrapping<i8> as ColorComponent>::full() == Wrapping(i8::MAX));
    assert!(<Wrapping<i16> as ColorComponent>::full() == Wrapping(i16::MAX));
    assert!(<Wrapping<i32> as ColorComponent>::full() == Wrapping(i32::MAX));
    assert!(<Wrapping<i64> as ColorComponent>::full() == Wrapping(i64::MAX));
}

// ---- colour helpers at the concrete component types (machine semantics of `full() - x`) --------------------------
macro_rules! inv_int {
    ($T:ty) => {{
        let (r, g, b, a): ($T, $T, $T, $T) = (kani::any(), kani::any(), kani::any(), kani::any());
        // (a negative signed component has no inverse in the type: MAX - x overflows; outside the claim)
        kani::assume(r >= 0 && g >= 0 && b >= 0);
        let c = Rgba::new(r, g, b, a).inverted_rgb();
        assert!(c.r == <$T>::MAX - r && c.g == <$T>::MAX - g && c.b == <$T>::MAX - b && c.a == a, "Rgba::inverted_rgb = (MAX - r, MAX - g, MAX - b, a)");
        assert!(c.inverted_rgb() == Rgba::new(r, g, b, a), "involution");
        let d = Rgb::new(r, g, b).inverted_rgb();
        assert!(d.r == <$T>::MAX - r && d.g == <$T>::MAX - g && d.b == <$T>::MAX - b, "Rgb::inverted_rgb");
    }};
}
/// K: fns=Rgba::inverted_rgb,Rgb::inverted_rgb,ColorComponent::full | inst=Rgba/Rgb<u8,i8,u16,i16,u32,i32,u64,i64> | bound=ALL component values (signed types: non-negative colour components, any alpha)
/// K: asserts=inverted_rgb is MAX - x per colour component with alpha untouched, and an involution, at every integer component type
#[kani::proof]
fn c19_q_inverted_rgb_ints() {
    let sel: u8 = kani::any();
    kani::cover!(sel % 8 == 1, "a signed type");
    match sel % 8 {
        0 => inv_int!(u8), 1 => inv_int!(i8), 2 => inv_int!(u16), 3 => inv_int!(i16),
        4 => inv_int!(u32), 5 => inv_int!(i32), 6 => inv_int!(u64), _ => inv_int!(i64),
    }
}
/// K: fns=Rgba::inverted_rgb,Rgb::inverted_rgb | inst=Rgba/Rgb<f32> | bound=ALL finite component values
/// K: asserts=inverted_rgb is 1 - x per colour component with alpha untouched
#[kani::proof]
fn c19_q_inverted_rgb_f32() {
    let (r, g, b, a): (f32, f32, f32, f32) = (kani::any(), kani::any(), kani::any(), kani::any());
    kani::assume(r.is_finite() && g.is_finite() && b.is_finite() && !a.is_nan());
    kani::cover!(r > 0.25 && r < 0.75, "ordinary colour");
    let c = Rgba::new(r, g, b, a).inverted_rgb();
    assert!(c.r == 1.0 - r && c.g == 1.0 - g && c.b == 1.0 - b && c.a == a);
    let d = Rgb::new(r, g, b).inverted_rgb();
    assert!(d.r == 1.0 - r && d.g == 1.0 - g && d.b == 1.0 - b);
}
