//! Engine K of /verif: Kani proof harnesses over the real vek code (see /verif/DESIGN.md §2).
//!
//! Harness naming: `cNN_q_<what>` runs in the quick and the thorough tier, `cNN_t_<what>` in the
//! thorough tier only. Every harness carries `/// K:` metadata lines (parsed by
//! /verif/lib/kani_driver.py), at least one `kani::cover!` that must be SATISFIED (vacuity guard),
//! and states its bound. Unwinding assertions stay on.
#![allow(dead_code, unused_comparisons, unused_macros, unused_imports, unused_assignments)]

#[cfg(kani)]
mod tok;
#[cfg(kani)]
mod c17;
#[cfg(kani)]
mod c18;
