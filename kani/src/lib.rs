//! Engine K of /verif: Kani proof harnesses over the real vek code (see /verif/DESIGN.md §2).
//!
//! Harness naming: `cNN_q_<what>` runs in the quick and the thorough tier, `cNN_t_<what>` in the
//! thorough tier only. Every harness carries `/// K:` metadata lines (parsed by
//! /verif/lib/kani_driver.py), at least one `kani::cover!` that must be SATISFIED (vacuity guard),
//! and states its bound. Unwinding assertions stay on. Harnesses sit at the top level of their
//! module file (the driver appends concrete-playback tests at the end of that file).
#![allow(dead_code, unused_comparisons, unused_macros, unused_imports, unused_assignments)]

#[cfg(kani)]
mod tok;
#[cfg(kani)]
mod fstub;
#[cfg(kani)]
mod c02;
#[cfg(kani)]
mod c03;
#[cfg(kani)]
mod c11;
#[cfg(kani)]
mod c12;
#[cfg(kani)]
mod c13;
#[cfg(kani)]
mod c15;
#[cfg(kani)]
mod c17;
#[cfg(kani)]
mod c18;
#[cfg(kani)]
mod c19;
#[cfg(kani)]
mod c20;
