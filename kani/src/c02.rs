//! C02 (K part) — what exists only for primitive element types: boolean reductions, bit reductions,
//! `scalar ∘ Vec` for primitive left operands, Vec64<u8> bit operators with a symbolic lane index.
//! Metadata format: see c17.rs.

use core::num::Wrapping;
use vek::vec::repr_c::{Extent2, Extent3, Rgb, Rgba, Uv, Uvw, Vec16, Vec2, Vec3, Vec32, Vec4, Vec64, Vec8};

/// reduce_and / reduce_or for an element type where "true" means non-zero.
macro_rules! reduce_bool_body {
    ($V:ident, $T:ty, [$($f:tt),+], |$x:ident| $nz:expr, $mk:expr) => {{
        let v = $V::<$T> { $($f: $mk),+ };
        let nz = |$x: $T| -> bool { $nz };
        let all = true $(&& nz(v.$f))+;
        let any = false $(|| nz(v.$f))+;
        kani::cover!(any && !all, "mixed");
        assert!(v.reduce_and() == all, "reduce_and = every element non-zero");
        assert!(v.reduce_or() == any, "reduce_or = some element non-zero");
    }};
}
/// K: fns=Vec2::reduce_and,Vec2::reduce_or + same on Vec3,Vec4,Rgba,Extent3 | inst=bool,i8,u8,i16,u16,i32,u32,i64,u64 | bound=all element values
/// K: asserts=reduce_and = AND over elements of (element != 0); reduce_or = OR
#[kani::proof]
fn c02_q_reduce_bool_ints() {
    match kani::any::<u8>() % 9 {
        0 => reduce_bool_body!(Vec4, bool, [x, y, z, w], |b| b, kani::any()),
        1 => reduce_bool_body!(Vec2, i8, [x, y], |b| b != 0, kani::any()),
        2 => reduce_bool_body!(Vec3, u8, [x, y, z], |b| b != 0, kani::any()),
        3 => reduce_bool_body!(Vec4, i16, [x, y, z, w], |b| b != 0, kani::any()),
        4 => reduce_bool_body!(Rgba, u16, [r, g, b, a], |b| b != 0, kani::any()),
        5 => reduce_bool_body!(Extent3, i32, [w, h, d], |b| b != 0, kani::any()),
        6 => reduce_bool_body!(Vec3, u32, [x, y, z], |b| b != 0, kani::any()),
        7 => reduce_bool_body!(Vec2, i64, [x, y], |b| b != 0, kani::any()),
        _ => reduce_bool_body!(Vec4, u64, [x, y, z, w], |b| b != 0, kani::any()),
    }
}
/// K: fns=Vec2::reduce_and,Vec2::reduce_or + same on Vec3,Vec4,Rgb,Uv,Uvw,Extent2 | inst=Wrapping<i8>,Wrapping<u8>,Wrapping<i32>,Wrapping<u64>,f32,f64 | bound=all element values incl. NaN, -0.0
/// K: asserts=reduce_and = AND over elements of (element != 0); reduce_or = OR (floats: -0.0 is zero, NaN is non-zero)
#[kani::proof]
fn c02_q_reduce_bool_wrapping_floats() {
    match kani::any::<u8>() % 7 {
        0 => reduce_bool_body!(Vec4, Wrapping<i8>, [x, y, z, w], |b| b.0 != 0, Wrapping(kani::any())),
        1 => reduce_bool_body!(Rgb, Wrapping<u8>, [r, g, b], |b| b.0 != 0, Wrapping(kani::any())),
        2 => reduce_bool_body!(Uv, Wrapping<i32>, [u, v], |b| b.0 != 0, Wrapping(kani::any())),
        3 => reduce_bool_body!(Uvw, Wrapping<u64>, [u, v, w], |b| b.0 != 0, Wrapping(kani::any())),
        4 => reduce_bool_body!(Vec4, f32, [x, y, z, w], |b| b != 0.0, kani::any()),
        5 => reduce_bool_body!(Extent2, f64, [w, h], |b| b != 0.0, kani::any()),
        _ => reduce_bool_body!(Vec3, f32, [x, y, z], |b| b != 0.0, kani::any()),
    }
}
macro_rules! ids8 { ($m:ident $(, $a:tt)*) => { $m!($($a,)* 0, 1, 2, 3, 4, 5, 6, 7) } }
macro_rules! ids16 { ($m:ident $(, $a:tt)*) => { $m!($($a,)* 0, 1, 2, 3, 4, 5, 6, 7, 8, 9, 10, 11, 12, 13, 14, 15) } }
macro_rules! ids32 { ($m:ident $(, $a:tt)*) => { $m!($($a,)* 0, 1, 2, 3, 4, 5, 6, 7, 8, 9, 10, 11, 12, 13, 14, 15,
    16, 17, 18, 19, 20, 21, 22, 23, 24, 25, 26, 27, 28, 29, 30, 31) } }
macro_rules! ids64 { ($m:ident $(, $a:tt)*) => { $m!($($a,)* 0, 1, 2, 3, 4, 5, 6, 7, 8, 9, 10, 11, 12, 13, 14, 15,
    16, 17, 18, 19, 20, 21, 22, 23, 24, 25, 26, 27, 28, 29, 30, 31, 32, 33, 34, 35, 36, 37, 38, 39, 40, 41, 42, 43, 44, 45, 46, 47,
    48, 49, 50, 51, 52, 53, 54, 55, 56, 57, 58, 59, 60, 61, 62, 63) } }
macro_rules! reduce_big { ($V:ident, $($id:tt),+) => {{
    reduce_bool_body!($V, u8, [$($id),+], |b| b != 0, kani::any());
    reduce_bits_body!($V, [$($id),+]);
}} }

/// reduce_bitand / reduce_bitor / reduce_bitxor on u8.
macro_rules! reduce_bits_body {
    ($V:ident, [$($f:tt),+]) => {{
        let v = $V::<u8> { $($f: kani::any()),+ };
        let (mut a, mut o, mut x) = (0xffu8, 0u8, 0u8);
        $( a &= v.$f; o |= v.$f; x ^= v.$f; )+
        kani::cover!(a != 0 && x != 0 && o != 0xff, "non-trivial bits");
        assert!(v.reduce_bitand() == a);
        assert!(v.reduce_bitor() == o);
        assert!(v.reduce_bitxor() == x);
    }};
}
/// K: fns=reduce_bitand,reduce_bitor,reduce_bitxor on Vec2,Vec3,Vec4,Extent2,Extent3,Rgb,Rgba,Uv,Uvw,Vec8 | inst=u8 | bound=all element bytes
/// K: asserts=equal to the fold of &, |, ^ over all elements
#[kani::proof]
fn c02_q_reduce_bits_u8() {
    match kani::any::<u8>() % 10 {
        0 => reduce_bits_body!(Vec2, [x, y]),
        1 => reduce_bits_body!(Vec3, [x, y, z]),
        2 => reduce_bits_body!(Vec4, [x, y, z, w]),
        3 => reduce_bits_body!(Extent2, [w, h]),
        4 => reduce_bits_body!(Extent3, [w, h, d]),
        5 => reduce_bits_body!(Rgb, [r, g, b]),
        6 => reduce_bits_body!(Rgba, [r, g, b, a]),
        7 => reduce_bits_body!(Uv, [u, v]),
        8 => reduce_bits_body!(Uvw, [u, v, w]),
        _ => reduce_bits_body!(Vec8, [0, 1, 2, 3, 4, 5, 6, 7]),
    }
}
/// K: fns=Vec8::reduce_and,Vec8::reduce_or,Vec16::reduce_and,Vec16::reduce_or,Vec16::reduce_bitand,Vec16::reduce_bitor,Vec16::reduce_bitxor | inst=Vec8<u8>,Vec16<u8> | bound=all element bytes
/// K: asserts=boolean reductions = AND/OR of (element != 0); bit reductions = fold of &, |, ^
#[kani::proof]
fn c02_q_reduce_vec8_vec16() {
    if kani::any() { ids8!(reduce_big, Vec8) } else { ids16!(reduce_big, Vec16) }
}
/// K: fns=Vec32::reduce_and,Vec32::reduce_or,Vec32::reduce_bitand,Vec32::reduce_bitor,Vec32::reduce_bitxor + same on Vec64 | inst=Vec32<u8>,Vec64<u8> | bound=all element bytes
/// K: asserts=boolean reductions = AND/OR of (element != 0); bit reductions = fold of &, |, ^
#[kani::proof]
fn c02_t_reduce_vec32_vec64() {
    if kani::any() { ids32!(reduce_big, Vec32) } else { ids64!(reduce_big, Vec64) }
}

/// `s + v` and `s * v` for a primitive integer left operand: lane i = v_i op s (the impl forwards to
/// `v op s`), whenever no lane overflows (dev profile: an overflow is a panic in both forms).
macro_rules! scalar_lhs_int {
    ($V:ident, $T:ty, [$($f:tt),+]) => {{
        let v = $V::<$T> { $($f: kani::any()),+ };
        let s: $T = kani::any();
        kani::assume(true $(&& v.$f.checked_add(s).is_some())+);
        kani::cover!(s != 0 && v.x != s, "non-trivial operands");
        let r = s + v;
        $( assert!(r.$f == v.$f + s); )+
        // multiplication: concrete scalar (a symbolic x symbolic product at 32/64 bits is out of reach)
        kani::assume(true $(&& v.$f.checked_mul(3).is_some())+);
        let r = (3 as $T) * v;
        $( assert!(r.$f == v.$f * 3); )+
    }};
}
/// K: fns=i8+Vec,i8*Vec,u8+Vec,u8*Vec,i16+Vec,i16*Vec,u16+Vec,u16*Vec,i32+Vec,i32*Vec,u32+Vec,u32*Vec,i64+Vec,i64*Vec,u64+Vec,u64*Vec (Add<Vec<T>> for T, Mul<Vec<T>> for T)
/// K: inst=the 8 primitive integer left operands on Vec2/Vec3/Vec4 | bound=Add: all operands without lane overflow; Mul: symbolic vector x the concrete scalar 3 without lane overflow
/// K: asserts=lane i of `s op v` = v_i op s
#[kani::proof]
fn c02_q_scalar_lhs_ints() {
    match kani::any::<u8>() % 8 {
        0 => scalar_lhs_int!(Vec2, i8, [x, y]),
        1 => scalar_lhs_int!(Vec3, u8, [x, y, z]),
        2 => scalar_lhs_int!(Vec4, i16, [x, y, z, w]),
        3 => scalar_lhs_int!(Vec2, u16, [x, y]),
        4 => scalar_lhs_int!(Vec3, i32, [x, y, z]),
        5 => scalar_lhs_int!(Vec4, u32, [x, y, z, w]),
        6 => scalar_lhs_int!(Vec2, i64, [x, y]),
        _ => scalar_lhs_int!(Vec3, u64, [x, y, z]),
    }
}
macro_rules! scalar_lhs_float {
    ($V:ident, $T:ty, [$($f:tt),+]) => {{
        let v = $V::<$T> { $($f: kani::any()),+ };
        kani::assume(true $(&& v.$f.is_finite())+);
        kani::cover!(v.x != v.y && v.x > 1.0e10);
        let r = (2.5 as $T) + v;
        $( assert!(r.$f.to_bits() == (v.$f + 2.5).to_bits()); )+
        let r = (-3.0 as $T) * v;
        $( assert!(r.$f.to_bits() == (v.$f * -3.0).to_bits()); )+
    }};
}
/// K: fns=f32+Vec,f32*Vec,f64+Vec,f64*Vec (Add<Vec<T>> for T, Mul<Vec<T>> for T) | inst=f32 on Vec3, f64 on Vec2
/// K: bound=all finite lane values x the concrete scalars 2.5 (Add) and -3.0 (Mul); a symbolic float factor is out of reach
/// K: asserts=lane i of `s op v` is bit-identical to v_i op s
#[kani::proof]
fn c02_q_scalar_lhs_floats() {
    if kani::any() { scalar_lhs_float!(Vec3, f32, [x, y, z]) } else { scalar_lhs_float!(Vec2, f64, [x, y]) }
}

/// K: fns=Vec64::bitxor,Vec64::bitand,Vec64::bitor,Vec64::not,Vec64::shl,Vec64::reduce_bitor | inst=Vec64<u8> | bound=all 2x64 bytes, symbolic lane index; unwind 66
/// K: asserts=lane i of a^b, a&b, a|b, !a is the scalar op on lane i; a ^ scalar broadcasts; reduce_bitor = OR of all lanes
#[kani::proof]
#[kani::unwind(66)]
fn c02_t_vec64_bitops_symbolic_lane() {
    let (x, y): ([u8; 64], [u8; 64]) = (kani::any(), kani::any());
    let (a, b) = (Vec64::<u8>::from(x), Vec64::<u8>::from(y));
    let i: usize = kani::any();
    kani::assume(i < 64);
    kani::cover!(i == 63 && x[i] != y[i]);
    let s: u8 = kani::any();
    assert!((a ^ b)[i] == x[i] ^ y[i]);
    assert!((a & b)[i] == x[i] & y[i]);
    assert!((a | b)[i] == x[i] | y[i]);
    assert!((!a)[i] == !x[i]);
    assert!((a ^ s)[i] == x[i] ^ s);
    let mut o = 0u8;
    let mut k = 0;
    while k < 64 { o |= x[k]; k += 1; }
    assert!(a.reduce_bitor() == o);
}
/// K: fns=Vec8::bitxor,Vec8::bitand,Vec8::bitor,Vec8::not,Vec16::bitxor,Vec16::bitand,Vec16::bitor,Vec16::not | inst=Vec8<u8>,Vec16<u8> | bound=all bytes, symbolic lane index; unwind 18
/// K: asserts=lane i of a^b, a&b, a|b, !a is the scalar op on lane i; a ^ scalar broadcasts
#[kani::proof]
#[kani::unwind(18)]
fn c02_q_vec8_vec16_bitops_symbolic_lane() {
    if kani::any() {
        let (x, y): ([u8; 8], [u8; 8]) = (kani::any(), kani::any());
        let (a, b) = (Vec8::<u8>::from(x), Vec8::<u8>::from(y));
        let i: usize = kani::any();
        kani::assume(i < 8);
        kani::cover!(i == 7 && x[i] != y[i]);
        let s: u8 = kani::any();
        assert!((a ^ b)[i] == x[i] ^ y[i] && (a & b)[i] == x[i] & y[i] && (a | b)[i] == x[i] | y[i] && (!a)[i] == !x[i] && (a ^ s)[i] == x[i] ^ s);
    } else {
        let (x, y): ([u8; 16], [u8; 16]) = (kani::any(), kani::any());
        let (a, b) = (Vec16::<u8>::from(x), Vec16::<u8>::from(y));
        let i: usize = kani::any();
        kani::assume(i < 16);
        kani::cover!(i == 15 && x[i] != y[i]);
        let s: u8 = kani::any();
        assert!((a ^ b)[i] == x[i] ^ y[i] && (a & b)[i] == x[i] & y[i] && (a | b)[i] == x[i] | y[i] && (!a)[i] == !x[i] && (a ^ s)[i] == x[i] ^ s);
    }
}
