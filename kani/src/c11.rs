//! C11 (K part) — IEEE-754 level checks of the generic spatial-vector code at `f32`.
//!
//! Engine S proves the exact-real semantics of this code; these harnesses add what exact reals cannot
//! see: a result that is in range over the reals but not after rounding (the cosine handed to `acos`
//! landing a few ulps outside [-1,1], a unit vector's length drifting). All finite inputs inside the
//! stated magnitude window are symbolic (no sampling); CBMC bit-blasts the float operations.
//!
//! libm functions Kani cannot model are replaced by **contract stubs** (`-Z stubbing`): `acos` is
//! defined exactly on [-1,1] with values in [0,pi] and is NaN outside — so "the argument the code hands
//! to acos is inside its domain for every input" is decided, not sampled. Every stub is listed in the
//! harness metadata. Metadata format: see c17.rs.

use vek::vec::repr_c::{Vec2, Vec3, Vec4};

/// contract of `acos`: defined on [-1, 1] with a value in [0, pi]; NaN elsewhere (incl. NaN input)
pub fn acos_contract(x: f32) -> f32 {
    if x >= -1.0 && x <= 1.0 {
        let r: f32 = kani::any();
        kani::assume(r >= 0.0 && r <= core::f32::consts::PI);
        r
    } else {
        f32::NAN
    }
}
fn within(x: f32, lo: f32, hi: f32) -> bool { x.abs() >= lo && x.abs() <= hi }
fn any_in(lo: f32, hi: f32) -> f32 { let x: f32 = kani::any(); kani::assume(within(x, lo, hi)); x }

/// K: fns=Vec2::angle_between,Vec2::normalized,Vec2::dot,Clamp::clamped_minus1_1 | inst=Vec2<f32> | bound=all finite components with 2^-40 <= |c| <= 2^40 (80 binades: an intermediate that squares a squared magnitude leaves the f32 range inside this window); the two operands are the same vector (exactly parallel: the cosine is 1 up to rounding) | stubs=f32::acos -> contract (domain [-1,1], range [0,pi]) | cap=600
/// K: asserts=angle_between(v, v) is a number in [0, pi], never NaN: the argument handed to acos stays inside its domain under rounding
#[kani::proof]
#[kani::stub(f32::acos, acos_contract)]
fn c11_q_angle_between_f32_parallel() {
    let a: Vec2<f32> = Vec2::new(any_in(9.094947017729282e-13, 1099511627776.0), any_in(9.094947017729282e-13, 1099511627776.0));
    let r = a.angle_between(a);
    kani::cover!(a.x != a.y && a.x < 0.0, "generic operand");
    assert!(!r.is_nan(), "angle_between returned NaN");
    assert!(r >= 0.0 && r <= core::f32::consts::PI);
}
/// K: fns=Vec2::angle_between,Vec2::normalized,Vec2::dot,Clamp::clamped_minus1_1 | inst=Vec2<f32> | bound=all pairs of vectors with finite components, 1/4 <= |c| <= 4 | stubs=f32::acos -> contract (domain [-1,1], range [0,pi]) | cap=600
/// K: asserts=angle_between(a, b) is a number in [0, pi], never NaN, for every pair in the window
#[kani::proof]
#[kani::stub(f32::acos, acos_contract)]
fn c11_q_angle_between_f32() {
    let a: Vec2<f32> = Vec2::new(any_in(0.25, 4.0), any_in(0.25, 4.0));
    let b: Vec2<f32> = Vec2::new(any_in(0.25, 4.0), any_in(0.25, 4.0));
    let r = a.angle_between(b);
    kani::cover!(a.x != b.x && a.y != b.y, "distinct operands");
    assert!(!r.is_nan(), "angle_between returned NaN");
    assert!(r >= 0.0 && r <= core::f32::consts::PI);
}
/// K: fns=Vec3::angle_between,Vec3::normalized,Vec3::dot,Clamp::clamped_minus1_1 | inst=Vec3<f32> | bound=all pairs of vectors with finite components, 1/4 <= |c| <= 4 | stubs=f32::acos -> contract (domain [-1,1], range [0,pi]) | cap=900
/// K: asserts=angle_between(a, b) is a number in [0, pi], never NaN, for every pair in the window
#[kani::proof]
#[kani::stub(f32::acos, acos_contract)]
fn c11_t_angle_between_f32_vec3() {
    let a: Vec3<f32> = Vec3::new(any_in(0.25, 4.0), any_in(0.25, 4.0), any_in(0.25, 4.0));
    let b: Vec3<f32> = Vec3::new(any_in(0.25, 4.0), any_in(0.25, 4.0), any_in(0.25, 4.0));
    let r = a.angle_between(b);
    kani::cover!(a.x != b.x && a.z != b.z, "distinct operands");
    assert!(!r.is_nan(), "angle_between returned NaN");
    assert!(r >= 0.0 && r <= core::f32::consts::PI);
}
/// K: fns=Vec4::angle_between,Vec4::normalized,Vec4::dot,Clamp::clamped_minus1_1 | inst=Vec4<f32> | bound=v against itself, all finite components with 1/4 <= |c| <= 4 | stubs=f32::acos -> contract | cap=900
/// K: asserts=angle_between(v, v) is a number in [0, pi], never NaN
#[kani::proof]
#[kani::stub(f32::acos, acos_contract)]
fn c11_t_angle_between_f32_vec4_parallel() {
    let a: Vec4<f32> = Vec4::new(any_in(0.25, 4.0), any_in(0.25, 4.0), any_in(0.25, 4.0), any_in(0.25, 4.0));
    let r = a.angle_between(a);
    kani::cover!(a.x != a.w, "generic operand");
    assert!(!r.is_nan(), "angle_between returned NaN");
    assert!(r >= 0.0 && r <= core::f32::consts::PI);
}

// ---- the cosine itself -----------------------------------------------------------------------------------------
// The harnesses above see only that the argument of acos is in its domain. These capture the argument: for
// structured pairs (the same vector, its negation, its quarter turn) the exact cosine is known to be 1, -1, 0 whatever
// the magnitude, so an intermediate that overflows or underflows (a product of squared magnitudes, say) shows as a
// cosine that is not the right one, for every magnitude in a window of 80 binades.
static mut LAST_ACOS_ARG: f32 = 7.0;
pub fn acos_capture(x: f32) -> f32 {
    unsafe { LAST_ACOS_ARG = x; }
    acos_contract(x)
}
fn last_arg() -> f32 { unsafe { LAST_ACOS_ARG } }
const TOL: f32 = 0.00000095367431640625; // 2^-20

/// a float with an 8-bit significand and a free exponent: m * 2^e for every non-zero signed byte m and every e in [-40, 40]
fn coarse() -> f32 {
    let m: i8 = kani::any();
    let e: i8 = kani::any();
    kani::assume(m != 0 && e >= -40 && e <= 40);
    (m as f32) * f32::from_bits(((e as i32 + 127) as u32) << 23)
}
/// K: fns=Vec2::angle_between | inst=Vec2<f32> | bound=axis-aligned operand (x, 0) with x = m*2^e for every non-zero signed byte m and every exponent e in [-40, 40] (a free 24-bit significand does not finish in 5 minutes); the pair (v, v) | stubs=f32::acos -> contract that records its argument
/// K: asserts=the cosine handed to acos is exactly 1 for an axis-aligned vector against itself, at every magnitude in 80 binades (an intermediate that squares a squared magnitude overflows above 2^32)
#[kani::proof]
#[kani::stub(f32::acos, acos_capture)]
fn c11_q_angle_between_f32_axis_cosine() {
    let x: f32 = coarse();
    kani::cover!(x > 1.0e10, "large magnitude");
    kani::cover!(x < -1.0e-10 && x > -1.0e-9, "small magnitude");
    let a = Vec2::new(x, 0.0);
    let _ = a.angle_between(a);
    assert!(last_arg() == 1.0, "cos(v, v) = 1");
}
/// K: fns=Vec2::angle_between,Vec3::angle_between | inst=Vec2<f32>,Vec3<f32> | bound=axis-aligned operands (0, x) against its negation, (0, 0, x) against itself, x = m*2^e as above | stubs=f32::acos -> contract that records its argument | cap=900
/// K: asserts=the cosine handed to acos is exactly -1 / 1
#[kani::proof]
#[kani::stub(f32::acos, acos_capture)]
fn c11_t_angle_between_f32_axis_cosine_more() {
    let x: f32 = coarse();
    kani::cover!(x > 1.0e10, "large magnitude");
    if kani::any() { let a = Vec2::new(0.0, x); let _ = a.angle_between(-a); assert!(last_arg() == -1.0, "cos(v, -v) = -1"); }
    else { let a = Vec3::new(0.0, 0.0, x); let _ = a.angle_between(a); assert!(last_arg() == 1.0, "cos(v, v) = 1 (Vec3)"); }
}
