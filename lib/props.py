"""Per-property configuration of the check driver: which engines decide it, stated bounds, assumptions."""

COMMON_S = [
    "engine S proves the exact-real (or opaque-scalar) semantics of the generic vek source as compiled by rustc: floating-point rounding, NaN, infinities are outside the claim",
    "scalar stubs: term construction with constant folding only (x+0, x*1, x*0, c1 op c2); mul_add(a,b,c) = a*b+c; epsilon() = symbolic EPS with 0 < EPS <= 2^-20; PI symbolic in (3.14159, 3.14160)",
    "approx 0.5 relative_eq/abs_diff_eq/ulps_eq transcribed for the symbolic scalar",
    "divisors met on a path are assumed non-zero unless the scenario checks definedness (then listed as defined#k goals)",
    "atoms sqrt/sin/cos/acos/floor are constrained by sound axioms only (missing axioms can make a goal undecided or sat, never unsat)",
    "a satisfiable goal is reported only after a native run (f64 or exact rational instantiation of the same scenario on the real code) reproduces it",
]
COMMON_K = [
    "engine K: Kani 0.68 / CBMC 6.11 on the MIR of the real code in the dev profile (overflow checks on), unwinding assertions on",
]

PROPS = {
    "C01": {"engines": "S",
            "technique": "symbolic execution of the real Mul/Add/... impls at an exact-real symbolic scalar; each output entry compared with the harness's sum of products as a polynomial identity decided by z3 (QF_NRA), all sizes x layouts x operand forms",
            "level_text": "Bounded symbolic execution + SMT: every entry of every product/operator result is a term built by the real compiled code; the solver shows it equal to the textbook expression for all real inputs. No loop or value bound applies (trip counts are the concrete dimensions 2,3,4).",
            "level_note": "Exact-real semantics of the generic source (mul_add = a*b+c); floating-point rounding and integer overflow of concrete element types are outside the claim. Trusted: rustc, the symbolic scalar's term construction, z3.", "bounds": {"sizes": [2, 3, 4], "layouts": ["row_major", "column_major"], "value_bound": "none (all reals)", "loops": "concrete trip counts only"}, "assumptions": COMMON_S},
    "C06": {"engines": "S",
            "technique": "symbolic execution of the real determinant/inverted/inverted_affine_transform* code at an exact-real scalar; M*inv = inv*M = I, det = Leibniz, det multiplicative as fraction-lifted polynomial identities decided by z3 (QF_NRA); rigid/TRS inputs through a rational parametrisation of SO(3)",
            "level_text": "Bounded symbolic execution + SMT: all 16 entries free reals (det != 0 as the only assumption; the code's single divisor is shown non-zero under it); every entry of M*inv and inv*M is proved equal to the identity for all such inputs; the epsilon-select of the affine inverse forks and every branch is decided.",
            "level_note": "Exact-real semantics; no loop bound applies. Rotations enter through the quaternion parametrisation (covers all of SO(3)); scales with s^2 > EPS. Trusted: rustc, the symbolic scalar, z3.",
            "bounds": {"sizes": [2, 3, 4], "layouts": 2, "det(AB) for 4x4": "thorough tier only", "affine inverse": "scales with s_i^2 > EPS (EPS symbolic in (0, 2^-20])"}, "assumptions": COMMON_S},
    "C04": {"engines": "S",
            "technique": "symbolic execution of the real rotation builders at an exact-real scalar with sin/cos as atoms (s^2+c^2=1, angle-sum/double-angle instances) and the axis norm as a sqrt atom; orthogonality, det=+1, axis fixing, handedness, additivity, Mat3/Mat4/quaternion/Vec2 consistency decided by z3 (QF_NRA)",
            "level_text": "Bounded symbolic execution + SMT: angle and axis are free reals, sin/cos/sqrt enter only through sound axioms, so every discharged goal holds for all angles and all non-zero axes. No loop or value bound.",
            "level_note": "Exact-real semantics; trig atoms axiomatised (Pythagoras, congruence, angle sum, double angle, values at 0). Trusted: rustc, the symbolic scalar, z3.",
            "bounds": {"types": ["Mat2", "Mat3", "Mat4", "Quaternion", "Vec2"], "layouts": 2}, "assumptions": COMMON_S},
    "C08": {"engines": "S",
            "technique": "symbolic execution of the 21 real projection constructors at an exact-real scalar (planes free, tan(fov/2)=sin/cos atoms); the eight view-volume corners, w>0, perspective=frustum and lh=rh*zmirror as fraction-lifted rational identities decided by z3 (QF_NRA); debug_assert paths shown infeasible under the documented preconditions",
            "level_text": "Bounded symbolic execution + SMT: plane values / fov / aspect / near / far are free reals under the stated preconditions; each corner goal is a rational-function identity proved for all of them, each divisor is proved non-zero, each assertion-failure path is proved unreachable. No loop or value bound.",
            "level_note": "Exact-real semantics. Infinite variants: goal is the exact identity depth(d) = (1-eps) - (2-eps) n/d for every d>0. Trusted: rustc, the symbolic scalar, z3.",
            "bounds": {"constructors": 21, "layouts": 2, "preconditions": "l!=r, b!=t, n!=f (ortho); additionally 0<n, 0<f for frustum; 0<fov<PI, aspect>0 (width,height>0), 0<n<f for perspective"}, "assumptions": COMMON_S},
    "C09": {"engines": "S",
            "technique": "symbolic execution of the real look_at/model_look_at/basis builders at an exact-real scalar (two sqrt atoms from normalized()); orthonormality, det=+1, eye/target/up placement, model*view=I, basis round trip as polynomial goals over the radicals decided by z3 (QF_NRA)",
            "level_text": "Bounded symbolic execution + SMT: eye, target, up (9 free reals, eye!=target, up not parallel to the view direction) and origin/basis vectors are symbolic; each goal is proved for all of them; every divisor is proved non-zero under the precondition. No loop or value bound.",
            "level_note": "Exact-real semantics; sqrt via r>=0, r^2=a. Orthonormal bases through the quaternion parametrisation and, separately, under the six orthonormality equations as hypotheses. Trusted: rustc, the symbolic scalar, z3.",
            "bounds": {"layouts": 2, "handedness": ["lh", "rh"]}, "assumptions": COMMON_S},
    "C10": {"engines": "S",
            "technique": "symbolic execution of the real world_to_viewport_*/viewport_to_world_*/picking_region code (including the general 4x4 inverse) at an exact-real scalar; projection formula for free 4x4 pairs, round trip for affine model-view x frustum/orthographic-pattern projections, picking corners, as fraction-lifted rational identities decided by z3 (QF_NRA)",
            "level_text": "Bounded symbolic execution + SMT over all matrix entries, viewport values and points under the stated preconditions (det(P*M)!=0, clip w!=0, viewport size !=0).",
            "level_note": "Round trip claimed for every affine model-view (12 free entries) combined with every projection of the frustum or orthographic sparsity pattern (contains all matrices the constructors return); fully general 4x4 pairs are attempted in the thorough tier only (model-view general, projection identity) and reported undecided when z3 does not finish. Exact-real semantics.",
            "bounds": {"layouts": 2, "flavours": ["no", "zo"], "matrix patterns": "affine x frustum-pattern, affine x orthographic-pattern; general x identity (thorough)"}, "assumptions": COMMON_S},
}
