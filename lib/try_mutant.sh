#!/bin/sh
# lib/try_mutant.sh <PROP> <patch.diff> [tier]  — apply a seeded change to /repo, run the check, undo it.
# Prints the check's verdict lines and "RESULT rc=<n>". /repo is restored in every case.
PROP=$1; PATCH=$2; TIER=${3:-quick}
cd /repo || exit 9
if [ -n "$(git status --porcelain -- src build.rs Cargo.toml)" ]; then echo "/repo is dirty, refusing"; exit 9; fi
git apply "$PATCH" || { echo "patch does not apply"; git checkout -- . ; exit 8; }
cd /verif
timeout ${TRY_TIMEOUT:-1500} ./check $PROP --tier $TIER > .build/try-$PROP.log 2>&1
rc=$?
git -C /repo checkout -- .
grep -E "^(VIOLATION|KNOWN-FINDING|INCONCLUSIVE|ENCODING|VACUOUS|BUILD-FAILURE|SOLVER)" .build/try-$PROP.log | cut -c1-220 | head -8
head -n 1 .build/try-$PROP.log | cut -c1-200
echo "RESULT rc=$rc"
