#!/usr/bin/env python3
"""Regenerate the seeded-change table in DESIGN.md §7 from /verif/seeded/*/meta.json."""
import json, glob, os, re
rows = []
for d in sorted(glob.glob("/verif/seeded/*/")):
    m = json.load(open(d + "meta.json"))
    c = m.get("check", {})
    by = ", ".join(sorted({re.sub(r"-[0-9a-f]{10}\.json$", "", v) for v in c.get("violations", [])}))[:120]
    rows.append("| %s | %s | %s | %s | %s |" % (os.path.basename(d.rstrip("/")), m.get("breaks", "")[:140].replace("|", "/"), m.get("needs", "")[:110].replace("|", "/"), "caught (exit 1)" if c.get("caught") else "**missed** (exit %s)" % c.get("exit"), by))
t = "| id | what it breaks | needs | quick check | reported by (scenario / harness) |\n|---|---|---|---|---|\n" + "\n".join(rows)
p = "/verif/DESIGN.md"
s = open(p).read()
if "SEEDED_TABLE_PLACEHOLDER" in s:
    s = s.replace("SEEDED_TABLE_PLACEHOLDER", "<!-- seeded-table -->\n" + t + "\n<!-- /seeded-table -->")
else:
    s = re.sub(r"<!-- seeded-table -->.*?<!-- /seeded-table -->", "<!-- seeded-table -->\n" + t + "\n<!-- /seeded-table -->", s, flags=re.S)
open(p, "w").write(s)
print(len(rows), "rows")
