"""Engine K driver (filled in later)."""


def warm(log):
    pass


def run(prop, tier, seed, known, log, only=None):
    return {"coverage": {"harnesses_run": 0, "harnesses_passed": 0, "checks_total": 0, "undecided": 0, "samples": []}, "violations": [], "known_hits": [], "nonrepro": []}


def replay(d, log):
    return 0
