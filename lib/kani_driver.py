"""Engine K driver: runs the Kani proof harnesses of /verif/kani against the CURRENT /repo tree.

Contract (used by lib/check.py):
    warm(log)                                  build the harness crate once (exit 2 on failure)
    run(prop, tier, seed, known, log, only)    -> {"coverage", "violations", "known_hits", "nonrepro"}
    replay(d, log)                             re-run a stored counterexample natively; 1 = reproduces

How a run works
  1. the harness table is parsed from /verif/kani/src/*.rs: every `#[kani::proof] fn cNN_[qt]_*` with its
     `/// K: key=value | key=value` metadata lines (fns, inst, bound, asserts, cap, panics) and attributes
     (unwind, should_panic). `cNN_q_*` = quick + thorough tier, `cNN_t_*` = thorough only.
  2. `cargo kani --only-codegen` builds the crate against the path dependency (cargo fingerprints the
     vek sources, so edits in /repo are always rebuilt; no verdict is cached anywhere).
  3. one `cargo kani -j N --output-format terse --exact --harness ...` invocation decides the selected
     harnesses in parallel (CBMC + cadical), with a per-harness timeout; a watchdog kills a cbmc that
     outgrows the memory budget (=> that harness is undecided). Kani's per-assertion reachability
     checks are off (`--no-assertion-reach-checks`: they make CBMC print one full trace per assertion,
     ~0.5 GB of JSON and 25 s for a 100-assertion harness); vacuity is guarded instead by the explicit
     `kani::cover!` witnesses every harness carries, all of which must be SATISFIED.
  4. per harness verdict:
       passed     VERIFICATION:- SUCCESSFUL, every cover property SATISFIED, and (should_panic harnesses)
                  every failed check matches the harness's `panics=` regex
       vacuous    SUCCESSFUL but a cover property is unsatisfiable/unreachable or there is none
       failed     a property check failed (for should_panic: a failed check outside `panics=`,
                  typically the harness's own "K-NOPANIC" marker, or no panic at all)
       undecided  timeout, out of memory, CBMC error, missing output: never counted as a pass
  5. a failed harness is re-run alone with concrete playback; the generated unit tests are appended to a
     scratch copy of the crate and executed natively with `cargo kani playback` (dev profile, overflow
     checks on — Kani's playback forces `-C overflow-checks=on`, so a true release-profile replay is
     not available through it; VERIF_KANI_REPLAY_OPT=1 adds an opt-level-3 run for information).
     Only a natively failing test is reported as a violation;
     otherwise the entry goes to "nonrepro" (check exits 2).
Python 3.11 stdlib only.
"""
import json
import os
import re
import shutil
import signal
import subprocess
import sys
import threading
import time

VERIF = os.path.dirname(os.path.dirname(os.path.abspath(__file__)))
REPO = os.environ.get("VERIF_REPO", "/repo")
BUILD = os.environ.get("VERIF_BUILD", os.path.join(VERIF, ".build"))
OUT = os.environ.get("VERIF_OUT", VERIF)
KANI_DIR = os.environ.get("VERIF_KANI_DIR", os.path.join(VERIF, "kani"))  # override: development copy of the harness crate
JOBS = int(os.environ.get("VERIF_JOBS", "16"))
RSS_LIMIT_GB = float(os.environ.get("VERIF_KANI_RSS_GB", "12"))
MIN_AVAIL_GB = float(os.environ.get("VERIF_KANI_MIN_AVAIL_GB", "5"))
DEFAULT_CAP = {"quick": 300, "thorough": 900}
REPLAY_MAX = int(os.environ.get("VERIF_KANI_REPLAY_MAX", "8"))
KANI_VERSION = "kani 0.68.0 / CBMC 6.11.0 (cadical)"

HARNESS_RE = re.compile(
    r"((?:[ \t]*///[^\n]*\n)*)[ \t]*#\[kani::proof\][ \t]*\n((?:[ \t]*#\[[^\n]*\][ \t]*\n)*)[ \t]*(?:pub )?fn\s+(c(\d\d)_([qt])_\w+)\s*\(")


# ------------------------------------------------------------------------------------------------
# harness table
# ------------------------------------------------------------------------------------------------
def harness_table(crate_dir):
    """Parse the harness sources. Returns a list of dicts in source order."""
    out = []
    src = os.path.join(crate_dir, "src")
    for fn in sorted(os.listdir(src)):
        if not fn.endswith(".rs"):
            continue
        text = open(os.path.join(src, fn)).read()
        module = fn[:-3]
        declared = set(re.findall(r"\bfn\s+(c\d\d_[qt]_\w+)\s*\(", text))
        seen = set()
        for m in HARNESS_RE.finditer(text):
            doc, attrs, name, nn, tier = m.groups()
            meta = {}
            klines = [l.strip()[3:].strip() for l in doc.splitlines() if l.strip().startswith("/// K:")]
            for part in " | ".join(l[2:].strip() for l in klines).split(" | "):
                if "=" in part:
                    k, v = part.split("=", 1)
                    meta[k.strip()] = v.strip()
            uw = re.search(r"kani::unwind\((\d+)\)", attrs)
            h = {
                "name": name,
                "module": module,
                "full": "%s::%s" % (module, name),
                "prop": "C" + nn,
                "tier": "quick" if tier == "q" else "thorough",
                "unwind": int(uw.group(1)) if uw else None,
                "should_panic": "kani::should_panic" in attrs,
                "functions": [f.strip() for f in meta.get("fns", "").split(",") if f.strip()],
                "inst": meta.get("inst", ""),
                "bound": meta.get("bound", ""),
                "asserts": meta.get("asserts", ""),
                "cap": int(meta["cap"]) if meta.get("cap", "").isdigit() else None,
                "panics": meta.get("panics"),
                "stubs": meta.get("stubs", ""),
            }
            if not h["functions"] or not h["asserts"]:
                raise SystemExit("kani_driver: harness %s has no `/// K:` metadata (fns=, asserts=)" % name)
            if h["should_panic"] and not h["panics"]:
                raise SystemExit("kani_driver: should_panic harness %s has no `panics=` regex" % name)
            out.append(h)
            seen.add(name)
        missing = declared - seen
        if module not in ("lib",) and missing:
            raise SystemExit("kani_driver: functions named like harnesses but not parsed as such in %s: %s" % (fn, sorted(missing)))
    names = [h["name"] for h in out]
    dup = {n for n in names if names.count(n) > 1}
    if dup:
        raise SystemExit("kani_driver: duplicate harness names %s" % sorted(dup))
    return out


# ------------------------------------------------------------------------------------------------
# build
# ------------------------------------------------------------------------------------------------
def _env(extra=None):
    env = dict(os.environ)
    env["CARGO_NET_OFFLINE"] = "true"
    env.pop("RUSTC_WRAPPER", None)
    env.pop("CARGO_TARGET_DIR", None)
    env.pop("RUSTFLAGS", None)
    if extra:
        env.update(extra)
    return env


def _copy_crate(dst, repo):
    if os.path.exists(dst):
        shutil.rmtree(dst)
    shutil.copytree(KANI_DIR, dst, ignore=shutil.ignore_patterns("target"))
    if repo != "/repo":
        toml = os.path.join(dst, "Cargo.toml")
        text = open(toml).read().replace('path = "/repo"', 'path = "%s"' % repo)
        open(toml, "w").write(text)


def _crate(repo=None):
    """(crate dir, target dir) for the tree under test."""
    repo = repo or REPO
    if repo == "/repo":
        if "VERIF_KANI_DIR" in os.environ:
            return KANI_DIR, os.path.join(os.path.dirname(os.path.abspath(KANI_DIR)), "target")
        return KANI_DIR, os.path.join(BUILD, "kani")
    alt = os.path.join(BUILD, "kani-alt")
    _copy_crate(os.path.join(alt, "crate"), repo)
    return os.path.join(alt, "crate"), os.path.join(alt, "target")


def _tail(text, n=60):
    return "\n".join(text.splitlines()[-n:])


def _build(crate_dir, target_dir, log):
    t0 = time.time()
    if not os.path.exists(os.path.join(crate_dir, "Cargo.lock")) and os.path.exists(os.path.join(REPO, "Cargo.lock")):
        shutil.copy(os.path.join(REPO, "Cargo.lock"), os.path.join(crate_dir, "Cargo.lock"))
    p = subprocess.run(["cargo", "kani", "--only-codegen", "--target-dir", target_dir, "-Z", "unstable-options", "-Z", "stubbing"], cwd=crate_dir, env=_env(),
                       stdout=subprocess.PIPE, stderr=subprocess.STDOUT, text=True)
    if p.returncode != 0:
        errs = [l for l in p.stdout.splitlines() if l.startswith("error")]
        log(_tail(p.stdout, 80))
        log("BUILD-FAILURE engine=kani (harness crate %s against vek at %s): %s" % (crate_dir, REPO, "; ".join(errs[:5])))
        sys.exit(2)
    return time.time() - t0


def warm(log):
    crate_dir, target_dir = _crate()
    table = harness_table(crate_dir)
    dt = _build(crate_dir, target_dir, log)
    log("built kani harness crate (%d harnesses) in %.1fs" % (len(table), dt))


# ------------------------------------------------------------------------------------------------
# memory watchdog
# ------------------------------------------------------------------------------------------------
class Watchdog(threading.Thread):
    """Kills the largest cbmc when one outgrows the budget or the machine runs out of memory."""

    def __init__(self, log, own=""):
        super().__init__(daemon=True)
        self.log = log
        self.own = own  # only cbmc processes working under this target directory are this run's to kill
        self.stop = threading.Event()
        self.killed = []
        self.peak_rss_gb = 0.0

    @staticmethod
    def _cbmcs():
        res = []
        for pid in os.listdir("/proc"):
            if not pid.isdigit():
                continue
            try:
                if open("/proc/%s/comm" % pid).read().strip() != "cbmc":
                    continue
                rss_pages = int(open("/proc/%s/statm" % pid).read().split()[1])
                cmd = open("/proc/%s/cmdline" % pid).read().replace("\0", " ")
            except (OSError, ValueError, IndexError):
                continue
            res.append((rss_pages * os.sysconf("SC_PAGE_SIZE") / 2**30, int(pid), cmd))
        return res

    @staticmethod
    def _avail_gb():
        for l in open("/proc/meminfo"):
            if l.startswith("MemAvailable:"):
                return int(l.split()[1]) / 2**20
        return 1e9

    def run(self):
        while not self.stop.wait(3.0):
            procs = [p for p in self._cbmcs() if "vek_kani" in p[2] and (not self.own or self.own in p[2])]
            if not procs:
                continue
            procs.sort(reverse=True)
            self.peak_rss_gb = max(self.peak_rss_gb, procs[0][0])
            # over its own budget, or the machine is short of memory and this process is a real contributor (killing a
            # small cbmc because something else is eating the memory only loses a verdict)
            if procs[0][0] > RSS_LIMIT_GB or (self._avail_gb() < MIN_AVAIL_GB and procs[0][0] > 1.0):
                rss, pid, cmd = procs[0]
                m = re.search(r"(c\d\d_[qt]_\w+?)(?:\.out|\s|$)", cmd)
                self.killed.append(m.group(1) if m else str(pid))
                self.log("  kani watchdog: killing cbmc pid %d (%.1f GB, %s): memory budget" % (pid, rss, self.killed[-1]))
                try:
                    os.kill(pid, signal.SIGKILL)
                except OSError:
                    pass


# ------------------------------------------------------------------------------------------------
# running and parsing
# ------------------------------------------------------------------------------------------------
def _run_kani(crate_dir, target_dir, harnesses, timeout_s, jobs, logfile, log, extra=()):
    cmd = ["cargo", "kani", "--target-dir", target_dir, "--output-format", "terse", "-Z", "unstable-options", "-Z", "stubbing",
           "--harness-timeout", "%ds" % timeout_s, "--exact", "--no-assertion-reach-checks"]
    if jobs > 1:
        cmd += ["-j", str(jobs)]
    cmd += list(extra)
    for h in harnesses:
        cmd += ["--harness", h["full"]]
    os.makedirs(os.path.dirname(logfile), exist_ok=True)
    wd = Watchdog(log, own=target_dir)
    wd.start()
    rounds = (len(harnesses) + max(1, jobs) - 1) // max(1, jobs)
    overall = timeout_s * rounds + 600
    with open(logfile, "w") as f:
        p = subprocess.Popen(cmd, cwd=crate_dir, env=_env(), stdout=f, stderr=subprocess.STDOUT, start_new_session=True)
        try:
            p.wait(timeout=overall)
        except subprocess.TimeoutExpired:
            log("  kani: overall cap of %ds hit; stopping" % overall)
            try:
                os.killpg(p.pid, signal.SIGKILL)
            except OSError:
                pass
            p.wait()
    wd.stop.set()
    return open(logfile, errors="replace").read(), wd


def _unquote(d):
    """Kani prints custom assertion messages in (sometimes escaped) double quotes; keys use the bare text."""
    d = d.strip().replace('\\"', '"')
    while len(d) >= 2 and d[0] == '"' and d[-1] == '"':
        d = d[1:-1]
    return d


def parse_terse(text):
    """{full harness name: {"verdict", "checks", "failed", "covers", "covers_sat", "failed_checks", "time_s", "raw"}}"""
    results = {}
    current = {}  # thread id -> harness
    cur_thread = None
    blocks = {}  # harness -> [lines]
    for line in text.splitlines():
        m = re.match(r"^Thread (\d+): (.*)$", line)
        if m:
            tid, rest = m.group(1), m.group(2)
            cur_thread = tid
            mm = re.match(r"Checking harness (\S+?)\.\.\.$", rest.strip())
            if mm:
                current[tid] = mm.group(1)
                blocks.setdefault(mm.group(1), [])
                cur_thread = None
            continue
        mm = re.match(r"^Checking harness (\S+?)\.\.\.$", line.strip())
        if mm:  # sequential mode (no thread prefix)
            current["seq"] = mm.group(1)
            blocks.setdefault(mm.group(1), [])
            cur_thread = "seq"
            continue
        if line.startswith("Manual Harness Summary:") or line.startswith("Complete - "):
            cur_thread = None
            continue
        if cur_thread is not None and cur_thread in current:
            blocks[current[cur_thread]].append(line)
    for name, lines in blocks.items():
        raw = "\n".join(lines)
        r = {"verdict": None, "checks": 0, "failed": 0, "covers": 0, "covers_sat": 0, "failed_checks": [], "time_s": None,
             "raw": raw, "cbmc_failed": False}
        m = re.search(r"\*\* (\d+) of (\d+) failed", raw)
        if m:
            r["failed"], r["checks"] = int(m.group(1)), int(m.group(2))
        m = re.search(r"\*\* (\d+) of (\d+) cover properties satisfied", raw)
        if m:
            r["covers_sat"], r["covers"] = int(m.group(1)), int(m.group(2))
        r["failed_checks"] = [_unquote(d) for d in re.findall(r"^Failed Checks: (.*)$", raw, re.M)]
        m = re.search(r"^VERIFICATION:- (SUCCESSFUL|FAILED)(.*)$", raw, re.M)
        if m:
            r["verdict"] = m.group(1)
        m = re.search(r"^Verification Time: ([0-9.]+)s", raw, re.M)
        if m:
            r["time_s"] = float(m.group(1))
        if re.search(r"CBMC failed|CBMC timed out|out of memory|Status: ERROR|std::bad_alloc", raw) or "VERIFICATION RESULT:" not in raw:
            r["cbmc_failed"] = True
        results[name] = r
    # cross-check with Kani's own summary: a harness it lists as failed must not be parsed as successful
    summary_failed = set(re.findall(r"^Verification failed for - (\S+)$", text, re.M))
    for name, r in results.items():
        if (r["verdict"] == "SUCCESSFUL") == (name in summary_failed) and r["verdict"] is not None and "Manual Harness Summary:" in text:
            r["cbmc_failed"] = True
            r["raw"] += "\n[kani_driver] verdict inconsistent with Kani's harness summary: treated as undecided"
    return results


def classify(h, r):
    """-> (status, unexpected_failed_checks, note)"""
    if r is None:
        return "undecided", [], "no output for this harness"
    if r["cbmc_failed"] or r["verdict"] is None:
        note = "timeout" if "timed out" in r["raw"] else "CBMC did not return a verdict (killed / out of memory / error)"
        return "undecided", [], note
    fails = r["failed_checks"]
    if h["should_panic"]:
        rx = re.compile(h["panics"])
        bad = [d for d in fails if not rx.fullmatch(d)]
        if bad:
            return "failed", bad, "failed check outside the expected panic set"
        if not fails:
            return "failed", ["no panic occurred in a should_panic harness"], "no panic"
        if r["verdict"] != "SUCCESSFUL":
            return "undecided", [], "should_panic harness not SUCCESSFUL without a listed failure"
    else:
        if r["verdict"] == "FAILED":
            if not fails:
                return "undecided", [], "FAILED without a failed check (undetermined)"
            return "failed", fails, ""
        if r["failed"]:
            return "failed", fails or ["unlisted failed check"], ""
    if r["covers"] == 0 or r["covers_sat"] != r["covers"]:
        return "vacuous", [], "%d of %d cover properties satisfied" % (r["covers_sat"], r["covers"])
    return "passed", [], ""


# ------------------------------------------------------------------------------------------------
# counterexamples: concrete playback + native run
# ------------------------------------------------------------------------------------------------
PLAYBACK_RE = re.compile(r"Concrete playback unit test for `([^`]+)`:\n```\n(.*?)\n```", re.S)


def parse_playback(text):
    tests = []
    for full, src in PLAYBACK_RE.findall(text):
        # Kani prints the description of a multi-line `assert!` over several lines, of which only the first is a
        # comment: fold it into one line, or the generated test does not compile
        src = re.sub(r"(/// Check for `\w+`: \")(.*?)(\"[ \t]*\n\s*#\[test\])", lambda mm: mm.group(1) + " ".join(mm.group(2).split()) + mm.group(3), src, flags=re.S)
        m = re.search(r"/// Check for `(\w+)`: \"(.*)\"", src)
        fn = re.search(r"fn (kani_concrete_playback_\w+)\(", src)
        vals = [{"comment": c.strip(), "bytes": [int(x) for x in b.replace(" ", "").split(",") if x]}
                for c, b in re.findall(r"//([^\n]*)\n\s*vec!\[([^\]]*)\]", src)]
        tests.append({"harness": full, "kind": m.group(1) if m else "", "check": _unquote(m.group(2)) if m else "",
                      "test_fn": fn.group(1) if fn else "", "source": src, "values": vals})
    return tests


def _native_playback(tests, profile, log, repo=None):
    """Append the playback tests (each carries its "module") to a scratch copy of the crate and run them
    natively in one `cargo kani playback`. -> {test_fn: {"outcome": "failed"|"ok"|"missing", "message": str}}"""
    scratch = os.path.join(BUILD, "kani-replay")
    crate = os.path.join(scratch, "crate")
    _copy_crate(crate, repo or REPO)
    for module in sorted({t["module"] for t in tests}):
        path = os.path.join(crate, "src", module + ".rs")
        with open(path, "a") as f:
            f.write("\n// ---- concrete playback tests appended by kani_driver ----\n")
            for t in tests:
                if t["module"] == module:
                    f.write(t["source"] + "\n")
    extra = {"CARGO_TARGET_DIR": os.path.join(scratch, "target-" + profile)}
    if profile == "opt":
        extra.update({"CARGO_PROFILE_DEV_OPT_LEVEL": "3", "CARGO_PROFILE_TEST_OPT_LEVEL": "3"})
    env = _env(extra)
    p = subprocess.run(["cargo", "kani", "playback", "-Z", "concrete-playback", "--", "kani_concrete_playback", "--test-threads=1"],
                       cwd=crate, env=env, stdout=subprocess.PIPE, stderr=subprocess.STDOUT, text=True)
    out = p.stdout
    res = {}
    for t in tests:
        m = re.search(r"^test \S*%s \.\.\. (\w+)" % re.escape(t["test_fn"]), out, re.M)
        outcome = "missing"
        if m:
            outcome = "failed" if m.group(1) == "FAILED" else "ok"
        msg = ""
        mm = re.search(r"---- \S*%s stdout ----\n(.*?)(?=\n---- |\nfailures:|\Z)" % re.escape(t["test_fn"]), out, re.S)
        if mm:
            msg = mm.group(1).strip()[:1500]
        res[t["test_fn"]] = {"outcome": outcome, "message": msg}
    if tests and all(v["outcome"] == "missing" for v in res.values()):
        log("  kani playback (%s) produced no test results:\n%s" % (profile, _tail(out, 40)))
    return res


def _counterexamples(failed, crate_dir, target_dir, cap, jobs, log):
    """failed: [(harness, unexpected failed checks)]. Re-runs the failed harnesses in ONE invocation with
    concrete playback, then executes all generated tests natively in ONE test run.
    -> ({harness name: [tests]}, native dev results, native opt results)"""
    logfile = os.path.join(BUILD, "logs", "kani-playback.log")
    hs = [h for h, _ in failed]
    # (--concrete-playback is incompatible with --jobs > 1: this run is sequential)
    text, _ = _run_kani(crate_dir, target_dir, hs, cap, 1, logfile, log,
                        extra=["-Z", "concrete-playback", "--concrete-playback=print"])
    by_full = {h["full"]: (h, bad) for h, bad in failed}
    per = {h["name"]: [] for h in hs}
    seen_fns = set()
    # Kani names a test after a hash of its values and prints each value vector once: when a satisfied
    # cover and a failed check share their values only the cover's test exists. So cover tests are kept
    # (natively a cover is a no-op: such a test fails only if the harness really panics); tests of
    # failed checks come first, at most 6 per harness.
    parsed = [t for t in parse_playback(text) if t["harness"] in by_full]
    for t in sorted(parsed, key=lambda t: t["kind"] == "cover"):
        h, bad = by_full[t["harness"]]
        t["module"] = h["module"]
        if len(per[h["name"]]) < 6 and t["test_fn"] not in seen_fns:
            seen_fns.add(t["test_fn"])
            per[h["name"]].append(t)
    tests = [t for ts in per.values() for t in ts]
    if not tests:
        return per, {}, {}
    dev = _native_playback(tests, "dev", log)
    opt = {}
    if os.environ.get("VERIF_KANI_REPLAY_OPT", "0") == "1":
        try:
            opt = _native_playback(tests, "opt", log)
        except Exception as e:  # informational only
            log("  kani playback (opt-level 3) skipped: %s" % e)
    return per, dev, opt


def _reproduces(h, test, native, bad=None):
    """The playback test failed natively in the way CBMC predicted."""
    r = native.get(test["test_fn"], {})
    if r.get("outcome") != "failed":
        return False
    msg = r.get("message", "")
    # a panic raised by the playback machinery itself is not the harness failing: "Not enough det vals found"
    # means the native run got PAST the check CBMC predicted to fail and asked for a nondeterministic value the
    # counterexample never assigned (CBMC's model of a library function, e.g. fmaf, differs from the machine's)
    if "Not enough det vals found" in msg or re.search(r"panicked at [^\n]*concrete_playback\.rs", msg):
        return False
    if h.get("should_panic"):
        # the documented panic also fails the native test: only an unexpected failure counts
        if "K-NOPANIC" in msg:
            return True
        rx = re.compile(h["panics"]) if h.get("panics") else None
        first = next((l for l in msg.splitlines()[1:2]), "")
        return bool(rx) and not rx.search(msg) and bool(first)
    return True


# ------------------------------------------------------------------------------------------------
# entry points
# ------------------------------------------------------------------------------------------------
def select(table, prop, tier, only=None):
    hs = [h for h in table if h["prop"] == prop and (tier == "thorough" or h["tier"] == "quick")]
    if only:
        hs = [h for h in hs if only in h["name"]]
    return hs


def run(prop, tier, seed, known, log, only=None):
    t_start = time.time()
    crate_dir, target_dir = _crate()
    table = harness_table(crate_dir)
    hs = select(table, prop, tier, only)
    empty_cov = {"harnesses_run": 0, "harnesses_passed": 0, "checks_total": 0, "undecided": 0, "harness_results": [],
                 "functions_encoded": [], "bounds": {}, "samples": [], "solver_time_s": 0.0}
    if not hs:
        log("kani: no harness for %s (tier %s%s)" % (prop, tier, ", only=%s" % only if only else ""))
        return {"coverage": empty_cov, "violations": [], "known_hits": [], "nonrepro": []}
    build_s = 0.0  # cargo kani re-runs codegen on every invocation anyway (~15-25 s): no separate build step
    caps = [h["cap"] or DEFAULT_CAP[tier] for h in hs]
    if tier == "quick":
        caps = [min(c, 600) for c in caps]
    cap = max(caps)
    jobs = max(1, min(JOBS, len(hs)))
    logfile = os.path.join(BUILD, "logs", "kani-%s-%s.log" % (prop, tier))
    log("kani: %s tier=%s: %d harnesses, %d jobs, per-harness cap %ds" % (prop, tier, len(hs), jobs, cap))
    text, wd = _run_kani(crate_dir, target_dir, hs, cap, jobs, logfile, log)
    parsed = parse_terse(text)
    if not parsed:
        errs = [l for l in text.splitlines() if l.startswith("error")]
        log(_tail(text, 80))
        log("BUILD-FAILURE engine=kani (harness crate %s against vek at %s; no harness was started; log %s): %s" % (crate_dir, REPO, logfile, "; ".join(errs[:5])))
        sys.exit(2)

    results, violations, known_hits, nonrepro = [], [], [], []
    solver_s = 0.0
    for h in hs:
        r = parsed.get(h["full"])
        status, bad, note = classify(h, r)
        entry = {"name": h["name"], "status": status, "time_s": round(r["time_s"], 2) if r and r["time_s"] is not None else None,
                 "unwind": h["unwind"], "checks": r["checks"] if r else 0, "covers": "%d/%d" % (r["covers_sat"], r["covers"]) if r else "0/0",
                 "functions": h["functions"], "inst": h["inst"], "bound": h["bound"], "tier": h["tier"], "stubs": h.get("stubs", "")}
        if note:
            entry["note"] = note
        if r and r["time_s"]:
            solver_s += r["time_s"]
        if status == "failed":
            entry["failed_checks"] = bad
        results.append(entry)
        if status == "undecided":
            log("  UNDECIDED kani:%s (%s)" % (h["name"], note))
        elif status == "vacuous":
            log("  VACUOUS kani:%s (%s) — reachability witness not satisfied; nothing is claimed" % (h["name"], note))
            nonrepro.append({"key": "kani:%s::vacuous" % h["name"], "model": {"kind": "vacuous", "note": note}})

    # ---- counterexamples of failed harnesses: replay natively before reporting ----
    failed = [(h, list(dict.fromkeys(e["failed_checks"]))) for h, e in zip(hs, results) if e["status"] == "failed"]
    not_replayed = []
    if failed:
        for h, bad in failed:
            log("  kani:%s FAILED (%s)" % (h["name"], "; ".join(bad)[:300]))
        # concrete playback runs sequentially: replay at most REPLAY_MAX harnesses, one per distinct
        # failure signature first; the others are NOT reported as violations (they go to "nonrepro"
        # unless their key is a known finding, so the check can never exit 0 on an unreplayed failure)
        groups = {}
        for h, bad in failed:
            groups.setdefault(tuple(sorted(bad)), []).append((h, bad))
        chosen, rank = [], 0
        while len(chosen) < REPLAY_MAX and any(len(g) > rank for g in groups.values()):
            for g in groups.values():
                if len(g) > rank and len(chosen) < REPLAY_MAX:
                    chosen.append(g[rank])
            rank += 1
        chosen_names = {h["name"] for h, _ in chosen}
        not_replayed = [(h, bad) for h, bad in failed if h["name"] not in chosen_names]
        failed = [(h, bad) for h, bad in failed if h["name"] in chosen_names]
        log("  extracting %d counterexample(s) with concrete playback and replaying them natively%s" % (
            len(failed), " (%d more failed harnesses not replayed: budget VERIF_KANI_REPLAY_MAX=%d)" % (len(not_replayed), REPLAY_MAX) if not_replayed else ""))
        per, dev, opt = _counterexamples(failed, crate_dir, target_dir, max(h["cap"] or DEFAULT_CAP[tier] for h, _ in failed), jobs, log)
    for h, bad in not_replayed:
        for desc in bad:
            key = "kani:%s::%s" % (h["name"], desc)
            kn = next((k for k in known if k.get("prop", prop) == prop and re.fullmatch(k["key"], key)), None)
            if kn:
                known_hits.append({"key": key, "known": kn.get("text", ""), "replay_file": None, "note": "not replayed in this run (replay budget)"})
            else:
                nonrepro.append({"key": key, "model": {"note": "failed in CBMC but not replayed natively in this run (replay budget %d); rerun with --only kani:%s" % (REPLAY_MAX, h["name"])}})
    for h, bad in failed:
        tests = per.get(h["name"], [])
        repro_tests = [t for t in tests if _reproduces(h, t, dev)]
        shown = repro_tests or tests
        replay_file = os.path.join(OUT, "replays", prop, h["name"] + ".json")
        d = {
            "property": prop, "engine": "kani", "harness": h["name"], "module": h["module"], "should_panic": h["should_panic"],
            "panics": h["panics"], "failed_checks": bad, "instantiation": h["inst"], "asserts": h["asserts"],
            "playback_test_source": "\n".join(t["source"] for t in shown),
            "tests": [{"test_fn": t["test_fn"], "check": t["check"], "values": t["values"],
                       "native_dev": dev.get(t["test_fn"]), "native_opt3": opt.get(t["test_fn"])} for t in tests],
            "values": shown[0]["values"] if shown else [],
            "inputs": {"bytes": [v["bytes"] for v in (shown[0]["values"] if shown else [])],
                       "decoded": [v["comment"] for v in (shown[0]["values"] if shown else [])]},
            "how_to_replay": "./check %s --replay %s" % (prop, replay_file),
        }
        for desc in bad:
            key = "kani:%s::%s" % (h["name"], desc)
            # harness-level criterion: CBMC predicted that this harness fails, and a playback test of it
            # fails natively (Kani prints one test per distinct value vector, not per failed check)
            reproduced = bool(repro_tests)
            kn = next((k for k in known if k.get("prop", prop) == prop and re.fullmatch(k["key"], key)), None)
            if not reproduced:
                nonrepro.append({"key": key, "model": {"values": d["values"], "native": {t["test_fn"]: dev.get(t["test_fn"]) for t in tests},
                                                       "note": "concrete playback did not fail natively" if tests else "no playback test was produced"}})
                continue
            os.makedirs(os.path.dirname(replay_file), exist_ok=True)
            json.dump(d, open(replay_file, "w"), indent=1)
            if kn:
                known_hits.append({"key": key, "known": kn.get("text", ""), "replay_file": replay_file})
            else:
                violations.append({"key": key, "replay_file": replay_file, "replay": d})

    passed = [e for e in results if e["status"] == "passed"]
    by_name = {h["name"]: h for h in hs}
    samples = [{"engine": "kani", "harness": e["name"], "instantiation": e["inst"], "asserts": by_name[e["name"]]["asserts"],
                "bound": e["bound"], "checks": e["checks"], "covers": e["covers"], "verdict": "SUCCESSFUL", "time_s": e["time_s"]}
               for e in passed[:: max(1, len(passed) // 6)][:6]]
    cov = {
        "harnesses_run": len(results),
        "harnesses_passed": len(passed),
        "checks_total": sum(e["checks"] for e in results),
        "undecided": sum(1 for e in results if e["status"] == "undecided"),
        "failed": sum(1 for e in results if e["status"] == "failed"),
        "vacuous": sum(1 for e in results if e["status"] == "vacuous"),
        "harness_results": results,
        "functions_encoded": sorted({f for e in results for f in e["functions"]}),
        "bounds": {
            "tier": tier,
            "instantiations": sorted({e["inst"] for e in results}),
            "max_unwind": max([e["unwind"] or 0 for e in results]),
            "per_harness_cap_s": cap,
            "unwinding_assertions": "on",
            "per_harness": {e["name"]: e["bound"] for e in results},
        },
        "samples": samples,
        "solver_time_s": round(solver_s, 2),
        "build_s": round(build_s, 1),
        "wall_s": round(time.time() - t_start, 1),
        "jobs": jobs,
        "peak_cbmc_rss_gb": round(wd.peak_rss_gb, 2),
        "watchdog_killed": wd.killed,
        "tool": KANI_VERSION,
        "log": logfile,
    }
    log("kani: %s tier=%s: %d/%d harnesses passed, %d undecided, %d failed, %d vacuous; %d checks; cbmc time %.1fs, wall %.1fs" % (
        prop, tier, len(passed), len(results), cov["undecided"], cov["failed"], cov["vacuous"], cov["checks_total"], solver_s, cov["wall_s"]))
    return {"coverage": cov, "violations": violations, "known_hits": known_hits, "nonrepro": nonrepro}


def replay(d, log):
    """Re-run the stored playback tests natively (dev profile). 1 = reproduces."""
    srcs = d.get("playback_test_source", "")
    fns = re.findall(r"fn (kani_concrete_playback_\w+)\(", srcs)
    if not fns:
        log("replay: no playback test in the replay file")
        return 0
    blocks = re.split(r"(?=/// Test generated for harness)", srcs)
    tests = []
    for b in blocks:
        m = re.search(r"fn (kani_concrete_playback_\w+)\(", b)
        if m:
            c = re.search(r"/// Check for `(\w+)`: \"(.*)\"", b)
            tests.append({"test_fn": m.group(1), "source": b.strip(), "check": _unquote(c.group(2)) if c else "", "module": d["module"]})
    h = {"should_panic": d.get("should_panic", False), "panics": d.get("panics")}
    native = _native_playback(tests, "dev", log)
    rc = 0
    for t in tests:
        r = native.get(t["test_fn"], {})
        log("replay %s: %s %s" % (t["test_fn"], r.get("outcome"), (r.get("message") or "").splitlines()[:3]))
        if _reproduces(h, t, native):
            rc = 1
    if rc:
        log("REPRODUCED property=%s harness=%s checks=%s" % (d.get("property"), d.get("harness"), d.get("failed_checks")))
    else:
        log("not reproduced")
    return rc


if __name__ == "__main__":
    # small manual entry point: python3 kani_driver.py C17 quick [only]
    a = sys.argv[1:]
    if a and a[0] == "--list":
        for h in harness_table(KANI_DIR):
            print(h["prop"], h["tier"], h["name"], h["unwind"], h["cap"], "|", h["inst"])
        sys.exit(0)
    res = run(a[0], a[1] if len(a) > 1 else "quick", 0, [], print, only=a[2] if len(a) > 2 else None)
    for e in res["coverage"]["harness_results"]:
        print("%-55s %-10s %8s  checks=%-5s covers=%s %s" % (e["name"], e["status"], e["time_s"], e["checks"], e["covers"], e.get("note", "")))
    print(json.dumps({k: res[k] for k in ("violations", "known_hits", "nonrepro")}, indent=1)[:4000])
