#!/bin/sh
# lib/eval_mutants.sh <PROP>...  — for each /tmp/wt/<PROP>/mutants/m*: confirm independently, then run the check against it
for P in "$@"; do
  for M in /tmp/wt/$P/mutants/m*; do
    [ -f $M/patch.diff ] || continue
    echo "=== $P $(basename $M): $(python3 -c "import json;print(json.load(open('$M/meta.json')).get('breaks','')[:150])" 2>/dev/null)"
    /verif/lib/confirm_mutant.sh $M 2>&1 | tail -4
    /verif/lib/try_mutant.sh $P $M/patch.diff 2>&1 | tail -6
  done
done
