#!/usr/bin/env python3
"""lib/keep_mutants.py <eval-log>...: copy the seeded changes that were confirmed (lib/confirm_mutant.sh output in the
log) from /tmp/wt/<PROP>/mutants/mN into /verif/seeded/<PROP>-mN/ and record what the check did with them."""
import json, os, re, shutil, sys
V = "/verif"
for log in sys.argv[1:]:
    blocks = re.split(r"^=== ", open(log).read(), flags=re.M)[1:]
    for b in blocks:
        head = b.splitlines()[0]
        m = re.match(r"(C\d+) (m\d+):", head)
        if not m:
            continue
        prop, mid = m.group(1), m.group(2)
        src = "/tmp/wt/%s/mutants/%s" % (prop, mid)
        if not os.path.exists(src + "/patch.diff"):
            continue
        base_ok = re.search(r"unchanged: demo: test result: ok", b) is not None
        lib_ok = re.search(r"changed:   lib:  test result: ok\. 674 passed", b) is not None
        feat_ok = re.search(r"all-features build errors: 0", b) is not None
        demo_fail = re.search(r"changed:   demo: (test result: FAILED|error: test failed)", b) is not None
        rc = re.search(r"RESULT rc=(\d+)", b)
        rc = int(rc.group(1)) if rc else None
        viol = re.findall(r"VIOLATION property=\S+ replay=(\S+)", b)
        summary = [l for l in b.splitlines() if re.match(r"C\d+ tier=", l)]
        confirmed = base_ok and lib_ok and feat_ok and demo_fail
        dst = os.path.join(V, "seeded", "%s-%s" % (prop, mid))
        if not confirmed:
            print("NOT CONFIRMED %s %s: base_ok=%s lib_ok=%s feat_ok=%s demo_fail=%s" % (prop, mid, base_ok, lib_ok, feat_ok, demo_fail))
            continue
        os.makedirs(dst, exist_ok=True)
        for f in ("patch.diff", "demo.rs"):
            shutil.copy(os.path.join(src, f), dst)
        meta = json.load(open(os.path.join(src, "meta.json")))
        meta["property"] = prop
        meta["confirmed_by_me"] = {"how": "lib/confirm_mutant.sh / lib/lane_mutants.sh in a scratch worktree of /repo HEAD", "unchanged_tree_demo": "passes", "changed_tree_lib_tests": "674 passed", "changed_tree_all_features_build": "ok", "changed_tree_demo": "FAILS"}
        lane = "lane-" in log
        meta["check"] = {"cmd": ("VERIF_REPO=<scratch worktree of /repo HEAD with the patch applied> ./check %s --tier quick (lib/lane_mutants.sh; /repo itself untouched)" if lane else "./check %s --tier quick (patch applied to /repo, undone afterwards)") % prop, "exit": rc, "caught": rc == 1, "violations": [os.path.basename(v) for v in viol][:6], "summary": (summary[0] if summary else "")[:300]}
        notes = json.load(open(os.path.join(V, "seeded", "NOTES.json"))) if os.path.exists(os.path.join(V, "seeded", "NOTES.json")) else {}
        if "%s-%s" % (prop, mid) in notes:
            meta["history"] = notes["%s-%s" % (prop, mid)]
        json.dump(meta, open(os.path.join(dst, "meta.json"), "w"), indent=1)
        print("%s %s: confirmed, check exit %s (%s)" % (prop, mid, rc, "CAUGHT" if rc == 1 else "MISSED"))
