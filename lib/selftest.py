#!/usr/bin/env python3
"""lib/selftest.py — run the registered checks against seeded changes (mutants) without touching /repo.

  selftest.py eval  --lane L [--tier quick|thorough] [--no-confirm] [--jobs N] <dir>...
      each <dir> holds patch.diff, demo.rs, meta.json (meta.json: "property": "Cxx").  For each:
        1. confirm (unless --no-confirm) in a scratch worktree of /repo HEAD: demo passes on the unchanged tree;
           with the patch: builds with all type features, the 674 lib tests pass, the demo FAILS;
        2. run `./check <prop>` from a snapshot of /verif's committed state against a scratch worktree with
           the patch applied (VERIF_REPO / VERIF_BUILD / VERIF_OUT isolate the lane).
      Results: /tmp/wt/lane-L/results/<name>.json (name = basename of dir, or <prop>-<basename> for mutants/mK).
  selftest.py keep  [--as ID] <result.json>...      copy confirmed changes into /verif/seeded/<ID>/ and record the verdict
  selftest.py table                                  regenerate DESIGN.md §7 from /verif/seeded/*/meta.json

Scratch worktrees and build output live under /tmp/wt/lane-L and are removed when the lane ends (--keep-lane keeps them).
"""
import json, os, re, shutil, subprocess, sys, time

V = "/verif"
ALLF = "vec8 vec16 vec32 vec64 uv uvw mint bytemuck az"


def sh(cmd, cwd=None, env=None, timeout=None):
    # own process group, so that a timeout takes the whole tree down (check.py, cargo, solvers), not just the shell
    p = subprocess.Popen(cmd, shell=True, cwd=cwd, env=env, stdout=subprocess.PIPE, stderr=subprocess.STDOUT, text=True, start_new_session=True)
    try:
        out, _ = p.communicate(timeout=timeout)
        return p.returncode, out
    except subprocess.TimeoutExpired:
        import signal
        try:
            os.killpg(p.pid, signal.SIGKILL)
        except ProcessLookupError:
            pass
        out, _ = p.communicate()
        return 124, out or ""


def wt_add(path):
    sh("git -C /repo worktree remove --force %s" % path)
    shutil.rmtree(path, ignore_errors=True)
    rc, out = sh("git -C /repo worktree add -q --detach %s HEAD" % path)
    if rc != 0:
        raise SystemExit("worktree add failed: " + out)
    shutil.copy("/repo/Cargo.lock", path)


def wt_rm(path):
    sh("git -C /repo worktree remove --force %s" % path)
    shutil.rmtree(path, ignore_errors=True)


def name_of(d):
    d = os.path.realpath(d)
    b = os.path.basename(d)
    if re.fullmatch(r"m\d+", b):
        meta = json.load(open(os.path.join(d, "meta.json")))
        tag = os.path.basename(os.path.dirname(os.path.dirname(os.path.dirname(d))))
        return "%s-%s%s" % (meta.get("property", "C??"), tag, b)
    return b


def confirm(d, L, equivalent=False):
    C = os.path.join(L, "confirm")
    wt_add(C)
    os.makedirs(os.path.join(C, "tests"), exist_ok=True)
    shutil.copy(os.path.join(d, "demo.rs"), os.path.join(C, "tests", "demo_mut.rs"))
    first = open(os.path.join(d, "demo.rs")).readline()
    m = re.match(r"//\s*features:\s*(.*)", first)
    feat = m.group(1).strip() if m else ""
    env = dict(os.environ, CARGO_NET_OFFLINE="true", CARGO_TARGET_DIR=os.path.join(L, "confirm-target"))
    env.pop("RUSTFLAGS", None)
    res = {}
    rc, out = sh('cargo test --offline --features "%s" --test demo_mut 2>&1' % feat, cwd=C, env=env, timeout=1200)
    res["unchanged_demo_ok"] = rc == 0 and "test result: ok" in out
    rc, out = sh("git apply %s" % os.path.join(d, "patch.diff"), cwd=C)
    res["applies"] = rc == 0
    if rc == 0:
        rc, out = sh("cargo test --offline --lib 2>&1", cwd=C, env=env, timeout=1800)
        m = re.search(r"test result: (\w+)\. (\d+) passed; (\d+) failed", out)
        res["lib_tests"] = m.group(0) if m else out[-300:]
        res["lib_ok"] = bool(m and m.group(1) == "ok" and int(m.group(2)) >= 674)
        rc, out = sh('cargo build --offline --features "%s" 2>&1' % ALLF, cwd=C, env=env, timeout=1200)
        res["allfeat_ok"] = rc == 0
        rc, out = sh('cargo test --offline --features "%s" --test demo_mut 2>&1' % feat, cwd=C, env=env, timeout=1200)
        res["changed_demo_fails"] = rc != 0 and ("test result: FAILED" in out or "error: test failed" in out) and "error[" not in out
        res["changed_demo_ok"] = rc == 0 and "test result: ok" in out
        res["changed_demo_tail"] = "\n".join(l for l in out.splitlines() if "panicked" in l or "assert" in l)[:600]
    wt_rm(C)
    res["confirmed"] = all(res.get(k) for k in ("unchanged_demo_ok", "applies", "lib_ok", "allfeat_ok", "changed_demo_ok" if equivalent else "changed_demo_fails"))
    return res


def run_check(d, prop, L, tier, jobs):
    W = os.path.join(L, "repo")
    wt_add(W)
    rc, out = sh("git apply %s" % os.path.join(d, "patch.diff"), cwd=W)
    if rc != 0:
        wt_rm(W)
        return {"exit": None, "error": "patch does not apply"}
    env = dict(os.environ, VERIF_REPO=W, VERIF_BUILD=os.path.join(L, "build"), VERIF_OUT=os.path.join(L, "out"), VERIF_JOBS=str(jobs))
    t0 = time.time()
    rc, out = sh("./check %s --tier %s" % (prop, tier), cwd=os.path.join(L, "verif"), env=env, timeout=int(os.environ.get("TRY_TIMEOUT", "3000")))
    wt_rm(W)
    lines = out.splitlines()
    viol = re.findall(r"^VIOLATION property=\S+ replay=(\S+)", out, flags=re.M)
    keys = [l.strip()[:200] for i, l in enumerate(lines) if i > 0 and lines[i - 1].startswith("VIOLATION")]
    other = [l[:240] for l in lines if re.match(r"(INCONCLUSIVE|ENCODING|VACUOUS|BUILD-FAILURE|SOLVER|ENGINE)", l)][:6]
    summary = [l for l in lines if re.match(r"C\d+ tier=", l)]
    return {"exit": rc, "caught": rc == 1 and bool(viol), "secs": round(time.time() - t0), "tier": tier,
            "violations": [re.sub(r"-[0-9a-f]{10}\.json$", "", os.path.basename(v)) for v in viol][:8], "violation_keys": keys[:8],
            "other": other, "summary": (summary[0] if summary else "")[:300], "log_tail": "\n".join(lines[-5:])[:800] if rc not in (0, 1) else ""}


def cmd_eval(args):
    lane, tier, do_confirm, jobs, keep_lane, dirs = "x", "quick", True, 8, False, []
    i = 0
    while i < len(args):
        a = args[i]
        if a == "--lane": lane = args[i + 1]; i += 2
        elif a == "--tier": tier = args[i + 1]; i += 2
        elif a == "--jobs": jobs = int(args[i + 1]); i += 2
        elif a == "--no-confirm": do_confirm = False; i += 1
        elif a == "--keep-lane": keep_lane = True; i += 1
        else: dirs.append(a); i += 1
    L = "/tmp/wt/lane-%s" % lane
    os.makedirs(os.path.join(L, "results"), exist_ok=True)
    vs = os.path.join(L, "verif")
    shutil.rmtree(vs, ignore_errors=True)
    os.makedirs(vs)
    sh("git -C %s archive HEAD | tar -x -C %s" % (V, vs))
    rc, head = sh("git -C %s rev-parse --short HEAD" % V)
    for d in dirs:
        d = os.path.realpath(d)
        if not os.path.exists(os.path.join(d, "patch.diff")):
            continue
        meta = json.load(open(os.path.join(d, "meta.json")))
        prop = meta.get("property")
        nm = name_of(d)
        res = {"name": nm, "dir": d, "property": prop, "verif_commit": head.strip()}
        if do_confirm:
            res["confirm"] = confirm(d, L, meta.get("kind") == "equivalent")
        res["kind"] = meta.get("kind", "breaking")
        res["check"] = run_check(d, prop, L, tier, jobs)
        json.dump(res, open(os.path.join(L, "results", nm + ".json"), "w"), indent=1)
        c = res["check"]
        print("%s: %s exit=%s %ss %s %s" % (nm, ("confirmed" if res.get("confirm", {}).get("confirmed") else "NOT-CONFIRMED " + json.dumps({k: v for k, v in res.get("confirm", {}).items() if k != "changed_demo_tail"})) if do_confirm else "-",
                                          c.get("exit"), c.get("secs"), ("QUIET-OK" if c.get("exit") == 0 else "FALSE-ALARM") if res["kind"] == "equivalent" else ("CAUGHT" if c.get("caught") else "MISSED"), (c.get("violations") or c.get("other") or [""])[0]), flush=True)
    if not keep_lane:
        for sub in ("build", "out", "verif", "confirm-target", "repo", "confirm"):
            shutil.rmtree(os.path.join(L, sub), ignore_errors=True)
        sh("git -C /repo worktree prune")
    print("LANE-DONE", lane, flush=True)


def cmd_keep(args):
    as_id = None
    if args and args[0] == "--as":
        as_id = args[1]
        args = args[2:]
    for f in args:
        r = json.load(open(f))
        d = r["dir"]
        sid = as_id or r["name"]
        meta = json.load(open(os.path.join(d, "meta.json")))
        equivalent = r.get("kind") == "equivalent" or meta.get("kind") == "equivalent"
        dst = os.path.join(V, "seeded-equivalent" if equivalent else "seeded", sid)
        if "confirm" in r:
            if not r["confirm"].get("confirmed"):
                print("NOT CONFIRMED, not kept:", sid, {k: v for k, v in r["confirm"].items() if k != "changed_demo_tail"})
                continue
            meta["confirmed_by_me"] = {"how": "lib/selftest.py eval: scratch worktree of /repo HEAD", "unchanged_tree_demo": "passes", "changed_tree_lib_tests": r["confirm"].get("lib_tests"), "changed_tree_all_features_build": "ok", "changed_tree_demo": "passes (behaviour-preserving change)" if equivalent else "FAILS"}
        elif "confirmed_by_me" not in meta:
            print("no confirmation on record, not kept:", sid)
            continue
        if os.path.realpath(d) != os.path.realpath(dst):
            os.makedirs(dst, exist_ok=True)
            for fn in ("patch.diff", "demo.rs"):
                shutil.copy(os.path.join(d, fn), dst)
        c = r["check"]
        if equivalent:
            meta["check"] = {"cmd": "VERIF_REPO=<scratch worktree of /repo HEAD with the patch applied> ./check %s --tier %s (lib/selftest.py; /repo itself untouched)" % (r["property"], c.get("tier")),
                             "verif_commit": r.get("verif_commit"), "exit": c.get("exit"), "quiet": c.get("exit") == 0, "secs": c.get("secs"), "violations": c.get("violations", []), "violation_keys": c.get("violation_keys", []), "other": c.get("other", []), "summary": c.get("summary", "")}
            json.dump(meta, open(os.path.join(dst, "meta.json"), "w"), indent=1)
            print("%s: kept (equivalent), %s" % (sid, "QUIET" if c.get("exit") == 0 else "ALARM (exit %s)" % c.get("exit")))
            continue
        old = meta.get("check")
        if old and old.get("caught") is False and c.get("caught") and "history" not in meta:
            meta["history"] = "first run: missed (exit %s); caught after the checks were strengthened (see DESIGN.md §7)" % old.get("exit")
        meta["check"] = {"cmd": "VERIF_REPO=<scratch worktree of /repo HEAD with the patch applied> ./check %s --tier %s (lib/selftest.py; /repo itself untouched)" % (r["property"], c.get("tier")),
                         "verif_commit": r.get("verif_commit"), "exit": c.get("exit"), "caught": bool(c.get("caught")), "secs": c.get("secs"), "violations": c.get("violations", []), "violation_keys": c.get("violation_keys", []), "other": c.get("other", []), "summary": c.get("summary", "")}
        json.dump(meta, open(os.path.join(dst, "meta.json"), "w"), indent=1)
        print("%s: kept, %s" % (sid, "CAUGHT" if c.get("caught") else "MISSED (exit %s)" % c.get("exit")))


def cmd_table(args):
    import glob
    rows = []
    for d in sorted(glob.glob(V + "/seeded/*/")):
        m = json.load(open(d + "meta.json"))
        c = m.get("check", {})
        by = ", ".join(sorted(set(c.get("violations", []))))[:110]
        verdict = "caught" if c.get("caught") else "**missed** (exit %s)" % c.get("exit")
        if m.get("history"):
            verdict += " †"
        if not c.get("caught") and m.get("thorough", {}).get("caught"):
            verdict += "; **caught by the thorough tier** (%s)" % ", ".join(m["thorough"].get("violations", []))[:90]
        rows.append("| %s | %s | %s | %s | %s |" % (os.path.basename(d.rstrip("/")), m.get("breaks", "")[:150].replace("|", "/").replace("\n", " "), m.get("needs", "")[:110].replace("|", "/").replace("\n", " "), verdict, by))
    n = len(rows)
    caught = sum(1 for r in rows if "| caught" in r)
    t = ("%d seeded changes, %d reported by the quick check of their property (exit 1 with a natively reproduced VIOLATION), %d not. † = missed on its first run, caught after the check was strengthened (history in the change's meta.json).\n\n" % (n, caught, n - caught)
         + "| id | what it breaks | needs | quick check | reported by (scenario / harness) |\n|---|---|---|---|---|\n" + "\n".join(rows))
    erows = []
    for d in sorted(glob.glob(V + "/seeded-equivalent/*/")):
        m = json.load(open(d + "meta.json"))
        c = m.get("check", {})
        erows.append("| %s | %s | %s |" % (os.path.basename(d.rstrip("/")), m.get("breaks", "")[:230].replace("|", "/").replace("\n", " "), ("quiet (exit 0)" + (" ‡" if c.get("note") else "")) if c.get("quiet") else "**alarm** (exit %s: %s)" % (c.get("exit"), ", ".join(sorted(set(c.get("violations", []) or c.get("other", []))))[:100])))
    if erows:
        t += ("\n\n%d behaviour-preserving changes (the property still holds; the quick check must stay quiet), %d quiet (‡ = quiet, but see the note in its meta.json):\n\n" % (len(erows), sum(1 for r in erows if "| quiet" in r))
              + "| id | what was changed | quick check |\n|---|---|---|\n" + "\n".join(erows))
    p = V + "/DESIGN.md"
    s = open(p).read()
    block = "<!-- seeded-table -->\n" + t + "\n<!-- /seeded-table -->"
    if "SEEDED_TABLE_PLACEHOLDER" in s:
        s = s.replace("SEEDED_TABLE_PLACEHOLDER", block)
    else:
        s = re.sub(r"<!-- seeded-table -->.*?<!-- /seeded-table -->", lambda _m: block, s, flags=re.S)
    open(p, "w").write(s)
    print(n, "rows,", caught, "caught")


if __name__ == "__main__":
    c = sys.argv[1] if len(sys.argv) > 1 else ""
    {"eval": cmd_eval, "keep": cmd_keep, "table": cmd_table}.get(c, lambda a: print(__doc__))(sys.argv[2:])
