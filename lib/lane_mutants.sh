#!/bin/sh
# lib/lane_mutants.sh <LANE> <PROP>...  — self-test lane: for each /tmp/wt/<PROP>/mutants/m*, confirm the seeded change
# independently (scratch worktree), then run the property's quick check against a scratch worktree of /repo HEAD with
# the change applied (VERIF_REPO / VERIF_BUILD / VERIF_OUT isolate the lane: /repo and /verif/evidence are not touched).
# Output: /tmp/wt/lane-<LANE>.log in the format lib/keep_mutants.py reads.
LANE=$1; shift
L=/tmp/wt/lane-$LANE; W=$L/repo; LOG=/tmp/wt/lane-$LANE.log
mkdir -p $L; : > $LOG
# the lane runs the checks from a snapshot of /verif's committed state (edits in progress cannot break a lane)
rm -rf $L/verif; mkdir -p $L/verif; git -C /verif archive HEAD | tar -x -C $L/verif
echo "lane $LANE: /verif at $(git -C /verif rev-parse --short HEAD)" >> $LOG
export VERIF_JOBS=${LANE_JOBS:-6}
for P in "$@"; do
  for M in /tmp/wt/$P/mutants/${ONLY_M:-m*}; do
    [ -f $M/patch.diff ] || continue
    {
    echo "=== $P $(basename $M): $(python3 -c "import json;print(json.load(open('$M/meta.json')).get('breaks','')[:150])" 2>/dev/null)"
    # 1. confirm
    C=$L/confirm
    git -C /repo worktree remove --force $C 2>/dev/null
    git -C /repo worktree add -q $C HEAD
    cp /repo/Cargo.lock $C/; mkdir -p $C/tests; cp $M/demo.rs $C/tests/demo_mut.rs
    FEAT=$(head -1 $M/demo.rs | sed -n 's,^// features: *,,p')
    ( cd $C; export CARGO_NET_OFFLINE=true CARGO_TARGET_DIR=$L/confirm-target
      base_demo=$(cargo test --offline --features "$FEAT" --test demo_mut 2>&1 | grep -E "^test result|^error" | tail -1)
      git apply $M/patch.diff || echo "PATCH-DOES-NOT-APPLY"
      mut_lib=$(cargo test --offline --lib 2>&1 | grep -E "^test result" | tail -1)
      mut_feat=$(cargo build --offline --features "vec8 vec16 vec32 vec64 uv uvw mint bytemuck az" 2>&1 | grep -cE "^error")
      mut_demo=$(cargo test --offline --features "$FEAT" --test demo_mut 2>&1 | grep -E "^test result|error\[|^error: test failed" | tail -1)
      echo "unchanged: demo: $base_demo"; echo "changed:   lib:  $mut_lib"; echo "changed:   all-features build errors: $mut_feat"; echo "changed:   demo: $mut_demo" )
    git -C /repo worktree remove --force $C
    # 2. check against a scratch tree with the change applied
    git -C /repo worktree remove --force $W 2>/dev/null
    git -C /repo worktree add -q $W HEAD; cp /repo/Cargo.lock $W/
    git -C $W apply $M/patch.diff
    ( cd $L/verif; VERIF_REPO=$W VERIF_BUILD=$L/build VERIF_OUT=$L/out timeout ${TRY_TIMEOUT:-2400} ./check $P --tier ${TIER:-quick} > $L/try.log 2>&1; rc=$?
      grep -E "^(VIOLATION|KNOWN-FINDING|INCONCLUSIVE|ENCODING|VACUOUS|BUILD-FAILURE|SOLVER|ENGINE)" $L/try.log | cut -c1-220 | head -8
      grep -E "^C[0-9]+ tier=" $L/try.log | head -1 | cut -c1-250
      echo "RESULT rc=$rc"; cp $L/try.log $L/try-$P-$(basename $M).log )
    git -C /repo worktree remove --force $W
    } >> $LOG 2>&1
  done
done
echo "LANE-DONE" >> $LOG
