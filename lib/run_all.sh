#!/bin/sh
# run every claimed quick check on the current tree (evidence refresh before a commit)
cd /verif
for id in $(python3 -c "import json;print(' '.join(c['property_id'] for c in json.load(open('MANIFEST.json'))['checks']))"); do
  ./check $id --tier ${1:-quick} > .build/all-$id.log 2>&1; echo "$id rc=$? $(grep -c '^KNOWN-FINDING' .build/all-$id.log) known; $(head -1 .build/all-$id.log | cut -c1-160)"
done
