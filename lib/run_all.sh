#!/bin/sh
# lib/run_all.sh [quick|thorough] [ID...] — run the claimed checks on the current tree, one after the other
# (evidence refresh before a commit; also usable from a `vp run` snapshot: works relative to its own location)
cd "$(dirname "$0")/.." || exit 9
TIER=${1:-quick}; [ $# -gt 0 ] && shift
IDS=${*:-$(python3 -c "import json;print(' '.join(c['property_id'] for c in json.load(open('MANIFEST.json'))['checks']))")}
mkdir -p .build
for id in $IDS; do
  t0=$(date +%s)
  ./check $id --tier $TIER > .build/all-$id-$TIER.log 2>&1; rc=$?
  echo "$id rc=$rc $(( $(date +%s) - t0 ))s $(grep -c '^KNOWN-FINDING' .build/all-$id-$TIER.log) known; $(grep -E '^C[0-9]+ tier=' .build/all-$id-$TIER.log | tail -1 | cut -c1-200)"
  grep -E "^(VIOLATION|INCONCLUSIVE|ENCODING|VACUOUS|BUILD-FAILURE|SOLVER|ENGINE)" .build/all-$id-$TIER.log | head -5
done
