#!/bin/sh
# lib/confirm_mutant.sh <mutant-dir>   (dir holds patch.diff and demo.rs; demo.rs may start with "// features: a b c")
# Confirms in a scratch worktree: unchanged tree: demo passes; changed tree: builds (default + all features), lib tests pass, demo fails.
D=$(realpath $1); W=/tmp/wt/confirm
git -C /repo worktree remove --force $W 2>/dev/null
git -C /repo worktree add -q $W HEAD || exit 9
cp /repo/Cargo.lock $W/; mkdir -p $W/tests; cp $D/demo.rs $W/tests/demo_mut.rs
FEAT=$(head -1 $D/demo.rs | sed -n 's,^// features: *,,p')
cd $W
export CARGO_NET_OFFLINE=true CARGO_TARGET_DIR=/tmp/wt/confirm-target
base_demo=$(cargo test --offline --features "$FEAT" --test demo_mut 2>&1 | grep -E "^test result|^error" | tail -1)
git apply $D/patch.diff || { echo "PATCH-DOES-NOT-APPLY"; exit 8; }
mut_lib=$(cargo test --offline --lib 2>&1 | grep -E "^test result" | tail -1)
mut_feat=$(cargo build --offline --features "vec8 vec16 vec32 vec64 uv uvw mint bytemuck az" 2>&1 | grep -cE "^error")
mut_demo=$(cargo test --offline --features "$FEAT" --test demo_mut 2>&1 | grep -E "^test result|error\[" | tail -1)
echo "unchanged: demo: $base_demo"
echo "changed:   lib:  $mut_lib"
echo "changed:   all-features build errors: $mut_feat"
echo "changed:   demo: $mut_demo"
cd /; git -C /repo worktree remove --force $W
