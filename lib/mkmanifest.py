#!/usr/bin/env python3
"""Regenerate /verif/MANIFEST.json from lib/props.py (claimed checks) and properties.jsonl."""
import json, os, sys, subprocess
V = os.path.dirname(os.path.dirname(os.path.abspath(__file__)))
sys.path.insert(0, os.path.join(V, "lib"))
import props
ids = [json.loads(l)["id"] for l in open(os.path.join(V, "properties.jsonl"))]
hook_commits = [l.split()[0] for l in subprocess.run(["git", "-C", "/repo", "log", "--format=%h %s"], stdout=subprocess.PIPE, text=True).stdout.splitlines() if "verif hook" in l]
checks, na = [], []
for i in ids:
    p = props.PROPS.get(i)
    if not p or p.get("not_applicable"):
        na.append({"property_id": i, "reason": (p or {}).get("not_applicable", "check not built yet in this session (work in progress; see DESIGN.md §4 for the planned encoding)")})
        continue
    eng = {"S": "symx", "K": "kani", "SK": "symx+kani", "KS": "symx+kani"}[p["engines"]]
    checks.append({
        "property_id": i,
        "quick_cmd": "./check %s --tier quick" % i,
        "thorough_cmd": "./check %s --tier thorough" % i,
        "evidence_file": "/verif/evidence/%s.json" % i,
        "replay_cmd_template": "./check %s --replay {path}" % i,
        "engine": eng,
        "level_claimed": {"category": "model_checking", "text": p["level_text"], "design_ref": p.get("design_ref", "DESIGN.md §4 " + i)},
        "level_note": p["level_note"],
        "technique": p["technique"],
    })
m = {
    "version": 1,
    "setup_cmd": "./check --build",
    "hooks": {
        "guard": "yoanlcq_vek_verif",
        "enable": "RUSTFLAGS=\"--cfg yoanlcq_vek_verif\" when building /verif/symx (path dependency on /repo); the Kani crate needs no hook",
        "baseline_off_cmd": "cd /repo && cargo test --workspace --no-fail-fast --offline",
        "source_commits": hook_commits,
        "add_only": True,
    },
    "engines": [
        {"name": "symx", "path": "/verif/symx", "serves_properties": [c["property_id"] for c in checks if "symx" in c["engine"]], "kind_free_text": "symbolic execution of the real generic vek code at symbolic scalar types (exact reals / opaque terms / bounded integers), path forking by re-execution, SMT-LIB goals decided by z3 4.8.12 + z3 5.1 + cvc5, native replay of counterexamples"},
        {"name": "kani", "path": "/verif/kani", "serves_properties": [c["property_id"] for c in checks if "kani" in c["engine"]], "kind_free_text": "Kani 0.68 proof harnesses over kani::any() inputs on the compiled real code, CBMC 6.11 + cadical, unwinding assertions on"},
    ],
    "checks": checks,
    "not_applicable": na,
    "notes": "All checks go through ./check (lib/check.py). Exit 0 = nothing refuted, 1 = VIOLATION (natively reproduced), 2 = build failure / vacuity / solver disagreement / non-reproducing counterexample. known-findings.txt lists recorded defects.",
}
json.dump(m, open(os.path.join(V, "MANIFEST.json"), "w"), indent=1)
print("MANIFEST: %d checks, %d not_applicable" % (len(checks), len(na)))
