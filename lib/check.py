#!/usr/bin/env python3
"""/verif check driver — solver-based checking of the real vek code (see /verif/DESIGN.md).

  ./check <ID> [--tier quick|thorough] [--only SUBSTR] [--replay FILE] [--keep]
  ./check --build            build both harness crates (setup)
  ./check --clean            remove /verif/.build

Engine S: `symx` executes the real, monomorphised vek functions on symbolic scalars and emits one
SMT-LIB script per (path, goal); this driver discharges them with z3 (4.8.12, raced/cross-checked with
z3 5.1 and cvc5), replays every satisfiable goal natively (f64 and exact-rational instantiations of
the same scenario code) and only then reports a VIOLATION.
Engine K: `cargo kani` harnesses in /verif/kani (CBMC decides; concrete playback replays).

Exit 0: nothing refuted (undecided goals are listed); 1: VIOLATION (reproduced natively, not a known
finding); 2: build failure, vacuous scenario, solver disagreement or non-reproducing counterexample.
"""
import concurrent.futures as cf
import hashlib
import json
import os
import re
import shutil
import subprocess
import sys
import time

VERIF = os.path.dirname(os.path.dirname(os.path.abspath(__file__)))
REPO = os.environ.get("VERIF_REPO", "/repo")
BUILD = os.environ.get("VERIF_BUILD", os.path.join(VERIF, ".build"))  # override: isolated lane for self-tests on scratch trees
OUT = os.environ.get("VERIF_OUT", VERIF)  # where evidence/ and replays/ go (override only for self-tests on scratch trees)
SYMX_DIR = os.path.join(VERIF, "symx")
KANI_DIR = os.path.join(VERIF, "kani")
# a scratch tree (VERIF_REPO) gets its own target directory so that concurrent runs cannot swap binaries
SYMX_TARGET = os.path.join(BUILD, "symx" if REPO == "/repo" else "symx-alt-target")
SYMX_BIN = os.path.join(SYMX_TARGET, "release", "symx")
Z3_OLD = "/usr/bin/z3"
Z3_NEW = shutil.which("z3-new") or "/usr/local/bin/z3-new"
CVC5 = "/usr/bin/cvc5"
JOBS = int(os.environ.get("VERIF_JOBS", "16"))

sys.path.insert(0, os.path.join(VERIF, "lib"))


def log(*a):
    print(*a, flush=True)


# ------------------------------------------------------------------------------------------------
# build
# ------------------------------------------------------------------------------------------------
def cargo_env(extra=None):
    env = dict(os.environ)
    env["CARGO_NET_OFFLINE"] = "true"
    env.pop("RUSTC_WRAPPER", None)
    if extra:
        env.update(extra)
    return env


def build_symx():
    t0 = time.time()
    env = cargo_env({"RUSTFLAGS": "--cfg yoanlcq_vek_verif", "CARGO_TARGET_DIR": SYMX_TARGET})
    # the path dependency is /repo: cargo fingerprints its sources, so edits there are rebuilt
    toml = os.path.join(SYMX_DIR, "Cargo.toml")
    if REPO != "/repo":
        # point the harness crate at another tree (self-test on scratch copies)
        src = open(toml).read().replace('path = "/repo"', 'path = "%s"' % REPO)
        alt = os.path.join(BUILD, "symx-alt")
        if os.path.exists(alt):
            shutil.rmtree(alt)
        shutil.copytree(SYMX_DIR, alt, ignore=shutil.ignore_patterns("target"))
        open(os.path.join(alt, "Cargo.toml"), "w").write(src)
        cwd = alt
    else:
        cwd = SYMX_DIR
    p = subprocess.run(["cargo", "build", "--release", "--offline"], cwd=cwd, env=env, stdout=subprocess.PIPE, stderr=subprocess.STDOUT, text=True)
    if p.returncode != 0:
        log(p.stdout[-6000:])
        log("BUILD-FAILURE engine=symx (vek at %s with --cfg yoanlcq_vek_verif and all type features)" % REPO)
        sys.exit(2)
    return time.time() - t0


# ------------------------------------------------------------------------------------------------
# solver plumbing
# ------------------------------------------------------------------------------------------------
_SOLVER_CACHE = {}
SOLVER_CACHE_HITS = [0]


def run_solver(cmd, script, timeout):
    """One fresh solver process per script. Identical (solver, script) pairs — the bare / abstracted attempts of a
    goal that recurs on many paths — are answered from this run's cache when the first answer was definitive."""
    key = (cmd[0], hashlib.sha1(script.encode()).hexdigest())
    hit = _SOLVER_CACHE.get(key)
    if hit is not None:
        SOLVER_CACHE_HITS[0] += 1
        return hit[0], hit[1], 0.0
    v, out, dt = _run_solver(cmd, script, timeout)
    if v in ("sat", "unsat"):
        _SOLVER_CACHE[key] = (v, out)
    return v, out, dt


def _run_solver(cmd, script, timeout):
    t0 = time.time()
    try:
        p = subprocess.run(cmd, input=script, stdout=subprocess.PIPE, stderr=subprocess.STDOUT, text=True, timeout=timeout + 5)
        out = p.stdout
    except subprocess.TimeoutExpired:
        return "timeout", "", time.time() - t0
    dt = time.time() - t0
    lines = [l.strip() for l in out.splitlines() if l.strip()]
    if any(l.startswith("(error") for l in lines):
        return "error", out, dt
    if not lines:
        return "unknown", out, dt
    v = lines[0]
    if v not in ("sat", "unsat", "unknown"):
        v = "timeout" if "timeout" in out else "unknown"
    return v, out, dt


def solver_cmd(name, timeout):
    if name == "z3":
        return [Z3_OLD, "-in", "-T:%d" % timeout]
    if name == "z3new":
        return [Z3_NEW, "-in", "-T:%d" % timeout]
    if name == "cvc5":
        return [CVC5, "--lang", "smt2", "--tlimit=%d" % (timeout * 1000)]
    raise ValueError(name)


def script_for(path, goal, with_model=False, pin=None, bare=False, light=False, opaque=False):
    """Compose the SMT-LIB script for one goal of one path (goal None = path feasibility).
    bare: leave out the precondition, the path condition and the lemma hypotheses (fewer assumptions:
    an `unsat` answer is still valid for the full script; used as a cheap first attempt)."""
    s = []
    if with_model:
        s.append("(set-option :produce-models true)")
    s.append("(set-logic %s)" % path["logic"])
    s.append(path["decls"])
    if opaque:
        # forget the definitions of the intermediate terms: each t.N becomes a free real (an abstraction:
        # `unsat` for all values of the t.N is `unsat` for the particular ones). Decides goals that are
        # consequences of the path condition as stated, without expanding any polynomial.
        s.append(re.sub(r"\(define-fun (\S+) \(\) Real .*\)", r"(declare-fun \1 () Real)", path["defs"]))
    else:
        s.append(path["defs"])
    for a in path["ax"]:
        s.append("(assert %s)" % a)
    defs = path["def"]
    if goal is not None and goal["kind"].startswith("defined:"):
        defs = defs[: int(goal["kind"].split(":")[1])]
    for a in defs:
        s.append("(assert %s)" % a)
    if not bare:
        for a in path["pre"]:
            s.append("(assert %s)" % a)
        pi = path["pi"]
        if light == "focus" and goal is not None:
            # only the path conditions that mention a term the goal mentions (fewer assumptions: `unsat` stays valid)
            toks = set(re.findall(r"[A-Za-z_][\w.]*", goal["smt"])) - {"and", "or", "not", "true", "false"}
            pi = [a for a in pi if toks & set(re.findall(r"[A-Za-z_][\w.]*", a))]
        elif light:
            # only the syntactically small half of the path condition
            pi = sorted(pi, key=len)[: max(1, (len(pi) + 1) // 2)]
        for a in pi:
            s.append("(assert %s)" % a)
    if pin:
        for a in pin:
            s.append("(assert %s)" % a)
    if goal is not None:
        if not bare:
            for h in goal.get("hyps", []):
                s.append("(assert %s)" % h)
        s.append("(assert (not %s))" % goal["smt"])
    s.append("(check-sat)")
    if with_model:
        names = list(path["inputs"])
        for t in path["trig"]:
            names += ["sn.%d" % t["k"], "cs.%d" % t["k"]]
        if names:
            s.append("(get-value (%s))" % " ".join(names))
    return "\n".join(s) + "\n"


def decide(script, logic, timeout, cross=False):
    """Return dict(verdict, solver, time, solvers:{name:verdict}). Nonlinear goals go to z3 4.8.12 first and
    then to z3 5.1 (neither dominates); linear / UF goals to z3 then cvc5. `cross`: always ask the
    second solver too and report disagreement."""
    nonlinear = logic in ("QF_NRA", "ALL", "QF_NIA")
    second = "z3new" if nonlinear else "cvc5"
    res = {}
    t_all = 0.0
    if nonlinear and timeout >= 60 and not cross:
        # long-running nonlinear goal: race the two z3 versions, first definite verdict wins
        t0 = time.time()
        procs = {}
        for name in ("z3", "z3new"):
            p = subprocess.Popen(solver_cmd(name, timeout), stdin=subprocess.PIPE, stdout=subprocess.PIPE, stderr=subprocess.STDOUT, text=True)
            try:
                p.stdin.write(script)
                p.stdin.close()
            except BrokenPipeError:
                pass
            procs[name] = p
        verdict, who = "unknown", None
        while procs and time.time() - t0 < timeout + 5:
            for name, p in list(procs.items()):
                if p.poll() is not None:
                    out = p.stdout.read()
                    lines = [l.strip() for l in out.splitlines() if l.strip()]
                    v = lines[0] if lines and not any(l.startswith("(error") for l in lines) else "error"
                    res[name] = v if v in ("sat", "unsat", "unknown") else "timeout"
                    del procs[name]
                    if v in ("sat", "unsat") and who is None:
                        verdict, who = v, name
            if who:
                break
            time.sleep(0.05)
        for name, p in procs.items():
            p.kill()
            res.setdefault(name, "stopped")
        return {"verdict": verdict, "solver": who, "time": time.time() - t0, "solvers": res}
    order = ["z3", second]
    verdict, who = "unknown", None
    for i, name in enumerate(order):
        if i == 1 and verdict in ("sat", "unsat") and not cross:
            break
        tmo = timeout if i == 0 else max(5, timeout)
        v, out, dt = run_solver(solver_cmd(name, tmo), script, tmo)
        t_all += dt
        res[name] = v
        if v in ("sat", "unsat") and verdict not in ("sat", "unsat"):
            verdict, who = v, name
    definite = {v for v in res.values() if v in ("sat", "unsat")}
    return {"verdict": "disagree" if len(definite) == 2 else verdict, "solver": who, "time": t_all, "solvers": res}


# ------------------------------------------------------------------------------------------------
# model parsing
# ------------------------------------------------------------------------------------------------
def tokenize(s):
    return re.findall(r"\(|\)|[^\s()]+", s)


def parse_sexp(tokens, i=0):
    if tokens[i] == "(":
        lst = []
        i += 1
        while tokens[i] != ")":
            x, i = parse_sexp(tokens, i)
            lst.append(x)
        return lst, i + 1
    return tokens[i], i + 1


def num_of(x):
    """SMT value -> ('q', n, d) or ('f', float) or None"""
    from fractions import Fraction

    def ev(x):
        if isinstance(x, str):
            t = x.rstrip("?")
            if re.fullmatch(r"-?\d+", t):
                return Fraction(int(t))
            if re.fullmatch(r"-?\d+\.\d*", t):
                return Fraction(t)
            raise ValueError(x)
        if x[0] == "-" and len(x) == 2:
            return -ev(x[1])
        if x[0] == "-" and len(x) == 3:
            return ev(x[1]) - ev(x[2])
        if x[0] == "+":
            return sum(ev(y) for y in x[1:])
        if x[0] == "*":
            r = Fraction(1)
            for y in x[1:]:
                r *= ev(y)
            return r
        if x[0] == "/":
            return ev(x[1]) / ev(x[2])
        if x[0] == "to_real":
            return ev(x[1])
        raise ValueError(x)

    try:
        return ev(x)
    except (ValueError, ZeroDivisionError):
        return None


def get_model(path, goal, timeout, pin=None):
    """Re-solve with models on; returns {name: str value} or None."""
    from fractions import Fraction

    script = script_for(path, goal, with_model=True, pin=pin)
    for name, extra in (("z3", ""), ("z3new", "")):
        v, out, dt = run_solver(solver_cmd(name, timeout), script, timeout)
        if v != "sat":
            continue
        body = out[out.index("sat") + 3 :]
        approx = "root-obj" in body
        if approx:
            v2, out2, _ = run_solver(solver_cmd(name, timeout), "(set-option :pp.decimal true)\n(set-option :pp.decimal_precision 17)\n" + script, timeout)
            if v2 == "sat":
                body = out2[out2.index("sat") + 3 :]
        try:
            toks = tokenize(body)
            sx, _ = parse_sexp(toks, 0)
        except Exception:
            continue
        vals = {}
        for pair in sx:
            if isinstance(pair, list) and len(pair) == 2 and isinstance(pair[0], str):
                q = num_of(pair[1])
                if q is not None:
                    vals[pair[0]] = q
        return vals
    return None


GRIDS = [
    ["0", "1", "(- 1)", "(/ 1 2)", "(- (/ 1 2))", "2", "(- 2)"],
    ["0", "1", "(- 1)", "(/ 1 2)", "(- (/ 1 2))", "2", "(- 2)", "(/ 3 5)", "(- (/ 3 5))", "(/ 4 5)", "(- (/ 4 5))", "(/ 5 4)", "(- (/ 5 4))", "(/ 5 3)", "(- (/ 5 3))", "3", "(- 3)", "(/ 1 4)", "(/ 3 4)", "(/ 1 3)", "(/ 2 3)"],
]


def grid_pin(path, grid):
    """Assertions restricting every plain real input of the path to a small set of rationals."""
    trig_vars = set(t.get("var") for t in path["trig"] if t.get("var") is not None)
    pins = []
    for n in path["inputs"]:
        if n in trig_vars or n in ("PI", "EPS", "M"):
            continue
        if not re.search(r"\(declare-(fun|const) %s (\(\) )?Real\)" % re.escape(n), path["decls"]):
            continue
        pins.append("(or %s)" % " ".join("(= %s %s)" % (n, v) for v in grid))
    return pins


def inputs_from_model(path, vals):
    """Model values -> replay inputs (strings). Angles are recovered from their (sin, cos) pair."""
    import math
    from fractions import Fraction

    inp = {}
    for n in path["inputs"]:
        if n in vals:
            q = vals[n]
            if q.denominator.bit_length() < 100 and abs(q.numerator).bit_length() < 100:
                inp[n] = "%d/%d" % (q.numerator, q.denominator)
            else:
                inp[n] = repr(float(q))
    best = {}
    for t in path["trig"]:
        if t.get("var") is None:
            continue
        sn, cs = vals.get("sn.%d" % t["k"]), vals.get("cs.%d" % t["k"])
        if sn is None or cs is None:
            continue
        scale = Fraction(t["n"], t["d"])  # arg = var * scale
        ang = math.atan2(float(sn), float(cs)) / float(scale)
        key = abs(scale - 1)
        if t["var"] not in best or key < best[t["var"]][0]:
            best[t["var"]] = (key, ang)
    for v, (_, ang) in best.items():
        inp[v] = repr(ang)
    if path["trig"]:
        # paths with sin/cos atoms are evaluated natively with the pi-periodic functions: keep the native pi there
        inp.pop("PI", None)
    inp.pop("M", None)
    # EPS stays: the exact-rational replay scalar takes the model's epsilon (the f64 replay has its own and ignores it)
    return inp


# ------------------------------------------------------------------------------------------------
# native replay
# ------------------------------------------------------------------------------------------------
def run_replay(scenario, engine, inputs, seed, samples=1, workdir=None):
    args = [SYMX_BIN, "replay", "--scenario", scenario, "--engine", engine, "--seed", str(seed), "--samples", str(samples)]
    if inputs is not None:
        f = os.path.join(workdir or BUILD, "replay-inputs-%d-%s.txt" % (os.getpid(), hashlib.md5((scenario + engine + repr(sorted(inputs.items()))).encode()).hexdigest()[:8]))
        with open(f, "w") as fh:
            for k, v in inputs.items():
                fh.write("%s %s\n" % (k, v))
        args += ["--inputs", f]
    try:
        p = subprocess.run(args, stdout=subprocess.PIPE, stderr=subprocess.DEVNULL, text=True, timeout=600)
    except subprocess.TimeoutExpired:
        return []
    res = []
    for l in p.stdout.splitlines():
        try:
            res.append(json.loads(l))
        except json.JSONDecodeError:
            pass
    return res


def refutes(r, goal):
    """Does native run `r` refute `goal` robustly? (preconditions all true, goal false / panic / div-by-zero)"""
    if r.get("error"):
        return False
    if any(p != "T" for p in r["pre"]):
        return False
    kind = goal["kind"]
    if kind == "range":
        # an intermediate result leaves the machine range: natively that is an overflow panic (dev profile),
        # which the scenario's "panics exactly on the documented conditions" goal observes
        return any(n.startswith("law/panics exactly") and v == "F" for n, v, _h in r["goals"])
    if kind == "nopanic":
        return r["panic"] is not None and not str(r["panic"]).startswith("abort")
    if r["panic"] is not None:
        # a goal of a normally-returning path cannot be evaluated on a run that panicked
        return False
    if kind.startswith("defined:"):
        return bool(r.get("divzero"))
    for n, v, hv in r["goals"]:
        if n == goal["name"]:
            return v == "F" and hv == "T"
    return False


def try_reproduce(sc, path, goal, vals, seed, rundir, engines, search=True):
    """Replay the solver's counterexample on the real code; fall back to a seeded native search for a
    concrete witness when the model itself does not reproduce (incomplete axioms for sin/cos...)."""
    attempts = []
    if vals is not None:
        inp = inputs_from_model(path, vals)
        for eng in engines:
            for r in run_replay(sc, eng, inp, seed, 1, rundir):
                attempts.append(r)
                if refutes(r, goal):
                    return {"how": "solver model", "engine": eng, "inputs": dict((k, v) for k, v in r["inputs"]), "run": r}
        # keep the model's values for the boundary-defining inputs, redraw nothing: second chance with
        # the rational values rounded is the same run; go to search
    if not search:
        return None
    nsamp = int(os.environ.get("VERIF_SEARCH_SAMPLES", "4000"))
    for eng in engines:
        for r in run_replay(sc, eng, None, seed, nsamp, rundir):
            if refutes(r, goal):
                return {"how": "seeded native search after a satisfiable verdict (seed %d)" % seed, "engine": eng, "inputs": dict((k, v) for k, v in r["inputs"]), "run": r}
    return None


# ------------------------------------------------------------------------------------------------
# known findings
# ------------------------------------------------------------------------------------------------
def load_known():
    known, fixed = [], []
    f = os.path.join(VERIF, "known-findings.txt")
    if os.path.exists(f):
        for l in open(f):
            l = l.strip()
            if not l or l.startswith("#"):
                continue
            m = re.match(r"known:\s+property=(\S+)\s+key=(\S+)\s+(.*)", l)
            if m:
                known.append({"prop": m.group(1), "key": m.group(2), "text": m.group(3)})
            elif l.startswith("fixed:"):
                fixed.append(l)
    return known, fixed


def known_match(known, prop, key):
    for k in known:
        if k["prop"] == prop and re.fullmatch(k["key"], key):
            return k
    return None


# ------------------------------------------------------------------------------------------------
# engine S for one property
# ------------------------------------------------------------------------------------------------
def run_symx(prop, tier, seed, only=None):
    rundir = os.path.join(BUILD, "run", prop if not only else "%s-%d" % (prop, os.getpid()))
    if os.path.exists(rundir):
        shutil.rmtree(rundir)
    os.makedirs(rundir)
    t0 = time.time()
    cmd = [SYMX_BIN, "emit", "--out", rundir, "--prop", prop, "--tier", tier, "--jobs", str(JOBS)]
    if only:
        cmd += ["--only", only]
    p = subprocess.run(cmd, stdout=subprocess.PIPE, stderr=subprocess.STDOUT, text=True)
    if p.returncode != 0:
        log(p.stdout[-4000:])
        log("ENGINE-FAILURE symx emit exited %d" % p.returncode)
        sys.exit(2)
    t_emit = time.time() - t0
    index = [json.loads(l) for l in open(os.path.join(rundir, "index.jsonl"))]
    index.sort(key=lambda s: s["name"])
    default_to = 20 if tier == "quick" else 300
    cross = tier == "thorough"
    tasks = []  # (scenario, path, goal-or-None, timeout)
    scen = {}
    for s in index:
        paths = [json.loads(l) for l in open(s["file"])]
        s["_paths"] = paths
        scen[s["name"]] = s
        to = (s["timeout_q"] if tier == "quick" else s["timeout_t"]) or default_to
        s["_timeout"] = to
        for pth in paths:
            if pth["status"] == "abort":
                continue
            need_feas = pth["ndec"] > 0 or pth["pre"] or pth["status"] == "panic"
            if pth["status"] == "ok" and pth["goals"] and all(g["smt"] == "true" and g["kind"] == "goal" for g in pth["goals"]):
                # every goal of this path is syntactically `true` (the compared results are the same hash-consed
                # term): nothing is claimed that could be vacuous, so no feasibility query is spent on it
                need_feas = False
                pth["_trivial_path"] = True
            if need_feas and not pth.get("variant"):
                tasks.append((s["name"], pth, None, min(to, 10 if tier == "quick" else 60)))
    # phase 1: feasibility
    sat_count = {}
    deadline = t0 + float(os.environ.get("VERIF_DEADLINE", "1200" if tier == "quick" else "10800"))

    def job(t):
        name, pth, g, to = t
        if g is not None and (sat_count.get(name, 0) >= 3 or time.time() > deadline):
            # this scenario already has refuted goals to replay (or the run's time budget is spent):
            # remaining goals are not attempted and are reported as undecided
            why = "skipped: scenario already has 3 refuted goals" if sat_count.get(name, 0) >= 3 else "skipped: run deadline"
            return t, {"verdict": "unknown", "solver": None, "time": 0.0, "solvers": {"driver": why}, "sha": "", "trivial": False}
        r0 = _job(t)
        if g is not None and r0[1]["verdict"] == "sat":
            sat_count[name] = sat_count.get(name, 0) + 1
        return r0

    def _job(t):
        name, pth, g, to = t
        sc = script_for(pth, g)
        if g is not None and g["kind"] == "goal" and (pth["pre"] or pth["pi"] or g.get("hyps")) and pth["logic"] in ("QF_NRA", "ALL"):
            # identities usually hold without the path condition: try the bare script first (sound:
            # fewer assumptions), which spares nlsat the inequalities of the path condition
            vo, _, dto = run_solver(solver_cmd("z3", 3), script_for(pth, g, opaque=True), 3)
            if vo == "unsat":
                return t, {"verdict": "unsat", "solver": "z3(opaque terms)", "time": dto, "solvers": {"z3(intermediate terms abstracted)": "unsat"}, "sha": hashlib.sha1(sc.encode()).hexdigest()[:12], "trivial": False}
            v0, _, dt0 = run_solver(solver_cmd("z3", 5), script_for(pth, g, bare=True), 5)
            dt0 += dto
            if v0 == "unsat":
                return t, {"verdict": "unsat", "solver": "z3(bare)", "time": dt0, "solvers": {"z3(bare)": "unsat"}, "sha": hashlib.sha1(sc.encode()).hexdigest()[:12], "trivial": g["smt"] in ("true",)}
            if len(pth["pi"]) >= 3:
                for mode in ("focus", True):
                    v1, _, dt1 = run_solver(solver_cmd("z3", 5), script_for(pth, g, light=mode), 5)
                    dt0 += dt1
                    if v1 == "unsat":
                        return t, {"verdict": "unsat", "solver": "z3(%s)" % ("focus" if mode == "focus" else "light"), "time": dt0, "solvers": {"z3(subset of the path condition)": "unsat"}, "sha": hashlib.sha1(sc.encode()).hexdigest()[:12], "trivial": False}
        r = decide(sc, pth["logic"], to, cross=cross and g is not None)
        r["sha"] = hashlib.sha1(sc.encode()).hexdigest()[:12]
        r["trivial"] = g is not None and g["smt"] in ("true",)
        return t, r

    stats = {"solver_s": 0.0}
    feas = {}
    with cf.ThreadPoolExecutor(max_workers=JOBS) as ex:
        for t, r in ex.map(job, tasks):
            feas[(t[0], t[1]["path"])] = r
            stats["solver_s"] += r["time"]
    # phase 2: goals of feasible paths
    tasks = []
    for s in index:
        for pth in s["_paths"]:
            if pth["status"] == "abort":
                continue
            f = feas.get((s["name"], pth["path"]))
            pth["_feas"] = "sat" if f is None else f["verdict"]
            if pth.get("variant"):
                pth["_variant"] = True
            if f is not None and f["verdict"] == "unsat":
                continue
            for g in pth["goals"]:
                if g["kind"] == "nopanic":
                    # reachable panic: the feasibility verdict is the answer
                    continue
                tasks.append((s["name"], pth, g, s["_timeout"]))
    results = []
    with cf.ThreadPoolExecutor(max_workers=JOBS) as ex:
        for t, r in ex.map(job, tasks):
            results.append((t, r))
            stats["solver_s"] += r["time"]
    # panicking paths that are feasible under the precondition are refuted "no_panic" goals
    for s in index:
        for pth in s["_paths"]:
            if pth["status"] == "panic" and pth["_feas"] != "unsat":
                g = pth["goals"][0]
                r = dict(feas[(s["name"], pth["path"])])
                if r["verdict"] == "sat":
                    results.append(((s["name"], pth, g, s["_timeout"]), r))
                else:
                    r = dict(r)
                    r["verdict"] = "unknown"
                    results.append(((s["name"], pth, g, s["_timeout"]), r))
    return index, results, feas, {"emit_s": t_emit, **stats, "rundir": rundir}


def symx_report(prop, tier, seed, index, results, feas, meta, known):
    """Classify verdicts, replay refuted goals, build the evidence coverage for engine S."""
    discharged, undecided, refuted, disagreements = 0, [], [], []
    shas = set()
    samples = []
    # a goal that used lemmas as hypotheses counts only if those lemma goals were discharged on the same path
    verdict_of = {(name, pth["path"], g["name"]): r["verdict"] for (name, pth, g, to), r in results}
    for (name, pth, g, to), r in results:
        if r["verdict"] == "unsat" and any(verdict_of.get((name, pth["path"], ln)) != "unsat" for ln in g.get("needs", [])):
            r["verdict"] = "unknown"
            r["solvers"] = dict(r.get("solvers", {}), lemma="a lemma this goal depends on is not discharged")
    for (name, pth, g, to), r in results:
        key = "%s::%s" % (name, g["name"])
        if r["verdict"] == "unsat":
            discharged += 1
            if not r.get("trivial"):
                shas.add(r["sha"])
            if len(samples) < 6 and not r.get("trivial") and g["kind"] == "goal":
                samples.append({"scenario": name, "path": pth["path"], "goal": g["name"], "goal_smt": g["smt"][:300], "logic": pth["logic"], "verdict": "unsat", "solver": r["solver"], "script_sha1": r["sha"], "decisions_on_path": pth["ndec"]})
        elif r["verdict"] == "sat":
            refuted.append((name, pth, g, r))
        elif r["verdict"] == "disagree":
            disagreements.append({"key": key, "path": pth["path"], "solvers": r["solvers"]})
        else:
            undecided.append({"key": key, "path": pth["path"], "solvers": r["solvers"], "timeout_s": to})
    violations, known_hits, nonrepro = [], [], []
    seen_keys = {}
    per_sc, skipped = {}, []  # replay at most 6 refuted goals per scenario once one of them has reproduced
    rdir = os.path.join(OUT, "replays", prop)
    for name, pth, g, r in refuted:
        key = "%s::%s" % (name, g["name"])
        if key in seen_keys:
            seen_keys[key]["paths"].append(pth["path"])
            continue
        per_sc[name] = per_sc.get(name, 0) + 1
        if per_sc[name] > 6 and any(e["scenario"] == name and e["reproduced"] for e in seen_keys.values()):
            skipped.append(key)
            continue
        if sum(1 for e in seen_keys.values() if e["scenario"] == name and not e["reproduced"]) >= 4:
            # four counterexamples of this scenario already failed to reproduce natively: the rest are reported
            # as inconclusive without spending another model query + native search on each
            skipped.append(key)
            continue
        sc = next(s for s in index if s["name"] == name)
        engines = [e for e in ("f64", "cn") if sc["has_" + e]]
        vals, rep = None, None
        if sc.get("extra"):
            # engines with a pinned symbolic parameter (machine widths): re-solve with the pin, replay there
            for ename, pin in sc["extra"]:
                vals = get_model(pth, g if g["kind"] != "nopanic" else None, min(to_for(sc, tier), 30), pin=[pin])
                if vals is None:
                    continue
                rep = try_reproduce(name, pth, g, vals, seed, meta["rundir"], [ename], search=False)
                if rep:
                    break
            if rep is None:
                rep = try_reproduce(name, pth, g, None, seed, meta["rundir"], [e for e, _ in sc["extra"]])
        else:
            engines = engines or ["cn"]
            gg = g if g["kind"] != "nopanic" else None
            vals = get_model(pth, gg, min(to_for(sc, tier), 60))
            rep = try_reproduce(name, pth, g, vals, seed, meta["rundir"], engines, search=False)
            if rep is None:
                # the solver's witness may be algebraic (a branch boundary on an irrational surface): ask it
                # again for a witness on a small rational grid, which the exact-rational replay can run
                for grid in GRIDS:
                    gvals = get_model(pth, gg, 20, pin=grid_pin(pth, grid))
                    if gvals is None:
                        continue
                    rep = try_reproduce(name, pth, g, gvals, seed, meta["rundir"], engines, search=False)
                    if rep:
                        rep["how"] = "solver model on a rational grid"
                        vals = gvals
                        break
            if rep is None:
                rep = try_reproduce(name, pth, g, None, seed, meta["rundir"], engines)
        entry = {"key": key, "scenario": name, "goal": g["name"], "kind": g["kind"], "paths": [pth["path"]], "solver": r["solver"], "model": {k: str(v) for k, v in (vals or {}).items()}, "reproduced": rep is not None}
        seen_keys[key] = entry
        if rep is None:
            nonrepro.append(entry)
            continue
        entry["replay"] = {"how": rep["how"], "engine": rep["engine"], "inputs": rep["inputs"], "observed": {"panic": rep["run"]["panic"], "goals": [x for x in rep["run"]["goals"] if x[0] == g["name"]]}}
        k = known_match(known, prop, key)
        if k:
            entry["known"] = k["text"]
            known_hits.append(entry)
        else:
            os.makedirs(rdir, exist_ok=True)
            h = hashlib.sha1(key.encode()).hexdigest()[:10]
            rp = os.path.join(rdir, "%s-%s.json" % (re.sub(r"[^A-Za-z0-9_.-]+", "_", name), h))
            json.dump({"property": prop, "engine": "symx", "scenario": name, "goal": g["name"], "kind": g["kind"], "replay_engine": rep["engine"], "inputs": rep["inputs"], "how_found": rep["how"], "negated_goal_smt": g["smt"], "path_condition": pth["pi"], "precondition": pth["pre"]}, open(rp, "w"), indent=1)
            entry["replay_file"] = rp
            violations.append(entry)
    # translator validation: run every scenario natively (exact-rational / f64 instantiation of the same
    # code) on seeded inputs; a goal the solver discharged on every path must never evaluate to false
    goal_verdicts = {}
    for (name, pth, g, to), r in results:
        goal_verdicts.setdefault((name, g["name"]), set()).add(r["verdict"])
    nval = int(os.environ.get("VERIF_VALIDATE_SAMPLES", "24"))

    def vjob(sc):
        eng = "cn" if sc["has_cn"] else ("f64" if sc["has_f64"] else (sc["extra"][0][0] if sc.get("extra") else None))
        if eng is None:
            return sc["name"], []
        return sc["name"], run_replay(sc["name"], eng, None, seed * 1000 + 17, nval, meta["rundir"])

    traces, mismatches, vsamples = 0, [], []
    native_found = {}
    with cf.ThreadPoolExecutor(max_workers=JOBS) as ex:
        for name, runs in ex.map(vjob, index):
            for r in runs:
                if r.get("error") or any(p != "T" for p in r["pre"]) or r["panic"] is not None:
                    continue
                traces += 1
                if len(vsamples) < 3:
                    vsamples.append({"scenario": name, "engine": r["engine"], "inputs": dict(r["inputs"]), "goals_true": sum(1 for _, v, _h in r["goals"] if v == "T"), "goals_unknown": sum(1 for _, v, _h in r["goals"] if v == "U")})
                for gname, v, hv in r["goals"]:
                    if v == "F" and hv == "T":
                        vs = goal_verdicts.get((name, gname), set())
                        if vs == {"unsat"}:
                            mismatches.append({"scenario": name, "goal": gname, "inputs": dict(r["inputs"])})
                        elif "sat" not in vs and (name, gname) not in native_found:
                            # the solver left this goal undecided on some path and a native run refutes it
                            native_found[(name, gname)] = r
    for (name, gname), r in native_found.items():
        key = "%s::%s" % (name, gname)
        entry = {"key": key, "scenario": name, "goal": gname, "kind": "goal", "paths": [], "solver": None, "model": {}, "reproduced": True,
                 "replay": {"how": "native validation run on a goal the solver left undecided (not a solver counterexample)", "engine": r["engine"], "inputs": dict(r["inputs"]), "observed": {"panic": r["panic"], "goals": [x for x in r["goals"] if x[0] == gname]}}}
        kf = known_match(known, prop, key)
        if kf:
            entry["known"] = kf["text"]
            known_hits.append(entry)
        else:
            os.makedirs(rdir, exist_ok=True)
            rp = os.path.join(rdir, "%s-%s.json" % (re.sub(r"[^A-Za-z0-9_.-]+", "_", name), hashlib.sha1(key.encode()).hexdigest()[:10]))
            json.dump({"property": prop, "engine": "symx", "scenario": name, "goal": gname, "kind": "goal", "replay_engine": r["engine"], "inputs": dict(r["inputs"]), "how_found": entry["replay"]["how"]}, open(rp, "w"), indent=1)
            entry["replay_file"] = rp
            violations.append(entry)
    npaths = sum(1 for s in index for p in s["_paths"] if not p.get("variant"))
    infeasible = sum(1 for s in index for p in s["_paths"] if p.get("_feas") == "unsat" and not p.get("variant"))
    vac = [s["name"] for s in index if all(p.get("_feas") == "unsat" or p["status"] == "abort" for p in s["_paths"])]
    cov = {
        "engine": "symx (generic instantiation of the real vek code at symbolic scalars; one SMT query per path x goal)",
        "scenarios": len(index),
        "functions_encoded": sorted({f for s in index for f in s["funcs"]}),
        "paths_explored": npaths,
        "paths_infeasible": infeasible,
        "paths_panicked": sum(s["panicked"] for s in index),
        "paths_bounded_out": sum(s["aborted"] for s in index),
        "scenarios_path_capped": [s["name"] for s in index if s["bounded_out"]],
        "decisions": sum(s["decisions"] for s in index),
        "term_nodes": sum(s["nodes"] for s in index),
        "queries": len(results) + len(feas),
        "goals": len(results),
        "discharged": discharged,
        "undecided": undecided[:40],
        "undecided_count": len(undecided),
        "refuted_reproduced_known": [e["key"] for e in known_hits],
        "refuted_not_replayed": skipped[:50],
        "solver_disagreements": disagreements,
        "solver_time_s": round(meta["solver_s"], 2),
        "emit_time_s": round(meta["emit_s"], 2),
        "distinct_scripts": len(shas),
        "samples": samples,
        "native_validation_traces": traces,
        "native_validation_samples": vsamples,
        "encoding_mismatches": mismatches[:10],
    }
    return cov, violations, known_hits, nonrepro, disagreements, vac


def to_for(sc, tier):
    return sc.get("_timeout", 20)


# ------------------------------------------------------------------------------------------------
# main
# ------------------------------------------------------------------------------------------------
def main():
    args = sys.argv[1:]
    if not args or args[0] in ("-h", "--help"):
        print(__doc__)
        return 0
    if args[0] == "--clean":
        shutil.rmtree(BUILD, ignore_errors=True)
        return 0
    if args[0] == "--build":
        dt = build_symx()
        log("built symx in %.1fs" % dt)
        import kani_driver

        kani_driver.warm(log)
        return 0

    prop = args[0]
    tier = os.environ.get("VERIF_TIER", "quick")
    only = None
    replay_file = None
    i = 1
    while i < len(args):
        if args[i] == "--tier":
            tier = args[i + 1]
            i += 2
        elif args[i] == "--only":
            only = args[i + 1]
            i += 2
        elif args[i] == "--replay":
            replay_file = args[i + 1]
            i += 2
        else:
            i += 1
    seed = int(os.environ.get("VERIF_SEED", "0"))
    import props

    if prop not in props.PROPS:
        log("unknown property %s" % prop)
        return 2
    spec = props.PROPS[prop]
    t_start = time.time()
    known, fixed = load_known()

    if replay_file:
        return do_replay(prop, replay_file)

    coverage = {}
    violations, known_hits, nonrepro, disagreements, vac = [], [], [], [], []
    build_s = 0.0
    if "S" in spec["engines"]:
        build_s = build_symx()
        index, results, feas, meta = run_symx(prop, tier, seed, only)
        cov, violations, known_hits, nonrepro, disagreements, vac = symx_report(prop, tier, seed, index, results, feas, meta, known)
        coverage["symx"] = cov
    kres = None
    if "K" in spec["engines"] and not only:
        import kani_driver

        kres = kani_driver.run(prop, tier, seed, known, log)
        coverage["kani"] = kres["coverage"]
        violations += kres["violations"]
        known_hits += kres["known_hits"]
        nonrepro += kres["nonrepro"]
    elif "K" in spec["engines"] and only and only.startswith("kani:"):
        import kani_driver

        kres = kani_driver.run(prop, tier, seed, known, log, only=only[5:])
        coverage["kani"] = kres["coverage"]
        violations += kres["violations"]
        known_hits += kres["known_hits"]
        nonrepro += kres["nonrepro"]

    wall = time.time() - t_start
    # ---- evidence ----
    s = coverage.get("symx", {})
    kc = coverage.get("kani", {})
    queries = s.get("queries", 0) + kc.get("harnesses_run", 0)
    distinct = s.get("distinct_scripts", 0) + kc.get("harnesses_passed", 0)
    samples = (s.get("samples", []) + kc.get("samples", []))[:10] or [{"note": "no goal was discharged in this run"}]
    ev = {
        "property_id": prop,
        "tier": tier,
        "seed": seed,
        "level": "model_checking",
        "coverage": {
            "states": max(1, s.get("paths_explored", 0) - s.get("paths_infeasible", 0) + kc.get("harnesses_run", 0)),
            "transitions": max(1, s.get("decisions", 0) + kc.get("checks_total", 0)),
            "traces_validated_against_impl": s.get("native_validation_traces", 0) + kc.get("playbacks", 0),
            "samples": samples,
            "evaluations": max(1, queries),
            "distinct_nontrivial": distinct,
            "rule": "one evaluation = one solver query (symx: negated goal or path feasibility under the path condition; kani: one proof harness decided by CBMC). distinct_nontrivial = number of distinct SMT scripts (by SHA-1) with verdict unsat whose goal is not syntactically `true`, plus Kani harnesses that passed with their cover (reachability) witness satisfied.",
            "explanation": "bounded symbolic execution of the real code + SMT/SAT verdicts; 'states' = feasible symbolic paths + harnesses, 'transitions' = branch decisions on those paths + CBMC property checks; traces_validated_against_impl = native runs (exact-rational / f64 instantiation of the same scenario code on seeded inputs) on which every solver-discharged goal was confirmed not false (translator validation), plus Kani concrete playbacks",
            "bounds": spec.get("bounds", {}),
            "engines": coverage,
            "obligations": s.get("goals", 0) + kc.get("harnesses_run", 0),
            "discharged": s.get("discharged", 0) + kc.get("harnesses_passed", 0),
            "undecided": s.get("undecided_count", 0) + kc.get("undecided", 0),
            "known_findings_matched": [e["key"] for e in known_hits],
            "build_s": round(build_s, 1),
            "solvers": {"z3": "4.8.12 (/usr/bin/z3)", "z3new": "5.1.0", "cvc5": "1.0.3", "kani": "0.68.0 / CBMC 6.11.0 (cadical)"},
            "solver_cache_hits": SOLVER_CACHE_HITS[0],
            "solver_cache_note": "a (solver, script) pair that recurs within this run (the same goal without its path condition on another path) is answered from the first definitive verdict of this run; nothing is cached across runs",
        },
        "assumptions": spec.get("assumptions", []),
        "wall_s": round(wall, 2),
        "violations": len(violations),
    }
    # a partial run (--only) must not replace the property's evidence file
    evdir = os.path.join(OUT, "evidence") if not only else os.path.join(BUILD, "evidence-partial")
    os.makedirs(evdir, exist_ok=True)
    json.dump(ev, open(os.path.join(evdir, "%s.json" % prop), "w"), indent=1, default=str)

    # ---- report ----
    log("%s tier=%s seed=%d: symx %d goals discharged / %d undecided / %d paths (%d infeasible); kani %d/%d harnesses; solver %.1fs wall %.1fs" % (
        prop, tier, seed, s.get("discharged", 0), s.get("undecided_count", 0), s.get("paths_explored", 0), s.get("paths_infeasible", 0), kc.get("harnesses_passed", 0), kc.get("harnesses_run", 0), s.get("solver_time_s", 0.0), wall))
    for u in s.get("undecided", [])[:10]:
        log("  UNDECIDED %s path %s %s" % (u["key"], u["path"], u["solvers"]))
    for e in known_hits:
        log("KNOWN-FINDING: property=%s %s — %s" % (prop, e["key"], e.get("known", "")))
    rc = 0
    if vac:
        log("VACUOUS scenarios (no feasible path): %s" % vac)
        rc = 2
    if not only and s.get("undecided_count", 0) > 0 and s.get("discharged", 0) == 0:
        # the run deadline was reached before a single goal was decided (a tree on which path exploration blows up, or a
        # machine far slower than planned for): "nothing refuted" would be an empty statement, so nothing is claimed
        log("INCONCLUSIVE no goal of engine S was decided (%d undecided): nothing is claimed for this tree" % s.get("undecided_count", 0))
        rc = 2
    if disagreements:
        log("SOLVER-DISAGREEMENT: %s" % disagreements[:5])
        rc = 2
    if s.get("encoding_mismatches"):
        log("ENCODING-MISMATCH (a goal the solver discharged evaluates to false on a native run): %s" % json.dumps(s["encoding_mismatches"][:3])[:1500])
        rc = 2
    if nonrepro:
        for e in nonrepro[:10]:
            log("INCONCLUSIVE %s: solver says the negated goal is satisfiable but no native run reproduces it (model %s)" % (e["key"], json.dumps(e.get("model", {}))[:300]))
        rc = 2
    if violations:
        for e in violations:
            log("VIOLATION property=%s replay=%s" % (prop, e["replay_file"]))
            log("  %s  inputs=%s" % (e["key"], json.dumps(e.get("replay", {}).get("inputs", {}))[:400]))
        rc = 1
    return rc


def do_replay(prop, f):
    d = json.load(open(f))
    if d.get("engine") == "kani":
        import kani_driver

        return kani_driver.replay(d, log)
    build_symx()
    rs = run_replay(d["scenario"], d["replay_engine"], d["inputs"], 0, 1)
    g = {"name": d["goal"], "kind": d["kind"]}
    for r in rs:
        log(json.dumps(r)[:2000])
        if refutes(r, g):
            log("REPRODUCED property=%s scenario=%s goal=%s" % (prop, d["scenario"], d["goal"]))
            return 1
    log("not reproduced")
    return 0


if __name__ == "__main__":
    sys.exit(main())
