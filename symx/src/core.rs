//! Engine state shared by all scalars: term DAGs, decision trail, scenario recorder.
//!
//! One `Engine` per thread (thread-local). A scenario is an ordinary generic function that calls
//! the public vek API on a scalar `T`; at `T = SymR/SymU/SymI` every operation builds a term here,
//! every comparison is a *decision* recorded on the trail, and the explorer re-executes the
//! scenario once per path. At `T = f64 / Cn / Cu` the same function runs natively (replay).

use std::cell::RefCell;
use std::collections::HashMap;

// ---------------------------------------------------------------------------------------------
// Real-sorted terms
// ---------------------------------------------------------------------------------------------
#[derive(Clone, Debug, PartialEq, Eq, Hash)]
pub enum Node {
    Var(String),
    Const(i128, i128),
    Add(u32, u32),
    Sub(u32, u32),
    Mul(u32, u32),
    Div(u32, u32),
    Neg(u32),
    /// sqrt sin cos acos asin atan2 floor ceil round trunc
    Fun(&'static str, Vec<u32>),
    /// if cond then a else b  (non-forking min/max/abs)
    Ite(u32, u32, u32),
    /// Integer-sorted nodes (SymI): truncating division and remainder
    IDiv(u32, u32),
    IRem(u32, u32),
}

// ---------------------------------------------------------------------------------------------
// Opaque-sorted terms (sort U)
// ---------------------------------------------------------------------------------------------
#[derive(Clone, Debug, PartialEq, Eq, Hash)]
pub enum UNode {
    Var(String),
    App(String, Vec<u32>),
}

#[derive(Clone, Debug, PartialEq, Eq, Hash)]
pub enum Cond {
    Lt(u32, u32),
    Le(u32, u32),
    Eq(u32, u32),
    /// opaque predicate over U terms
    UPred(String, Vec<u32>),
    /// equality of U terms
    UEq(u32, u32),
}

/// three-valued truth for concrete (replay) evaluation
#[derive(Clone, Copy, Debug, PartialEq, Eq)]
pub enum Tri {
    T,
    F,
    U,
}
impl Tri {
    pub fn not(self) -> Tri {
        match self {
            Tri::T => Tri::F,
            Tri::F => Tri::T,
            Tri::U => Tri::U,
        }
    }
    pub fn of(b: bool) -> Tri {
        if b {
            Tri::T
        } else {
            Tri::F
        }
    }
}

#[derive(Clone, Debug)]
pub enum Fm {
    /// symbolic atom: index into Engine::conds
    C(u32),
    /// concrete atom, already evaluated
    V(Tri),
    Lit(bool),
    Not(Box<Fm>),
    And(Vec<Fm>),
    Or(Vec<Fm>),
}
impl Fm {
    pub fn eval(&self) -> Tri {
        match self {
            Fm::C(_) => Tri::U,
            Fm::V(t) => *t,
            Fm::Lit(b) => Tri::of(*b),
            Fm::Not(x) => x.eval().not(),
            Fm::And(v) => {
                let mut r = Tri::T;
                for x in v {
                    match x.eval() {
                        Tri::F => return Tri::F,
                        Tri::U => r = Tri::U,
                        Tri::T => {}
                    }
                }
                r
            }
            Fm::Or(v) => {
                let mut r = Tri::F;
                for x in v {
                    match x.eval() {
                        Tri::T => return Tri::T,
                        Tri::U => r = Tri::U,
                        Tri::F => {}
                    }
                }
                r
            }
        }
    }
}
pub fn lit(b: bool) -> Fm {
    Fm::Lit(b)
}
pub fn not(a: Fm) -> Fm {
    Fm::Not(Box::new(a))
}
pub fn and(v: Vec<Fm>) -> Fm {
    Fm::And(v)
}
pub fn or(v: Vec<Fm>) -> Fm {
    Fm::Or(v)
}
pub fn imp(a: Fm, b: Fm) -> Fm {
    Fm::Or(vec![not(a), b])
}
pub fn iff(a: Fm, b: Fm) -> Fm {
    Fm::And(vec![imp(a.clone(), b.clone()), imp(b, a)])
}

/// What a scalar must provide so that scenarios can be written once and run at every engine.
pub trait Sc: Copy + 'static {
    /// a free input (symbolic variable, or the replay value of that name)
    fn input(name: &str) -> Self;
    /// rational constant n/d
    fn q(n: i64, d: i64) -> Self;
    fn f_eq(a: Self, b: Self) -> Fm;
    fn f_le(a: Self, b: Self) -> Fm;
    fn f_lt(a: Self, b: Self) -> Fm;
    /// DAG node of a symbolic real (None for concrete scalars)
    fn node_id(self) -> Option<u32> {
        None
    }
}
pub fn var<T: Sc>(name: &str) -> T {
    T::input(name)
}
pub fn k<T: Sc>(n: i64) -> T {
    T::q(n, 1)
}
pub fn eq<T: Sc>(a: T, b: T) -> Fm {
    T::f_eq(a, b)
}
pub fn ne<T: Sc>(a: T, b: T) -> Fm {
    not(T::f_eq(a, b))
}
pub fn le<T: Sc>(a: T, b: T) -> Fm {
    T::f_le(a, b)
}
pub fn lt<T: Sc>(a: T, b: T) -> Fm {
    T::f_lt(a, b)
}
pub fn ge<T: Sc>(a: T, b: T) -> Fm {
    T::f_le(b, a)
}
pub fn gt<T: Sc>(a: T, b: T) -> Fm {
    T::f_lt(b, a)
}

// ---------------------------------------------------------------------------------------------
// Engine
// ---------------------------------------------------------------------------------------------
#[derive(Clone, Copy, PartialEq, Eq, Debug)]
pub enum Mode {
    Sym,
    Conc,
}

pub struct PathAbort(pub &'static str);

pub struct Engine {
    pub mode: Mode,
    pub nodes: Vec<Node>,
    pub index: HashMap<Node, u32>,
    pub unodes: Vec<UNode>,
    pub uindex: HashMap<UNode, u32>,
    pub conds: Vec<Cond>,
    pub cindex: HashMap<Cond, u32>,
    // decision trail
    pub trail: Vec<bool>,
    pub pos: usize,
    pub path: Vec<(u32, bool)>,
    pub pathmap: HashMap<u32, bool>,
    pub max_decisions: usize,
    /// the outcome a fresh decision gets first (the other one on backtracking), see `explore_near`
    pub first_answer: bool,
    /// at most this many decisions per path get the other outcome (usize::MAX: all 2^k patterns), see `explore_near`
    pub max_dev: usize,
    /// decide() calls on this path, reused outcomes included (guards against cycles that only reuse)
    pub calls: usize,
    /// abs/min/max/signum build Ite terms instead of forking
    pub ite_mode: bool,
    /// integer scenario (SymI): emit Int-sorted scripts
    pub int_mode: bool,
    /// SymI: arithmetic results are *assumed* in range (no overflow obligations), for scenarios whose
    /// subject is not overflow
    pub range_assumed: bool,
    /// SymI: obligations "intermediate stays within the machine range" (cond ids that must hold)
    pub range_obl: Vec<(String, Fm)>,
    // recorder
    pub pre: Vec<Fm>,
    pub goals: Vec<(String, Fm)>,
    pub check_defined: bool,
    pub notes: Vec<String>,
    /// lemma hypotheses usable by goals tagged with the same group: (name, formula)
    pub hyps: Vec<(String, Fm)>,
    /// cut-with-abstraction groups: goals whose name starts with the group are emitted with these
    /// term nodes replaced by fresh variables (in the goal, the hypotheses, Pre and the path condition)
    pub absgroups: Vec<(String, Vec<u32>)>,
    /// (group, lemma goal name): goals of the group are only as good as these lemma goals
    pub lemma_deps: Vec<(String, String)>,
    /// while set, a decision on a condition this path has not decided before is refused (see `freeze_decisions`)
    pub frozen: bool,
    // concrete replay
    pub inputs: HashMap<String, String>,
    pub drawn: Vec<(String, String)>,
    pub rng: u64,
    pub fresh: u32,
    /// concrete runs: a division by an exact zero happened
    pub divzero: bool,
}
impl Default for Engine {
    fn default() -> Self {
        Engine {
            mode: Mode::Sym,
            nodes: vec![],
            index: HashMap::new(),
            unodes: vec![],
            uindex: HashMap::new(),
            conds: vec![],
            cindex: HashMap::new(),
            trail: vec![],
            pos: 0,
            path: vec![],
            pathmap: HashMap::new(),
            max_decisions: 48,
            first_answer: true,
            max_dev: usize::MAX,
            calls: 0,
            ite_mode: false,
            int_mode: false,
            range_assumed: false,
            range_obl: vec![],
            pre: vec![],
            goals: vec![],
            check_defined: false,
            notes: vec![],
            hyps: vec![],
            absgroups: vec![],
            lemma_deps: vec![],
            frozen: false,
            inputs: HashMap::new(),
            drawn: vec![],
            rng: 0x9E3779B97F4A7C15,
            fresh: 0,
            divzero: false,
        }
    }
}
thread_local! { pub static ENG: RefCell<Engine> = RefCell::new(Engine::default()); }

pub fn with<R>(f: impl FnOnce(&mut Engine) -> R) -> R {
    ENG.with(|e| f(&mut e.borrow_mut()))
}

impl Engine {
    /// reset everything (new scenario)
    pub fn reset_all(&mut self) {
        *self = Engine::default();
        // U-term 0 is reserved: it is what an all-zero-bits SymU denotes (bytemuck::Zeroable)
        self.umk(UNode::Var("zeroed".to_string()));
    }
    /// reset the per-run recorder, keep DAG + trail (new path of same scenario)
    pub fn reset_run(&mut self) {
        self.pos = 0;
        self.calls = 0;
        self.path.clear();
        self.pathmap.clear();
        self.pre.clear();
        self.goals.clear();
        self.range_obl.clear();
        self.notes.clear();
        self.hyps.clear();
        self.absgroups.clear();
        self.lemma_deps.clear();
        self.frozen = false;
        self.drawn.clear();
        self.check_defined = false;
        self.ite_mode = false;
        self.int_mode = false;
        self.range_assumed = false;
        self.fresh = 0;
    }
    pub fn mk(&mut self, n: Node) -> u32 {
        if let Some(&i) = self.index.get(&n) {
            return i;
        }
        let i = self.nodes.len() as u32;
        self.nodes.push(n.clone());
        self.index.insert(n, i);
        i
    }
    pub fn umk(&mut self, n: UNode) -> u32 {
        if let Some(&i) = self.uindex.get(&n) {
            return i;
        }
        let i = self.unodes.len() as u32;
        self.unodes.push(n.clone());
        self.uindex.insert(n, i);
        i
    }
    pub fn mk_cond(&mut self, c: Cond) -> u32 {
        if let Some(&i) = self.cindex.get(&c) {
            return i;
        }
        let i = self.conds.len() as u32;
        self.conds.push(c.clone());
        self.cindex.insert(c, i);
        i
    }
    pub fn next_u64(&mut self) -> u64 {
        // splitmix64
        self.rng = self.rng.wrapping_add(0x9E3779B97F4A7C15);
        let mut z = self.rng;
        z = (z ^ (z >> 30)).wrapping_mul(0xBF58476D1CE4E5B9);
        z = (z ^ (z >> 27)).wrapping_mul(0x94D049BB133111EB);
        z ^ (z >> 31)
    }
}

/// A branch in the code under test. Returns the outcome for this path.
pub fn decide(c: Cond) -> bool {
    let abort = with(|e| {
        let id = e.mk_cond(c);
        e.calls += 1;
        if e.calls > 200 * e.max_decisions.max(1) {
            // an (infeasible) cycle that only re-uses earlier outcomes would never end
            return Err(false);
        }
        if let Some(&v) = e.pathmap.get(&id) {
            return Ok(v);
        }
        if e.frozen {
            return Err(true);
        }
        let v = if e.pos < e.trail.len() {
            e.trail[e.pos]
        } else {
            if e.trail.len() >= e.max_decisions {
                return Err(false);
            }
            e.trail.push(e.first_answer);
            e.first_answer
        };
        e.pos += 1;
        e.path.push((id, v));
        e.pathmap.insert(id, v);
        Ok(v)
    });
    match abort {
        Ok(v) => v,
        Err(false) => std::panic::panic_any(PathAbort("decision bound")),
        // an ordinary panic: the scenario catches it with `catch` and turns it into a refuted goal
        Err(true) => panic!("SYMX-FROZEN: the code branched on a condition this path had not decided"),
    }
}

// ---------------------------------------------------------------------------------------------
// Recorder API used by scenarios
// ---------------------------------------------------------------------------------------------
pub fn assume(f: Fm) {
    with(|e| e.pre.push(f));
}
pub fn goal(name: &str, f: Fm) {
    with(|e| e.goals.push((name.to_string(), f)));
}
/// a proved lemma may be used as hypothesis by later goals whose name starts with `group`
pub fn hyp(group: &str, f: Fm) {
    with(|e| e.hyps.push((group.to_string(), f)));
}
/// Goals named `group…` are decided with `terms` replaced by fresh variables (sound: validity for all
/// values of the fresh variables implies validity for the particular subterms). Combine with `hyp`.
pub fn abstract_terms<T: Sc>(group: &str, terms: &[T]) {
    let ids: Vec<u32> = terms.iter().filter_map(|t| t.node_id()).collect();
    with(|e| {
        // abstract below a negation, so that x and -x stay related
        let ids: Vec<u32> = ids.iter().map(|&i| { let mut i = i; while let Node::Neg(x) = e.nodes[i as usize] { i = x; } i }).collect();
        if let Some(g) = e.absgroups.iter_mut().find(|(g, _)| g == group) {
            g.1.extend(ids);
        } else {
            e.absgroups.push((group.to_string(), ids));
        }
    });
}
/// A lemma: proved as the goal `name`, and available as a hypothesis to the goals named `group…`.
/// The driver counts a dependent goal as discharged only if all its lemmas were discharged on that path.
pub fn lemma(group: &str, name: &str, f: Fm) {
    goal(name, f.clone());
    hyp(group, f);
    with(|e| e.lemma_deps.push((group.to_string(), name.to_string())));
}
pub fn note(s: &str) {
    with(|e| e.notes.push(s.to_string()));
}
pub fn check_defined() {
    with(|e| e.check_defined = true);
}
pub fn set_ite_mode(on: bool) {
    with(|e| e.ite_mode = on);
}
pub fn set_int_mode() {
    with(|e| e.int_mode = true);
}
/// from here on every machine operation of a `SymI` carries its "no overflow" obligation again
pub fn set_range_checked() {
    with(|e| e.range_assumed = false);
}
pub fn set_range_assumed() {
    with(|e| e.range_assumed = true);
}
/// While frozen, the code under test may only re-use decisions this path has already taken; a branch on a new
/// condition panics (catch it with `catch`). Used by non-interference scenarios: a second run on inputs that differ
/// only where the result must not depend on them has to follow the first run's path without asking anything new.
/// No effect in native (replay) mode, where conditions are simply evaluated.
pub fn freeze_decisions(on: bool) {
    with(|e| e.frozen = on);
}
/// Restricted exploration for code that takes one independent decision per lane of a wide vector (2^N outcome
/// patterns): explore only the patterns in which at most `max_dev` decisions differ from `first`. With
/// `max_dev = 1` that is the all-`first` pattern plus every single-deviation pattern (N+1 paths). A scenario
/// calls this at the start of every run; the patterns not explored are outside its claim and it says so.
pub fn explore_near(first: bool, max_dev: usize) {
    with(|e| {
        e.first_answer = first;
        e.max_dev = max_dev;
    });
}
pub fn set_max_decisions(n: usize) {
    with(|e| e.max_decisions = n);
}
pub fn is_sym() -> bool {
    with(|e| e.mode == Mode::Sym)
}

/// Run `f`, turning a panic of the code under test into `Err(message)`. PathAbort is re-raised.
pub fn catch<R>(f: impl FnOnce() -> R) -> Result<R, String> {
    match std::panic::catch_unwind(std::panic::AssertUnwindSafe(f)) {
        Ok(r) => Ok(r),
        Err(p) => {
            if p.downcast_ref::<PathAbort>().is_some() {
                std::panic::resume_unwind(p);
            }
            let msg = if let Some(s) = p.downcast_ref::<&str>() {
                s.to_string()
            } else if let Some(s) = p.downcast_ref::<String>() {
                s.clone()
            } else {
                "panic".to_string()
            };
            Err(msg)
        }
    }
}
