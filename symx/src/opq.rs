//! Opaque scalars: `SymU` (every operation builds an uninterpreted application of sort U; comparisons
//! and fallible operations fork on uninterpreted predicates) and `Cu` (the same interface interpreted
//! in a concrete "random model": operators are fixed mixing functions on u64 — used for native replay).
//! A goal proved over `SymU` holds for every element type and every implementation of its operators.

use crate::core::*;
use std::ops::*;

pub trait OpqPrim: Copy + 'static {
    fn app(name: &str, args: &[Self]) -> Self;
    fn pred(name: &str, args: &[Self]) -> bool;
    fn same(a: Self, b: Self) -> bool;
}

// ---------------------------------------------------------------------------------------------
#[derive(Copy, Clone, Debug)]
pub struct SymU(pub u32);

impl SymU {
    pub fn var(name: &str) -> SymU {
        SymU(with(|e| e.umk(UNode::Var(name.to_string()))))
    }
}
impl OpqPrim for SymU {
    fn app(name: &str, args: &[Self]) -> Self {
        SymU(with(|e| e.umk(UNode::App(name.to_string(), args.iter().map(|a| a.0).collect()))))
    }
    fn pred(name: &str, args: &[Self]) -> bool {
        decide(Cond::UPred(name.to_string(), args.iter().map(|a| a.0).collect()))
    }
    fn same(a: Self, b: Self) -> bool {
        if a.0 == b.0 {
            return true;
        }
        let (x, y) = if a.0 <= b.0 { (a.0, b.0) } else { (b.0, a.0) };
        decide(Cond::UEq(x, y))
    }
}
impl Sc for SymU {
    fn input(name: &str) -> Self {
        SymU::var(name)
    }
    fn q(n: i64, d: i64) -> Self {
        SymU::app(&format!("const_{}_{}", if n < 0 { format!("m{}", -n) } else { n.to_string() }, d), &[])
    }
    fn f_eq(a: Self, b: Self) -> Fm {
        // not folded even when syntactically identical: the solver decides t = t by congruence
        Fm::C(with(|e| e.mk_cond(Cond::UEq(a.0, b.0))))
    }
    fn f_le(a: Self, b: Self) -> Fm {
        Fm::C(with(|e| e.mk_cond(Cond::UPred("le".into(), vec![a.0, b.0]))))
    }
    fn f_lt(a: Self, b: Self) -> Fm {
        Fm::C(with(|e| e.mk_cond(Cond::UPred("lt".into(), vec![a.0, b.0]))))
    }
}
/// an opaque predicate as a formula atom (for goals about fallible lifts)
pub trait UFm: Sized {
    fn p(name: &str, args: &[Self]) -> Fm;
}
impl UFm for SymU {
    fn p(name: &str, args: &[Self]) -> Fm {
        Fm::C(with(|e| e.mk_cond(Cond::UPred(name.to_string(), args.iter().map(|a| a.0).collect()))))
    }
}

// ---------------------------------------------------------------------------------------------
#[derive(Copy, Clone, Debug)]
pub struct Cu(pub u64);
fn mix(mut h: u64, x: u64) -> u64 {
    h ^= x.wrapping_add(0x9E3779B97F4A7C15).wrapping_add(h << 6).wrapping_add(h >> 2);
    h = (h ^ (h >> 30)).wrapping_mul(0xBF58476D1CE4E5B9);
    h = (h ^ (h >> 27)).wrapping_mul(0x94D049BB133111EB);
    h ^ (h >> 31)
}
fn hstr(s: &str) -> u64 {
    s.bytes().fold(0xcbf29ce484222325u64, |h, b| (h ^ b as u64).wrapping_mul(0x100000001b3))
}
impl OpqPrim for Cu {
    fn app(name: &str, args: &[Self]) -> Self {
        Cu(args.iter().fold(mix(hstr(name), args.len() as u64), |h, a| mix(h, a.0)))
    }
    fn pred(name: &str, args: &[Self]) -> bool {
        (Cu::app(&format!("p_{}", name), args).0 >> 17) & 1 == 1
    }
    fn same(a: Self, b: Self) -> bool {
        a.0 == b.0
    }
}
impl Sc for Cu {
    fn input(name: &str) -> Self {
        with(|e| {
            let v = if let Some(v) = e.inputs.get(name) { v.parse::<u64>().unwrap_or_else(|_| hstr(v)) } else { mix(hstr(name), e.rng) };
            e.drawn.push((name.to_string(), v.to_string()));
            e.inputs.insert(name.to_string(), v.to_string());
            Cu(v)
        })
    }
    fn q(n: i64, d: i64) -> Self {
        Cu::app(&format!("const_{}_{}", if n < 0 { format!("m{}", -n) } else { n.to_string() }, d), &[])
    }
    fn f_eq(a: Self, b: Self) -> Fm {
        Fm::V(Tri::of(a.0 == b.0))
    }
    fn f_le(a: Self, b: Self) -> Fm {
        Fm::V(Tri::of(Cu::pred("le", &[a, b])))
    }
    fn f_lt(a: Self, b: Self) -> Fm {
        Fm::V(Tri::of(Cu::pred("lt", &[a, b])))
    }
}
impl UFm for Cu {
    fn p(name: &str, args: &[Self]) -> Fm {
        Fm::V(Tri::of(Cu::pred(name, args)))
    }
}

// ---------------------------------------------------------------------------------------------
macro_rules! bin4 { ($T:ident; $($Tr:ident $f:ident)+) => { $(
    impl $Tr<$T> for $T { type Output = $T; fn $f(self, o: $T) -> $T { <$T as OpqPrim>::app(stringify!($f), &[self, o]) } }
    impl<'a> $Tr<&'a $T> for $T { type Output = $T; fn $f(self, o: &'a $T) -> $T { $Tr::$f(self, *o) } }
    impl<'a> $Tr<$T> for &'a $T { type Output = $T; fn $f(self, o: $T) -> $T { $Tr::$f(*self, o) } }
    impl<'a, 'b> $Tr<&'a $T> for &'b $T { type Output = $T; fn $f(self, o: &'a $T) -> $T { $Tr::$f(*self, *o) } }
)+ } }
macro_rules! asg { ($T:ident; $($Tr:ident $f:ident $g:ident)+) => { $(
    impl $Tr<$T> for $T { fn $f(&mut self, o: $T) { *self = <$T as OpqPrim>::app(stringify!($g), &[*self, o]); } }
    impl<'a> $Tr<&'a $T> for $T { fn $f(&mut self, o: &'a $T) { *self = <$T as OpqPrim>::app(stringify!($g), &[*self, *o]); } }
)+ } }
macro_rules! impl_opaque { ($T:ident) => {
    bin4!($T; Add add Sub sub Mul mul Div div Rem rem Shl shl Shr shr BitAnd bitand BitOr bitor BitXor bitxor);
    asg!($T; AddAssign add_assign add SubAssign sub_assign sub MulAssign mul_assign mul DivAssign div_assign div RemAssign rem_assign rem ShlAssign shl_assign shl ShrAssign shr_assign shr BitAndAssign bitand_assign bitand BitOrAssign bitor_assign bitor BitXorAssign bitxor_assign bitxor);
    impl Neg for $T { type Output = $T; fn neg(self) -> $T { <$T as OpqPrim>::app("neg", &[self]) } }
    impl<'a> Neg for &'a $T { type Output = $T; fn neg(self) -> $T { <$T as OpqPrim>::app("neg", &[*self]) } }
    impl Not for $T { type Output = $T; fn not(self) -> $T { <$T as OpqPrim>::app("not", &[self]) } }
    impl<'a> Not for &'a $T { type Output = $T; fn not(self) -> $T { <$T as OpqPrim>::app("not", &[*self]) } }
    impl PartialEq for $T { fn eq(&self, o: &$T) -> bool { <$T as OpqPrim>::same(*self, *o) } }
    impl Eq for $T {}
    impl PartialOrd for $T {
        fn partial_cmp(&self, o: &$T) -> Option<std::cmp::Ordering> { Some(Ord::cmp(self, o)) }
        fn lt(&self, o: &$T) -> bool { <$T as OpqPrim>::pred("lt", &[*self, *o]) }
        fn le(&self, o: &$T) -> bool { <$T as OpqPrim>::pred("le", &[*self, *o]) }
        fn gt(&self, o: &$T) -> bool { <$T as OpqPrim>::pred("gt", &[*self, *o]) }
        fn ge(&self, o: &$T) -> bool { <$T as OpqPrim>::pred("ge", &[*self, *o]) }
    }
    impl Ord for $T {
        fn cmp(&self, o: &$T) -> std::cmp::Ordering {
            use std::cmp::Ordering::*;
            if <$T as OpqPrim>::pred("lt", &[*self, *o]) { Less } else if <$T as OpqPrim>::same(*self, *o) { Equal } else { Greater }
        }
        // the std defaults compare through cmp(); keep them opaque instead
        fn max(self, o: $T) -> $T { <$T as OpqPrim>::app("ord_max", &[self, o]) }
        fn min(self, o: $T) -> $T { <$T as OpqPrim>::app("ord_min", &[self, o]) }
    }
    impl Default for $T { fn default() -> $T { <$T as OpqPrim>::app("dflt", &[]) } }
    // the rendering shows the formatting parameters it was given, so that a container's Display which fails to
    // forward width / precision / sign to its elements produces a different string
    impl std::fmt::Display for $T { fn fmt(&self, f: &mut std::fmt::Formatter) -> std::fmt::Result {
        if f.width().is_none() && f.precision().is_none() && !f.sign_plus() && !f.alternate() { write!(f, "<{}>", self.0) }
        else { write!(f, "<{}|w{:?}|p{:?}|{}{}>", self.0, f.width(), f.precision(), if f.sign_plus() { "+" } else { "" }, if f.alternate() { "#" } else { "" }) } } }
    impl std::iter::Sum for $T { fn sum<I: Iterator<Item = $T>>(it: I) -> $T { it.fold(<$T as num_traits::Zero>::zero(), |a, b| a + b) } }
    impl std::iter::Product for $T { fn product<I: Iterator<Item = $T>>(it: I) -> $T { it.fold(<$T as num_traits::One>::one(), |a, b| a * b) } }
    impl From<u8> for $T { fn from(x: u8) -> $T { <$T as OpqPrim>::app(&format!("from_u8_{}", x), &[]) } }
    impl From<u16> for $T { fn from(x: u16) -> $T { <$T as OpqPrim>::app(&format!("from_u16_{}", x), &[]) } }
    impl num_traits::Zero for $T { fn zero() -> $T { <$T as OpqPrim>::app("zero", &[]) } fn is_zero(&self) -> bool { <$T as OpqPrim>::pred("is_zero", &[*self]) } }
    impl num_traits::One for $T { fn one() -> $T { <$T as OpqPrim>::app("one", &[]) } }
    impl num_traits::Num for $T { type FromStrRadixErr = (); fn from_str_radix(_: &str, _: u32) -> Result<$T, ()> { Err(()) } }
    impl num_traits::Signed for $T {
        fn abs(&self) -> $T { <$T as OpqPrim>::app("abs", &[*self]) }
        fn abs_sub(&self, o: &$T) -> $T { <$T as OpqPrim>::app("abs_sub", &[*self, *o]) }
        fn signum(&self) -> $T { <$T as OpqPrim>::app("signum", &[*self]) }
        fn is_positive(&self) -> bool { <$T as OpqPrim>::pred("is_positive", &[*self]) }
        fn is_negative(&self) -> bool { <$T as OpqPrim>::pred("is_negative", &[*self]) }
    }
    impl num_traits::AsPrimitive<$T> for $T { fn as_(self) -> $T { <$T as OpqPrim>::app("as_", &[self]) } }
    impl vek::ops::MulAdd<$T, $T> for $T { type Output = $T; fn mul_add(self, a: $T, b: $T) -> $T { <$T as OpqPrim>::app("mul_add", &[self, a, b]) } }
    impl<'a> vek::ops::MulAdd<$T, $T> for &'a $T { type Output = $T; fn mul_add(self, a: $T, b: $T) -> $T { vek::ops::MulAdd::mul_add(*self, a, b) } }
    impl<'a, 'b> vek::ops::MulAdd<$T, &'b $T> for &'a $T { type Output = $T; fn mul_add(self, a: $T, b: &'b $T) -> $T { vek::ops::MulAdd::mul_add(*self, a, *b) } }
    impl<'b> vek::ops::MulAdd<$T, &'b $T> for $T { type Output = $T; fn mul_add(self, a: $T, b: &'b $T) -> $T { vek::ops::MulAdd::mul_add(self, a, *b) } }
    impl<'a> vek::ops::MulAdd<&'a $T, $T> for $T { type Output = $T; fn mul_add(self, a: &'a $T, b: $T) -> $T { vek::ops::MulAdd::mul_add(self, *a, b) } }
    impl<'a, 'c> vek::ops::MulAdd<&'a $T, $T> for &'c $T { type Output = $T; fn mul_add(self, a: &'a $T, b: $T) -> $T { vek::ops::MulAdd::mul_add(*self, *a, b) } }
    impl<'a, 'b> vek::ops::MulAdd<&'a $T, &'b $T> for $T { type Output = $T; fn mul_add(self, a: &'a $T, b: &'b $T) -> $T { vek::ops::MulAdd::mul_add(self, *a, *b) } }
    impl<'a, 'b, 'c> vek::ops::MulAdd<&'a $T, &'b $T> for &'c $T { type Output = $T; fn mul_add(self, a: &'a $T, b: &'b $T) -> $T { vek::ops::MulAdd::mul_add(*self, *a, *b) } }
    // fallible / flagged scalar operations: the outcome is an opaque predicate of the operands
    impl num_traits::CheckedAdd for $T { fn checked_add(&self, o: &$T) -> Option<$T> { if <$T as OpqPrim>::pred("ok_add", &[*self, *o]) { Some(<$T as OpqPrim>::app("cadd", &[*self, *o])) } else { None } } }
    impl num_traits::CheckedSub for $T { fn checked_sub(&self, o: &$T) -> Option<$T> { if <$T as OpqPrim>::pred("ok_sub", &[*self, *o]) { Some(<$T as OpqPrim>::app("csub", &[*self, *o])) } else { None } } }
    impl num_traits::CheckedMul for $T { fn checked_mul(&self, o: &$T) -> Option<$T> { if <$T as OpqPrim>::pred("ok_mul", &[*self, *o]) { Some(<$T as OpqPrim>::app("cmul", &[*self, *o])) } else { None } } }
    impl num_traits::CheckedDiv for $T { fn checked_div(&self, o: &$T) -> Option<$T> { if <$T as OpqPrim>::pred("ok_div", &[*self, *o]) { Some(<$T as OpqPrim>::app("cdiv", &[*self, *o])) } else { None } } }
    impl num_traits::CheckedRem for $T { fn checked_rem(&self, o: &$T) -> Option<$T> { if <$T as OpqPrim>::pred("ok_rem", &[*self, *o]) { Some(<$T as OpqPrim>::app("crem", &[*self, *o])) } else { None } } }
    impl num_traits::CheckedNeg for $T { fn checked_neg(&self) -> Option<$T> { if <$T as OpqPrim>::pred("ok_neg", &[*self]) { Some(<$T as OpqPrim>::app("cneg", &[*self])) } else { None } } }
    impl num_traits::WrappingAdd for $T { fn wrapping_add(&self, o: &$T) -> $T { <$T as OpqPrim>::app("wadd", &[*self, *o]) } }
    impl num_traits::WrappingSub for $T { fn wrapping_sub(&self, o: &$T) -> $T { <$T as OpqPrim>::app("wsub", &[*self, *o]) } }
    impl num_traits::WrappingMul for $T { fn wrapping_mul(&self, o: &$T) -> $T { <$T as OpqPrim>::app("wmul", &[*self, *o]) } }
    impl num_traits::WrappingNeg for $T { fn wrapping_neg(&self) -> $T { <$T as OpqPrim>::app("wneg", &[*self]) } }
    impl num_traits::SaturatingAdd for $T { fn saturating_add(&self, o: &$T) -> $T { <$T as OpqPrim>::app("sadd", &[*self, *o]) } }
    impl num_traits::SaturatingSub for $T { fn saturating_sub(&self, o: &$T) -> $T { <$T as OpqPrim>::app("ssub", &[*self, *o]) } }
    impl num_traits::SaturatingMul for $T { fn saturating_mul(&self, o: &$T) -> $T { <$T as OpqPrim>::app("smul", &[*self, *o]) } }
    impl num_traits::ops::overflowing::OverflowingAdd for $T { fn overflowing_add(&self, o: &$T) -> ($T, bool) { (<$T as OpqPrim>::app("oadd", &[*self, *o]), <$T as OpqPrim>::pred("ovf_add", &[*self, *o])) } }
    impl num_traits::ops::overflowing::OverflowingSub for $T { fn overflowing_sub(&self, o: &$T) -> ($T, bool) { (<$T as OpqPrim>::app("osub", &[*self, *o]), <$T as OpqPrim>::pred("ovf_sub", &[*self, *o])) } }
    impl num_traits::ops::overflowing::OverflowingMul for $T { fn overflowing_mul(&self, o: &$T) -> ($T, bool) { (<$T as OpqPrim>::app("omul", &[*self, *o]), <$T as OpqPrim>::pred("ovf_mul", &[*self, *o])) } }
    impl num_traits::Inv for $T { type Output = $T; fn inv(self) -> $T { <$T as OpqPrim>::app("inv", &[self]) } }
    impl num_traits::Euclid for $T {
        fn div_euclid(&self, o: &$T) -> $T { <$T as OpqPrim>::app("div_euclid", &[*self, *o]) }
        fn rem_euclid(&self, o: &$T) -> $T { <$T as OpqPrim>::app("rem_euclid", &[*self, *o]) }
    }
    impl num_traits::CheckedEuclid for $T {
        fn checked_div_euclid(&self, o: &$T) -> Option<$T> { if <$T as OpqPrim>::pred("ok_div_euclid", &[*self, *o]) { Some(<$T as OpqPrim>::app("cdiv_euclid", &[*self, *o])) } else { None } }
        fn checked_rem_euclid(&self, o: &$T) -> Option<$T> { if <$T as OpqPrim>::pred("ok_rem_euclid", &[*self, *o]) { Some(<$T as OpqPrim>::app("crem_euclid", &[*self, *o])) } else { None } }
    }
    impl approx::AbsDiffEq for $T {
        type Epsilon = $T;
        fn default_epsilon() -> $T { <$T as OpqPrim>::app("default_epsilon", &[]) }
        fn abs_diff_eq(&self, o: &$T, e: $T) -> bool { <$T as OpqPrim>::pred("abs_diff_eq", &[*self, *o, e]) }
    }
    impl approx::RelativeEq for $T {
        fn default_max_relative() -> $T { <$T as OpqPrim>::app("default_max_relative", &[]) }
        fn relative_eq(&self, o: &$T, e: $T, m: $T) -> bool { <$T as OpqPrim>::pred("relative_eq", &[*self, *o, e, m]) }
    }
    impl approx::UlpsEq for $T {
        fn default_max_ulps() -> u32 { 4 }
        fn ulps_eq(&self, o: &$T, e: $T, ulps: u32) -> bool { <$T as OpqPrim>::pred(&format!("ulps_eq_{}", ulps), &[*self, *o, e]) }
    }
    impl az::Cast<$T> for $T { fn cast(self) -> $T { <$T as OpqPrim>::app("az_cast", &[self]) } }
    impl az::CheckedCast<$T> for $T { fn checked_cast(self) -> Option<$T> { if <$T as OpqPrim>::pred("ok_cast", &[self]) { Some(<$T as OpqPrim>::app("az_ccast", &[self])) } else { None } } }
    impl az::SaturatingCast<$T> for $T { fn saturating_cast(self) -> $T { <$T as OpqPrim>::app("az_scast", &[self]) } }
    impl az::WrappingCast<$T> for $T { fn wrapping_cast(self) -> $T { <$T as OpqPrim>::app("az_wcast", &[self]) } }
    impl az::OverflowingCast<$T> for $T { fn overflowing_cast(self) -> ($T, bool) { (<$T as OpqPrim>::app("az_ocast", &[self]), <$T as OpqPrim>::pred("ovf_cast", &[self])) } }
    impl az::UnwrappedCast<$T> for $T { fn unwrapped_cast(self) -> $T { <$T as OpqPrim>::app("az_ucast", &[self]) } }
    impl vek::ops::ColorComponent for $T { fn full() -> $T { <$T as OpqPrim>::app("full", &[]) } }
} }
impl_opaque!(SymU);
impl_opaque!(Cu);
// bytemuck::Zeroable: the all-zero bit pattern must be a value; for SymU that is unode 0 (reserved)
unsafe impl bytemuck::Zeroable for SymU {}
unsafe impl bytemuck::Zeroable for Cu {}
