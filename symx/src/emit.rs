//! SMT-LIB emission with fraction lifting (see DESIGN §1.3).
//!
//! Every real term becomes (numerator, denominator-id); denominators are hash-consed strings, id 0 is
//! the literal 1. Equalities are cross-multiplied, order atoms multiplied by squared denominators.
//! Atoms (sqrt, sin/cos, acos, floor…) become fresh variables constrained by sound axioms only.

use crate::core::*;
use std::collections::HashMap;
use std::fmt::Write as _;

pub struct Emit<'a> {
    pub e: &'a Engine,
    pub decls: String,
    pub defs: String,
    memo: HashMap<u32, (String, usize)>,
    dens: Vec<String>,
    denidx: HashMap<String, usize>,
    pub ax: Vec<String>,
    /// trig argument node -> pair index
    pub trig: Vec<(u32, usize)>,
    trigidx: HashMap<u32, usize>,
    fresh: usize,
    /// divisors (numerator strings) met on the way
    pub divisors: Vec<String>,
    pub vars: Vec<String>,
    pub uses_int: bool,
    pub uses_pi: bool,
    pub nonlinear: bool,
    pub uses_u: bool,
    udecl: HashMap<String, usize>,
    umemo: HashMap<u32, String>,
    /// nodes emitted as fresh variables (cut with abstraction)
    pub abs: Vec<u32>,
    /// integer mode (SymI): every variable is Int-sorted, no fractions
    pub int: bool,
}

fn num(n: i128) -> String {
    if n < 0 {
        format!("(- {}.0)", -n)
    } else {
        format!("{}.0", n)
    }
}

impl<'a> Emit<'a> {
    pub fn new(e: &'a Engine) -> Self {
        let mut s = Emit {
            e,
            decls: String::new(),
            defs: String::new(),
            memo: HashMap::new(),
            dens: vec![],
            denidx: HashMap::new(),
            ax: vec![],
            trig: vec![],
            trigidx: HashMap::new(),
            fresh: 0,
            divisors: vec![],
            vars: vec![],
            uses_int: false,
            uses_pi: false,
            nonlinear: false,
            uses_u: false,
            udecl: HashMap::new(),
            umemo: HashMap::new(),
            abs: vec![],
            int: false,
        };
        s.den("1.0".into());
        s
    }
    fn den(&mut self, s: String) -> usize {
        if let Some(&i) = self.denidx.get(&s) {
            return i;
        }
        let i = self.dens.len();
        self.dens.push(s.clone());
        self.denidx.insert(s, i);
        i
    }
    fn def(&mut self, body: String) -> String {
        self.fresh += 1;
        let n = format!("t.{}", self.fresh);
        writeln!(self.defs, "(define-fun {} () Real {})", n, body).unwrap();
        n
    }
    fn declare(&mut self, p: &str) -> String {
        self.fresh += 1;
        let n = format!("{}.{}", p, self.fresh);
        writeln!(self.decls, "(declare-fun {} () Real)", n).unwrap();
        n
    }
    fn dn(&self, i: usize) -> String {
        self.dens[i].clone()
    }
    fn mulden(&mut self, a: usize, b: usize) -> usize {
        if a == 0 {
            return b;
        }
        if b == 0 {
            return a;
        }
        let (x, y) = if a <= b { (a, b) } else { (b, a) };
        let s = format!("(* {} {})", self.dens[x], self.dens[y]);
        self.nonlinear = true;
        let nm = self.def(s);
        self.den(nm)
    }
    fn is_const(&self, id: u32) -> bool {
        matches!(self.e.nodes[id as usize], Node::Const(..))
    }
    pub fn tm(&mut self, id: u32) -> (String, usize) {
        if let Some(x) = self.memo.get(&id) {
            return x.clone();
        }
        if self.abs.contains(&id) && !matches!(self.e.nodes[id as usize], Node::Const(..) | Node::Var(..)) {
            let v = self.declare("abs");
            self.memo.insert(id, (v.clone(), 0));
            return (v, 0);
        }
        if self.int {
            let r = self.tm_int(id);
            self.memo.insert(id, (r.clone(), 0));
            return (r, 0);
        }
        let n = self.e.nodes[id as usize].clone();
        let r = match n {
            Node::Var(v) => {
                if !self.vars.contains(&v) {
                    writeln!(self.decls, "(declare-fun {} () Real)", v).unwrap();
                    self.vars.push(v.clone());
                    if v == "PI" {
                        self.uses_pi = true;
                        self.ax.push("(and (> PI 3.14159) (< PI 3.14160))".into());
                    }
                    if v == "EPS" {
                        // 0 < EPS <= 2^-20 : covers f32's and f64's epsilon and anything smaller
                        self.ax.push("(and (> EPS 0.0) (<= EPS (/ 1.0 1048576.0)))".into());
                    }
                }
                (v, 0)
            }
            Node::Const(n, d) => (
                if d == 1 {
                    num(n)
                } else if n < 0 {
                    format!("(- (/ {}.0 {}.0))", -n, d)
                } else {
                    format!("(/ {}.0 {}.0)", n, d)
                },
                0,
            ),
            Node::Neg(a) => {
                let (n, d) = self.tm(a);
                (self.def(format!("(- {})", n)), d)
            }
            Node::Add(a, b) | Node::Sub(a, b) => {
                let op = if matches!(self.e.nodes[id as usize], Node::Add(..)) { "+" } else { "-" };
                let (an, ad) = self.tm(a);
                let (bn, bd) = self.tm(b);
                if ad == bd {
                    (self.def(format!("({} {} {})", op, an, bn)), ad)
                } else {
                    let d = self.mulden(ad, bd);
                    let l = if bd == 0 { an } else { format!("(* {} {})", an, self.dn(bd)) };
                    let r = if ad == 0 { bn } else { format!("(* {} {})", bn, self.dn(ad)) };
                    (self.def(format!("({} {} {})", op, l, r)), d)
                }
            }
            Node::Mul(a, b) => {
                if !self.is_const(a) && !self.is_const(b) {
                    self.nonlinear = true;
                }
                let (an, ad) = self.tm(a);
                let (bn, bd) = self.tm(b);
                let d = self.mulden(ad, bd);
                (self.def(format!("(* {} {})", an, bn)), d)
            }
            Node::Div(a, b) => {
                let (an, ad) = self.tm(a);
                let (bn, bd) = self.tm(b);
                if self.is_const(b) && bd == 0 {
                    // division by a literal: keep linear
                    (self.def(format!("(/ {} {})", an, bn)), ad)
                } else {
                    self.nonlinear = true;
                    if !self.divisors.contains(&bn) {
                        self.divisors.push(bn.clone());
                    }
                    let n = if bd == 0 { an } else { self.def(format!("(* {} {})", an, self.dn(bd))) };
                    let bnid = self.den(bn);
                    let d = self.mulden(ad, bnid);
                    (n, d)
                }
            }
            Node::Ite(c, x, y) => {
                let cs = self.cond_id(c);
                let (xn, xd) = self.tm(x);
                let (yn, yd) = self.tm(y);
                let v = self.declare("ite");
                let (xds, yds) = (self.dn(xd), self.dn(yd));
                self.ax.push(format!("(=> {} (= (* {} {}) {}))", cs, v, xds, xn));
                self.ax.push(format!("(=> (not {}) (= (* {} {}) {}))", cs, v, yds, yn));
                if xd != 0 || yd != 0 {
                    self.nonlinear = true;
                }
                (v, 0)
            }
            Node::Fun(f, args) => match f {
                "sqrt" => {
                    let (an, ad) = self.tm(args[0]);
                    let r = self.declare("r");
                    self.nonlinear = true;
                    self.ax.push(format!("(>= {} 0.0)", r));
                    self.ax.push(format!("(= (* {} {} {}) {})", r, r, self.dn(ad), an));
                    (r, 0)
                }
                "sin" | "cos" => {
                    let k = self.trigpair(args[0]);
                    (format!("{}.{}", if f == "sin" { "sn" } else { "cs" }, k), 0)
                }
                "acos" => {
                    let (an, ad) = self.tm(args[0]);
                    let phi = self.declare("phi");
                    self.memo.insert(id, (phi.clone(), 0));
                    let k = self.trigpair(id);
                    self.ax.push(format!("(= (* cs.{} {}) {})", k, self.dn(ad), an));
                    self.ax.push(format!("(>= sn.{} 0.0)", k));
                    self.need_pi();
                    self.ax.push(format!("(and (>= {} 0.0) (<= {} PI))", phi, phi));
                    // acos u = 0 <=> u = 1 ; = PI <=> u = -1
                    self.ax.push(format!("(= (= {} 0.0) (= cs.{} 1.0))", phi, k));
                    self.ax.push(format!("(= (= {} PI) (= cs.{} (- 1.0)))", phi, k));
                    // acos is decreasing: u >= 0 <=> acos u <= PI/2
                    self.ax.push(format!("(= (>= cs.{} 0.0) (<= (* 2.0 {}) PI))", k, phi));
                    (phi, 0)
                }
                "floor" | "ceil" | "trunc" | "round" => {
                    let (an, ad) = self.tm(args[0]);
                    self.fresh += 1;
                    let kk = format!("k.{}", self.fresh);
                    writeln!(self.decls, "(declare-fun {} () Int)", kk).unwrap();
                    self.uses_int = true;
                    let d = self.dn(ad);
                    let kr = format!("(to_real {})", kk);
                    // x = an/d ; compare k*d*d with an*d (sign-safe since d*d >= 0 and d != 0)
                    let x = format!("(* {} {})", an, d);
                    let dd = format!("(* {} {})", d, d);
                    let fl = |k: &str, x: &str| format!("(and (<= (* {} {}) {}) (< {} (* (+ {} 1.0) {})))", k, dd, x, x, k, dd);
                    let ce = |k: &str, x: &str| format!("(and (< (* (- {} 1.0) {}) {}) (<= {} (* {} {})))", k, dd, x, x, k, dd);
                    match f {
                        "floor" => self.ax.push(fl(&kr, &x)),
                        "ceil" => self.ax.push(ce(&kr, &x)),
                        "trunc" => {
                            self.ax.push(format!("(=> (>= {} 0.0) {})", x, fl(&kr, &x)));
                            self.ax.push(format!("(=> (< {} 0.0) {})", x, ce(&kr, &x)));
                        }
                        _ => {
                            // round half away from zero: x>=0: k = floor(x+1/2); x<0: k = ceil(x-1/2)
                            let xp = format!("(+ {} (* 0.5 {}))", x, dd);
                            let xm = format!("(- {} (* 0.5 {}))", x, dd);
                            self.ax.push(format!("(=> (>= {} 0.0) {})", x, fl(&kr, &xp)));
                            self.ax.push(format!("(=> (< {} 0.0) {})", x, ce(&kr, &xm)));
                        }
                    }
                    if ad != 0 {
                        self.nonlinear = true;
                    }
                    (kr, 0)
                }
                "asin" => {
                    // theta = asin u: sin(theta) = u, cos(theta) >= 0, -PI/2 <= theta <= PI/2
                    let (an, ad) = self.tm(args[0]);
                    let th = self.declare("phi");
                    self.memo.insert(id, (th.clone(), 0));
                    let k = self.trigpair(id);
                    self.ax.push(format!("(= (* sn.{} {}) {})", k, self.dn(ad), an));
                    self.ax.push(format!("(>= cs.{} 0.0)", k));
                    self.need_pi();
                    self.ax.push(format!("(and (>= (* 2.0 {}) (- PI)) (<= (* 2.0 {}) PI))", th, th));
                    self.ax.push(format!("(= (>= sn.{} 0.0) (>= {} 0.0))", k, th));
                    (th, 0)
                }
                "atan" => {
                    // theta = atan u: sin(theta) = u cos(theta), cos(theta) > 0, -PI/2 < theta < PI/2
                    let (an, ad) = self.tm(args[0]);
                    let th = self.declare("phi");
                    self.memo.insert(id, (th.clone(), 0));
                    let k = self.trigpair(id);
                    self.ax.push(format!("(= (* sn.{} {}) (* {} cs.{}))", k, self.dn(ad), an, k));
                    self.ax.push(format!("(> cs.{} 0.0)", k));
                    self.need_pi();
                    self.ax.push(format!("(and (> (* 2.0 {}) (- PI)) (< (* 2.0 {}) PI))", th, th));
                    self.ax.push(format!("(= (>= sn.{} 0.0) (>= {} 0.0))", k, th));
                    (th, 0)
                }
                "atan2" => {
                    // theta = atan2(y, x): r cos(theta) = x, r sin(theta) = y for some r >= 0, -PI < theta <= PI
                    let (yn, yd) = self.tm(args[0]);
                    let (xn, xd) = self.tm(args[1]);
                    let th = self.declare("phi");
                    self.memo.insert(id, (th.clone(), 0));
                    let k = self.trigpair(id);
                    let r = self.declare("r");
                    self.ax.push(format!("(>= {} 0.0)", r));
                    self.ax.push(format!("(= (* {} cs.{} {}) {})", r, k, self.dn(xd), xn));
                    self.ax.push(format!("(= (* {} sn.{} {}) {})", r, k, self.dn(yd), yn));
                    self.need_pi();
                    self.ax.push(format!("(and (> {} (- PI)) (<= {} PI))", th, th));
                    self.ax.push(format!("(=> (> sn.{} 0.0) (> {} 0.0))", k, th));
                    self.ax.push(format!("(=> (< sn.{} 0.0) (< {} 0.0))", k, th));
                    (th, 0)
                }
                _ => {
                    // any other real function (exp, ln, powf, cbrt, sinh, ...): an uninterpreted value per distinct
                    // application (hash-consing gives syntactic congruence). No axioms: `unsat` stays valid, and a goal
                    // that needs a fact about the function comes back sat/unknown and is settled by the native replay.
                    for a in args.iter() {
                        let _ = self.tm(*a);
                    }
                    let v = self.declare("uf");
                    self.nonlinear = true;
                    (v, 0)
                }
            },
            Node::IDiv(..) | Node::IRem(..) => panic!("emit: integer node in real emitter"),
        };
        self.memo.insert(id, r.clone());
        r
    }
    /// integer-sorted emission: Rust's truncating `/` and `%` through fresh quotient/remainder pairs
    fn tm_int(&mut self, id: u32) -> String {
        let lit = |n: i128| if n < 0 { format!("(- {})", -n) } else { format!("{}", n) };
        match self.e.nodes[id as usize].clone() {
            Node::Var(v) => {
                if !self.vars.contains(&v) {
                    writeln!(self.decls, "(declare-fun {} () Int)", v).unwrap();
                    self.vars.push(v.clone());
                    if v == "M" {
                        // the MAX of a machine integer type: at least i8's
                        self.ax.push("(>= M 127)".into());
                    }
                }
                v
            }
            Node::Const(n, _) => lit(n),
            Node::Neg(a) => { let x = self.tm(a).0; format!("(- {})", x) }
            Node::Add(a, b) => { let (x, y) = (self.tm(a).0, self.tm(b).0); format!("(+ {} {})", x, y) }
            Node::Sub(a, b) => { let (x, y) = (self.tm(a).0, self.tm(b).0); format!("(- {} {})", x, y) }
            Node::Mul(a, b) => {
                if !self.is_const(a) && !self.is_const(b) { self.nonlinear = true; }
                let (x, y) = (self.tm(a).0, self.tm(b).0);
                format!("(* {} {})", x, y)
            }
            Node::IDiv(a, b) | Node::IRem(a, b) => {
                let is_div = matches!(self.e.nodes[id as usize], Node::IDiv(..));
                let (x, y) = (self.tm(a).0, self.tm(b).0);
                // one (q, r) pair per operand pair: a = q*b + r, |r| < |b|, r has the sign of a (or is 0)
                let key = format!("qr {} {}", x, y);
                let k = if let Some(&k) = self.denidx.get(&key) { k } else {
                    self.fresh += 1;
                    let k = self.fresh;
                    self.denidx.insert(key, k);
                    writeln!(self.decls, "(declare-fun q.{} () Int)\n(declare-fun m.{} () Int)", k, k).unwrap();
                    self.nonlinear = true;
                    self.ax.push(format!("(=> (not (= {} 0)) (and (= {} (+ (* q.{} {}) m.{})) (< (abs m.{}) (abs {})) (>= (* m.{} {}) 0)))", y, x, k, y, k, k, y, k, x));
                    k
                };
                if is_div { format!("q.{}", k) } else { format!("m.{}", k) }
            }
            n => panic!("emit: node {:?} in integer mode", n),
        }
    }
    fn need_pi(&mut self) {
        let id = self.e.index.get(&Node::Var("PI".into())).copied();
        if let Some(i) = id {
            let _ = self.tm(i);
        } else if !self.vars.contains(&"PI".to_string()) {
            writeln!(self.decls, "(declare-fun PI () Real)").unwrap();
            self.vars.push("PI".into());
            self.uses_pi = true;
            self.ax.push("(and (> PI 3.14159) (< PI 3.14160))".into());
        }
    }
    fn trigpair(&mut self, arg: u32) -> usize {
        if let Some(&k) = self.trigidx.get(&arg) {
            return k;
        }
        let _ = self.tm(arg);
        self.fresh += 1;
        let k = self.fresh;
        self.trigidx.insert(arg, k);
        self.trig.push((arg, k));
        self.nonlinear = true;
        writeln!(self.decls, "(declare-fun sn.{} () Real)\n(declare-fun cs.{} () Real)", k, k).unwrap();
        self.ax.push(format!("(= (+ (* sn.{} sn.{}) (* cs.{} cs.{})) 1.0)", k, k, k, k));
        k
    }
    /// sound instances of congruence, negation, angle-sum and the values at 0 / PI / PI/2
    pub fn trig_axioms(&mut self) -> Vec<String> {
        let args = self.trig.clone();
        let mut extra = vec![];
        let n = args.len();
        let info: Vec<(String, String, usize)> = args.iter().map(|&(a, k)| { let (xn, xd) = self.tm(a); (xn, self.dn(xd), k) }).collect();
        for i in 0..n {
            let (xn, xds, kx) = info[i].clone();
            extra.push(format!("(=> (= {} 0.0) (and (= sn.{} 0.0) (= cs.{} 1.0)))", xn, kx, kx));
            if self.uses_pi {
                extra.push(format!("(=> (= {} (* PI {})) (and (= sn.{} 0.0) (= cs.{} (- 1.0))))", xn, xds, kx, kx));
                extra.push(format!("(=> (= (* 2.0 {}) (* PI {})) (and (= sn.{} 1.0) (= cs.{} 0.0)))", xn, xds, kx, kx));
                // 0 < x < PI => sin x > 0 ; |x| < PI/2 => cos x > 0   (x = xn/xds, multiply by xds^2)
                let x2 = format!("(* {} {})", xn, xds);
                let d2 = format!("(* {} {})", xds, xds);
                extra.push(format!("(=> (and (< 0.0 {}) (< {} (* PI {}))) (> sn.{} 0.0))", x2, x2, d2, kx));
                extra.push(format!("(=> (and (< (* (- 0.5) PI {}) {}) (< {} (* 0.5 PI {}))) (> cs.{} 0.0))", d2, x2, x2, d2, kx));
            }
            for j in 0..n {
                if i == j {
                    continue;
                }
                let (yn, yds, ky) = info[j].clone();
                if i < j {
                    extra.push(format!("(=> (= (* {} {}) (* {} {})) (and (= sn.{} sn.{}) (= cs.{} cs.{})))", xn, yds, yn, xds, kx, ky, kx, ky));
                    extra.push(format!("(=> (= (* {} {}) (- (* {} {}))) (and (= sn.{} (- sn.{})) (= cs.{} cs.{})))", xn, yds, yn, xds, kx, ky, kx, ky));
                }
                if n > 8 || i > j {
                    continue;
                }
                for l in 0..n {
                    if l == i || l == j {
                        continue;
                    }
                    let (zn, zds, kz) = info[l].clone();
                    extra.push(format!(
                        "(=> (= (* {} {} {}) (* (+ (* {} {}) (* {} {})) {})) (and (= sn.{} (+ (* sn.{} cs.{}) (* cs.{} sn.{}))) (= cs.{} (- (* cs.{} cs.{}) (* sn.{} sn.{})))))",
                        zn, xds, yds, xn, yds, yn, xds, zds, kz, kx, ky, kx, ky, kz, kx, ky, kx, ky
                    ));
                }
            }
            // double angle z = 2x
            for l in 0..n {
                if l == i {
                    continue;
                }
                let (zn, zds, kz) = info[l].clone();
                extra.push(format!(
                    "(=> (= (* {} {}) (* 2.0 {} {})) (and (= sn.{} (* 2.0 sn.{} cs.{})) (= cs.{} (- (* cs.{} cs.{}) (* sn.{} sn.{})))))",
                    zn, xds, xn, zds, kz, kx, kx, kz, kx, kx, kx, kx
                ));
            }
        }
        extra
    }
    pub fn uterm(&mut self, id: u32) -> String {
        if let Some(s) = self.umemo.get(&id) {
            return s.clone();
        }
        self.uses_u = true;
        let n = self.e.unodes[id as usize].clone();
        let s = match n {
            UNode::Var(v) => {
                if !self.udecl.contains_key(&v) {
                    self.udecl.insert(v.clone(), 0);
                    writeln!(self.decls, "(declare-fun {} () U)", v).unwrap();
                }
                v
            }
            UNode::App(f, args) => {
                let a: Vec<String> = args.iter().map(|x| self.uterm(*x)).collect();
                if !self.udecl.contains_key(&f) {
                    self.udecl.insert(f.clone(), a.len());
                    writeln!(self.decls, "(declare-fun {} ({}) U)", f, vec!["U"; a.len()].join(" ")).unwrap();
                }
                if a.is_empty() {
                    f
                } else {
                    format!("({} {})", f, a.join(" "))
                }
            }
        };
        self.umemo.insert(id, s.clone());
        s
    }
    pub fn cond_id(&mut self, c: u32) -> String {
        let c = self.e.conds[c as usize].clone();
        self.cond(&c)
    }
    pub fn cond(&mut self, c: &Cond) -> String {
        let (a, b, op) = match c {
            Cond::Lt(a, b) => (*a, *b, "<"),
            Cond::Le(a, b) => (*a, *b, "<="),
            Cond::Eq(a, b) => (*a, *b, "="),
            Cond::UEq(a, b) => {
                let (x, y) = (self.uterm(*a), self.uterm(*b));
                return format!("(= {} {})", x, y);
            }
            Cond::UPred(p, args) => {
                let a: Vec<String> = args.iter().map(|x| self.uterm(*x)).collect();
                let key = format!("p_{}", p);
                if !self.udecl.contains_key(&key) {
                    self.udecl.insert(key.clone(), a.len());
                    writeln!(self.decls, "(declare-fun {} ({}) Bool)", key, vec!["U"; a.len()].join(" ")).unwrap();
                }
                self.uses_u = true;
                return if a.is_empty() { key } else { format!("({} {})", key, a.join(" ")) };
            }
        };
        let (an, ad) = self.tm(a);
        let (bn, bd) = self.tm(b);
        if ad == bd && ad == 0 {
            return format!("({} {} {})", op, an, bn);
        }
        self.nonlinear = true;
        if op == "=" {
            return format!("(= (* {} {}) (* {} {}))", an, self.dn(bd), bn, self.dn(ad));
        }
        // a/d1 op b/d2  <=>  a*d1*d2^2 op b*d2*d1^2   (d1,d2 != 0)
        format!("({} (* {} {} {} {}) (* {} {} {} {}))", op, an, self.dn(ad), self.dn(bd), self.dn(bd), bn, self.dn(bd), self.dn(ad), self.dn(ad))
    }
    pub fn fm(&mut self, f: &Fm) -> String {
        match f {
            Fm::Lit(b) => if *b { "true".into() } else { "false".into() },
            Fm::V(t) => match t {
                Tri::T => "true".into(),
                Tri::F => "false".into(),
                Tri::U => panic!("emit: unknown concrete atom in symbolic mode"),
            },
            Fm::C(c) => self.cond_id(*c),
            Fm::Not(x) => format!("(not {})", self.fm(x)),
            Fm::And(v) => {
                let s: Vec<String> = v.iter().map(|x| self.fm(x)).collect();
                format!("(and true {})", s.join(" "))
            }
            Fm::Or(v) => {
                let s: Vec<String> = v.iter().map(|x| self.fm(x)).collect();
                format!("(or false {})", s.join(" "))
            }
        }
    }
}

pub fn jstr(s: &str) -> String {
    let mut o = String::with_capacity(s.len() + 2);
    o.push('"');
    for ch in s.chars() {
        match ch {
            '"' => o.push_str("\\\""),
            '\\' => o.push_str("\\\\"),
            '\n' => o.push_str("\\n"),
            '\t' => o.push_str("\\t"),
            '\r' => o.push_str("\\r"),
            c if (c as u32) < 0x20 => write!(o, "\\u{:04x}", c as u32).unwrap(),
            c => o.push(c),
        }
    }
    o.push('"');
    o
}
pub fn jlist(v: &[String]) -> String {
    format!("[{}]", v.join(","))
}
