//! Layout-aware access to vek matrices that does not go through the API under test
//! (`new`, indexing, conversions): entries are read and written through the public struct fields.

pub use vek::mat::repr_c::column_major::{Mat2 as Cols2, Mat3 as Cols3, Mat4 as Cols4};
pub use vek::mat::repr_c::row_major::{Mat2 as Rows2, Mat3 as Rows3, Mat4 as Rows4};
pub use vek::vec::repr_c::{Vec2, Vec3, Vec4};

pub fn v2<T: Copy>(a: &[T]) -> Vec2<T> {
    Vec2 { x: a[0], y: a[1] }
}
pub fn v3<T: Copy>(a: &[T]) -> Vec3<T> {
    Vec3 { x: a[0], y: a[1], z: a[2] }
}
pub fn v4<T: Copy>(a: &[T]) -> Vec4<T> {
    Vec4 { x: a[0], y: a[1], z: a[2], w: a[3] }
}

/// A vek vector seen as a plain list of its fields in declaration order.
pub trait VL<T>: Sized {
    const N: usize;
    fn of(a: &[T]) -> Self;
    fn ent(&self) -> Vec<T>;
}
impl<T: Copy> VL<T> for Vec2<T> {
    const N: usize = 2;
    fn of(a: &[T]) -> Self {
        v2(a)
    }
    fn ent(&self) -> Vec<T> {
        vec![self.x, self.y]
    }
}
impl<T: Copy> VL<T> for Vec3<T> {
    const N: usize = 3;
    fn of(a: &[T]) -> Self {
        v3(a)
    }
    fn ent(&self) -> Vec<T> {
        vec![self.x, self.y, self.z]
    }
}
impl<T: Copy> VL<T> for Vec4<T> {
    const N: usize = 4;
    fn of(a: &[T]) -> Self {
        v4(a)
    }
    fn ent(&self) -> Vec<T> {
        vec![self.x, self.y, self.z, self.w]
    }
}

/// A vek matrix seen as an abstract N×N table `a[i][j]` = row i, column j.
pub trait ML<T>: Sized {
    const N: usize;
    const ROW_MAJOR: bool;
    const NAME: &'static str;
    type V: VL<T>;
    fn of(a: &[Vec<T>]) -> Self;
    fn ent(&self) -> Vec<Vec<T>>;
}
fn transpose<T: Copy>(a: &[Vec<T>]) -> Vec<Vec<T>> {
    let n = a.len();
    (0..n).map(|i| (0..n).map(|j| a[j][i]).collect()).collect()
}
macro_rules! ml {
    ($Rows:ident $Cols:ident $V:ident $vf:ident $n:expr, $rn:expr, $cn:expr) => {
        impl<T: Copy> ML<T> for $Rows<T> {
            const N: usize = $n;
            const ROW_MAJOR: bool = true;
            const NAME: &'static str = $rn;
            type V = $V<T>;
            fn of(a: &[Vec<T>]) -> Self {
                let lines: Vec<$V<T>> = a.iter().map(|r| $vf(r)).collect();
                $Rows { rows: $vf(&lines) }
            }
            fn ent(&self) -> Vec<Vec<T>> {
                VL::ent(&self.rows).iter().map(|r| VL::ent(r)).collect()
            }
        }
        impl<T: Copy> ML<T> for $Cols<T> {
            const N: usize = $n;
            const ROW_MAJOR: bool = false;
            const NAME: &'static str = $cn;
            type V = $V<T>;
            fn of(a: &[Vec<T>]) -> Self {
                let t = transpose(a);
                let lines: Vec<$V<T>> = t.iter().map(|r| $vf(r)).collect();
                $Cols { cols: $vf(&lines) }
            }
            fn ent(&self) -> Vec<Vec<T>> {
                let t: Vec<Vec<T>> = VL::ent(&self.cols).iter().map(|r| VL::ent(r)).collect();
                transpose(&t)
            }
        }
    };
}
ml!(Rows2 Cols2 Vec2 v2 2, "Rows2", "Cols2");
ml!(Rows3 Cols3 Vec3 v3 3, "Rows3", "Cols3");
ml!(Rows4 Cols4 Vec4 v4 4, "Rows4", "Cols4");
