//! Layout-aware access to vek matrices that does not go through the API under test
//! (`new`, indexing, conversions): entries are read and written through the public struct fields.

pub use vek::mat::repr_c::column_major::{Mat2 as Cols2, Mat3 as Cols3, Mat4 as Cols4};
pub use vek::mat::repr_c::row_major::{Mat2 as Rows2, Mat3 as Rows3, Mat4 as Rows4};
pub use vek::vec::repr_c::{Vec2, Vec3, Vec4};

pub fn v2<T: Copy>(a: &[T]) -> Vec2<T> {
    Vec2 { x: a[0], y: a[1] }
}
pub fn v3<T: Copy>(a: &[T]) -> Vec3<T> {
    Vec3 { x: a[0], y: a[1], z: a[2] }
}
pub fn v4<T: Copy>(a: &[T]) -> Vec4<T> {
    Vec4 { x: a[0], y: a[1], z: a[2], w: a[3] }
}

/// A vek vector seen as a plain list of its fields in declaration order.
pub trait VL<T>: Sized {
    const N: usize;
    fn of(a: &[T]) -> Self;
    fn ent(&self) -> Vec<T>;
}
impl<T: Copy> VL<T> for Vec2<T> {
    const N: usize = 2;
    fn of(a: &[T]) -> Self {
        v2(a)
    }
    fn ent(&self) -> Vec<T> {
        vec![self.x, self.y]
    }
}
impl<T: Copy> VL<T> for Vec3<T> {
    const N: usize = 3;
    fn of(a: &[T]) -> Self {
        v3(a)
    }
    fn ent(&self) -> Vec<T> {
        vec![self.x, self.y, self.z]
    }
}
impl<T: Copy> VL<T> for Vec4<T> {
    const N: usize = 4;
    fn of(a: &[T]) -> Self {
        v4(a)
    }
    fn ent(&self) -> Vec<T> {
        vec![self.x, self.y, self.z, self.w]
    }
}

/// A vek matrix seen as an abstract N×N table `a[i][j]` = row i, column j.
pub trait ML<T>: Sized {
    const N: usize;
    const ROW_MAJOR: bool;
    const NAME: &'static str;
    type V: VL<T>;
    fn of(a: &[Vec<T>]) -> Self;
    fn ent(&self) -> Vec<Vec<T>>;
}
fn transpose<T: Copy>(a: &[Vec<T>]) -> Vec<Vec<T>> {
    let n = a.len();
    (0..n).map(|i| (0..n).map(|j| a[j][i]).collect()).collect()
}
macro_rules! ml {
    ($Rows:ident $Cols:ident $V:ident $vf:ident $n:expr, $rn:expr, $cn:expr) => {
        impl<T: Copy> ML<T> for $Rows<T> {
            const N: usize = $n;
            const ROW_MAJOR: bool = true;
            const NAME: &'static str = $rn;
            type V = $V<T>;
            fn of(a: &[Vec<T>]) -> Self {
                let lines: Vec<$V<T>> = a.iter().map(|r| $vf(r)).collect();
                $Rows { rows: $vf(&lines) }
            }
            fn ent(&self) -> Vec<Vec<T>> {
                VL::ent(&self.rows).iter().map(|r| VL::ent(r)).collect()
            }
        }
        impl<T: Copy> ML<T> for $Cols<T> {
            const N: usize = $n;
            const ROW_MAJOR: bool = false;
            const NAME: &'static str = $cn;
            type V = $V<T>;
            fn of(a: &[Vec<T>]) -> Self {
                let t = transpose(a);
                let lines: Vec<$V<T>> = t.iter().map(|r| $vf(r)).collect();
                $Cols { cols: $vf(&lines) }
            }
            fn ent(&self) -> Vec<Vec<T>> {
                let t: Vec<Vec<T>> = VL::ent(&self.cols).iter().map(|r| VL::ent(r)).collect();
                transpose(&t)
            }
        }
    };
}
ml!(Rows2 Cols2 Vec2 v2 2, "Rows2", "Cols2");
ml!(Rows3 Cols3 Vec3 v3 3, "Rows3", "Cols3");
ml!(Rows4 Cols4 Vec4 v4 4, "Rows4", "Cols4");

/// Inherent matrix functions common to all six matrix types, so scenarios can be generic.
pub trait MatOps<T>: ML<T> + Copy {
    /// the same size in the other layout
    type Other: ML<T> + Copy;
    fn det(self) -> T;
    fn transposed_(self) -> Self;
    fn transpose_(&mut self);
    fn to_other(self) -> Self::Other;
}
macro_rules! matops {
    ($A:ident $B:ident) => {
        impl<T: crate::real::Sx> MatOps<T> for $A<T> {
            type Other = $B<T>;
            fn det(self) -> T { self.determinant() }
            fn transposed_(self) -> Self { self.transposed() }
            fn transpose_(&mut self) { self.transpose() }
            fn to_other(self) -> $B<T> { $B::from(self) }
        }
    };
}
matops!(Rows2 Cols2);
matops!(Cols2 Rows2);
matops!(Rows3 Cols3);
matops!(Cols3 Rows3);
matops!(Rows4 Cols4);
matops!(Cols4 Rows4);

pub fn sym_mat<T: crate::core::Sc>(p: &str, n: usize) -> Vec<Vec<T>> {
    (0..n).map(|i| (0..n).map(|j| crate::core::var::<T>(&format!("{}{}{}", p, i, j))).collect()).collect()
}
pub fn sym_vec<T: crate::core::Sc>(p: &str, n: usize) -> Vec<T> {
    (0..n).map(|i| crate::core::var::<T>(&format!("{}{}", p, i))).collect()
}
pub fn matmul<T: crate::real::Sx>(a: &[Vec<T>], b: &[Vec<T>]) -> Vec<Vec<T>> {
    let n = a.len();
    (0..n).map(|i| (0..n).map(|j| (0..n).fold(crate::core::k::<T>(0), |s, l| s + a[i][l] * b[l][j])).collect()).collect()
}
pub fn matvec<T: crate::real::Sx>(a: &[Vec<T>], v: &[T]) -> Vec<T> {
    let n = a.len();
    (0..n).map(|i| (0..v.len()).fold(crate::core::k::<T>(0), |s, l| s + a[i][l] * v[l])).collect()
}
pub fn ident<T: crate::real::Sx>(n: usize) -> Vec<Vec<T>> {
    (0..n).map(|i| (0..n).map(|j| crate::core::k::<T>((i == j) as i64)).collect()).collect()
}
pub fn transp<T: Copy>(a: &[Vec<T>]) -> Vec<Vec<T>> {
    transpose(a)
}
/// Leibniz expansion: sum over permutations of sign * product
pub fn leibniz<T: crate::real::Sx>(a: &[Vec<T>]) -> T {
    let n = a.len();
    let mut perm: Vec<usize> = (0..n).collect();
    let mut acc = crate::core::k::<T>(0);
    // Heap's algorithm is overkill: enumerate all n! by recursion
    fn rec<T: crate::real::Sx>(a: &[Vec<T>], perm: &mut Vec<usize>, i: usize, acc: &mut T) {
        let n = a.len();
        if i == n {
            let mut inv = 0;
            for x in 0..n { for y in x + 1..n { if perm[x] > perm[y] { inv += 1; } } }
            let mut p = crate::core::k::<T>(if inv % 2 == 0 { 1 } else { -1 });
            for r in 0..n { p = p * a[r][perm[r]]; }
            *acc = *acc + p;
            return;
        }
        for j in i..n { perm.swap(i, j); rec(a, perm, i + 1, acc); perm.swap(i, j); }
    }
    rec(a, &mut perm, 0, &mut acc);
    acc
}
pub fn goals_mat<T: crate::core::Sc>(tag: &str, got: &[Vec<T>], want: &[Vec<T>]) {
    assert_eq!(got.len(), want.len());
    for i in 0..got.len() {
        for j in 0..got[i].len() {
            crate::core::goal(&format!("{}[{}][{}]", tag, i, j), crate::core::eq(got[i][j], want[i][j]));
        }
    }
}
pub fn goals_vec<T: crate::core::Sc>(tag: &str, got: &[T], want: &[T]) {
    assert_eq!(got.len(), want.len());
    for i in 0..got.len() {
        crate::core::goal(&format!("{}[{}]", tag, i), crate::core::eq(got[i], want[i]));
    }
}
/// rotation matrix of the non-zero quaternion (x,y,z,w): the harness's own rational parametrisation of SO(3)
pub fn rot_of_quat<T: crate::real::Sx>(qx: T, qy: T, qz: T, qw: T) -> (Vec<Vec<T>>, T) {
    let k = crate::core::k::<T>;
    let n = qx * qx + qy * qy + qz * qz + qw * qw;
    let two = k(2);
    (
        vec![
            vec![k(1) - two * (qy * qy + qz * qz) / n, two * (qx * qy - qz * qw) / n, two * (qx * qz + qy * qw) / n],
            vec![two * (qx * qy + qz * qw) / n, k(1) - two * (qx * qx + qz * qz) / n, two * (qy * qz - qx * qw) / n],
            vec![two * (qx * qz - qy * qw) / n, two * (qy * qz + qx * qw) / n, k(1) - two * (qx * qx + qy * qy) / n],
        ],
        n,
    )
}
