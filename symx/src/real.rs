//! `SymR` (exact-real symbolic scalar), `Cn` (concrete replay scalar: exact rational when possible,
//! else f64) and the trait boilerplate both share. `f64` itself also implements `Sc` so that every
//! scenario can be replayed on the plain native type.

use crate::core::*;
use num_traits::{Float, FloatConst, Num, NumCast, One, ToPrimitive, Zero};
use std::ops::*;

pub trait RealPrim: Copy + 'static {
    fn c(n: i128, d: i128) -> Self;
    /// 0 add, 1 sub, 2 mul, 3 div
    fn op2(op: u8, a: Self, b: Self) -> Self;
    fn neg1(a: Self) -> Self;
    fn fun(name: &'static str, args: &[Self]) -> Self;
    fn d_lt(a: Self, b: Self) -> bool;
    fn d_le(a: Self, b: Self) -> bool;
    fn d_eq(a: Self, b: Self) -> bool;
    fn as_q(self) -> Option<(i128, i128)>;
    fn approx(self) -> Option<f64>;
    /// `if a < b then x else y` as a value without forking, when the engine wants that
    fn ite_lt(_a: Self, _b: Self, _x: Self, _y: Self) -> Option<Self> {
        None
    }
    fn named(name: &'static str) -> Self;
    fn show(self) -> String;
}

fn gcd(a: i128, b: i128) -> i128 {
    let (mut a, mut b) = (a.abs(), b.abs());
    while b != 0 {
        let t = a % b;
        a = b;
        b = t;
    }
    a
}
pub fn norm_q(n: i128, d: i128) -> (i128, i128) {
    let g = gcd(n, d).max(1);
    let (mut n, mut d) = (n / g, d / g);
    if d < 0 {
        n = -n;
        d = -d;
    }
    (n, d)
}
fn q_add(a: (i128, i128), b: (i128, i128)) -> Option<(i128, i128)> {
    let n = a.0.checked_mul(b.1)?.checked_add(b.0.checked_mul(a.1)?)?;
    let d = a.1.checked_mul(b.1)?;
    Some(norm_q(n, d))
}
fn q_sub(a: (i128, i128), b: (i128, i128)) -> Option<(i128, i128)> {
    q_add(a, (b.0.checked_neg()?, b.1))
}
fn q_mul(a: (i128, i128), b: (i128, i128)) -> Option<(i128, i128)> {
    Some(norm_q(a.0.checked_mul(b.0)?, a.1.checked_mul(b.1)?))
}
fn q_div(a: (i128, i128), b: (i128, i128)) -> Option<(i128, i128)> {
    if b.0 == 0 {
        return None;
    }
    Some(norm_q(a.0.checked_mul(b.1)?, a.1.checked_mul(b.0)?))
}
fn q_cmp(a: (i128, i128), b: (i128, i128)) -> Option<std::cmp::Ordering> {
    Some(a.0.checked_mul(b.1)?.cmp(&b.0.checked_mul(a.1)?))
}
fn q_floor(a: (i128, i128)) -> i128 {
    a.0.div_euclid(a.1)
}
fn isqrt(n: i128) -> Option<i128> {
    if n < 0 {
        return None;
    }
    let r = (n as f64).sqrt() as i128;
    for c in [r - 1, r, r + 1] {
        if c >= 0 && c.checked_mul(c) == Some(n) {
            return Some(c);
        }
    }
    None
}
/// dyadic-exact conversion of an f64 to a rational (None when out of i128 reach)
pub fn f64_to_q(f: f64) -> Option<(i128, i128)> {
    if !f.is_finite() {
        return None;
    }
    let mut d: i128 = 1;
    let mut x = f;
    let mut kk = 0;
    while x.fract() != 0.0 {
        x *= 2.0;
        d = d.checked_mul(2)?;
        kk += 1;
        if kk > 100 {
            return None;
        }
    }
    if x.abs() > 1e36 {
        return None;
    }
    Some(norm_q(x as i128, d))
}

// ---------------------------------------------------------------------------------------------
// SymR
// ---------------------------------------------------------------------------------------------
#[derive(Copy, Clone)]
pub struct SymR(pub u32);

pub fn node(s: u32) -> Node {
    with(|e| e.nodes[s as usize].clone())
}
fn mk(n: Node) -> SymR {
    SymR(with(|e| e.mk(n)))
}
impl SymR {
    pub fn var(name: &str) -> SymR {
        mk(Node::Var(name.to_string()))
    }
    pub fn konst(n: i128, d: i128) -> SymR {
        let (n, d) = norm_q(n, d);
        mk(Node::Const(n, d))
    }
}
fn simp(n: Node) -> SymR {
    let cq = |i: &u32| -> Option<(i128, i128)> {
        if let Node::Const(n, d) = node(*i) {
            Some((n, d))
        } else {
            None
        }
    };
    match &n {
        Node::Add(a, b) => {
            if let Some((0, _)) = cq(a) {
                return SymR(*b);
            }
            if let Some((0, _)) = cq(b) {
                return SymR(*a);
            }
            if let (Some(x), Some(y)) = (cq(a), cq(b)) {
                if let Some(r) = q_add(x, y) {
                    return SymR::konst(r.0, r.1);
                }
            }
        }
        Node::Sub(a, b) => {
            if let Some((0, _)) = cq(b) {
                return SymR(*a);
            }
            if let (Some(x), Some(y)) = (cq(a), cq(b)) {
                if let Some(r) = q_sub(x, y) {
                    return SymR::konst(r.0, r.1);
                }
            }
            if a == b {
                return SymR::konst(0, 1);
            }
        }
        Node::Mul(a, b) => {
            for (x, y) in [(a, b), (b, a)] {
                if let Some((n0, d0)) = cq(x) {
                    if n0 == 0 {
                        return SymR::konst(0, 1);
                    }
                    if n0 == d0 {
                        return SymR(*y);
                    }
                }
            }
            if let (Some(x), Some(y)) = (cq(a), cq(b)) {
                if let Some(r) = q_mul(x, y) {
                    return SymR::konst(r.0, r.1);
                }
            }
        }
        Node::Div(a, b) => {
            if let Some((n0, d0)) = cq(b) {
                if n0 == d0 {
                    return SymR(*a);
                }
            }
            if let (Some(x), Some(y)) = (cq(a), cq(b)) {
                if let Some(r) = q_div(x, y) {
                    return SymR::konst(r.0, r.1);
                }
            }
        }
        Node::Neg(a) => {
            if let Some((n0, d0)) = cq(a) {
                if let Some(m) = n0.checked_neg() {
                    return SymR::konst(m, d0);
                }
            }
            if let Node::Neg(x) = node(*a) {
                return SymR(x);
            }
        }
        Node::Fun(f, args) if args.len() == 1 => {
            if let Some(q) = cq(&args[0]) {
                match *f {
                    "floor" => return SymR::konst(q_floor(q), 1),
                    "ceil" => return SymR::konst(-q_floor((-q.0, q.1)), 1),
                    "trunc" => return SymR::konst(if q.0 >= 0 { q_floor(q) } else { -q_floor((-q.0, q.1)) }, 1),
                    "round" => {
                        // half away from zero
                        let h = if q.0 >= 0 { q_floor(norm_q(2 * q.0 + q.1, 2 * q.1)) } else { -q_floor(norm_q(-2 * q.0 + q.1, 2 * q.1)) };
                        return SymR::konst(h, 1);
                    }
                    "sqrt" => {
                        if let (Some(a), Some(b)) = (isqrt(q.0), isqrt(q.1)) {
                            return SymR::konst(a, b);
                        }
                    }
                    "sin" if q.0 == 0 => return SymR::konst(0, 1),
                    "cos" if q.0 == 0 => return SymR::konst(1, 1),
                    _ => {}
                }
            }
        }
        _ => {}
    }
    mk(n)
}
fn const_cmp(a: u32, b: u32) -> Option<std::cmp::Ordering> {
    if a == b {
        return Some(std::cmp::Ordering::Equal);
    }
    if let (Node::Const(an, ad), Node::Const(bn, bd)) = (node(a), node(b)) {
        return q_cmp((an, ad), (bn, bd));
    }
    None
}
impl RealPrim for SymR {
    fn c(n: i128, d: i128) -> Self {
        SymR::konst(n, d)
    }
    fn op2(op: u8, a: Self, b: Self) -> Self {
        simp(match op {
            0 => Node::Add(a.0, b.0),
            1 => Node::Sub(a.0, b.0),
            2 => Node::Mul(a.0, b.0),
            _ => Node::Div(a.0, b.0),
        })
    }
    fn neg1(a: Self) -> Self {
        simp(Node::Neg(a.0))
    }
    fn fun(name: &'static str, args: &[Self]) -> Self {
        simp(Node::Fun(name, args.iter().map(|s| s.0).collect()))
    }
    fn d_lt(a: Self, b: Self) -> bool {
        if let Some(o) = const_cmp(a.0, b.0) {
            return o == std::cmp::Ordering::Less;
        }
        decide(Cond::Lt(a.0, b.0))
    }
    fn d_le(a: Self, b: Self) -> bool {
        if let Some(o) = const_cmp(a.0, b.0) {
            return o != std::cmp::Ordering::Greater;
        }
        decide(Cond::Le(a.0, b.0))
    }
    fn d_eq(a: Self, b: Self) -> bool {
        if let Some(o) = const_cmp(a.0, b.0) {
            return o == std::cmp::Ordering::Equal;
        }
        // canonical orientation so that a==b and b==a share a decision
        let (x, y) = if a.0 <= b.0 { (a.0, b.0) } else { (b.0, a.0) };
        decide(Cond::Eq(x, y))
    }
    fn as_q(self) -> Option<(i128, i128)> {
        if let Node::Const(n, d) = node(self.0) {
            Some((n, d))
        } else {
            None
        }
    }
    fn approx(self) -> Option<f64> {
        self.as_q().map(|(n, d)| n as f64 / d as f64)
    }
    fn ite_lt(a: Self, b: Self, x: Self, y: Self) -> Option<Self> {
        if !with(|e| e.ite_mode) {
            return None;
        }
        if let Some(o) = const_cmp(a.0, b.0) {
            return Some(if o == std::cmp::Ordering::Less { x } else { y });
        }
        if x.0 == y.0 {
            return Some(x);
        }
        let c = with(|e| e.mk_cond(Cond::Lt(a.0, b.0)));
        Some(mk(Node::Ite(c, x.0, y.0)))
    }
    fn named(name: &'static str) -> Self {
        SymR::var(name)
    }
    fn show(self) -> String {
        format!("#{}", self.0)
    }
}
impl Sc for SymR {
    fn input(name: &str) -> Self {
        SymR::var(name)
    }
    fn node_id(self) -> Option<u32> {
        Some(self.0)
    }
    fn q(n: i64, d: i64) -> Self {
        SymR::konst(n as i128, d as i128)
    }
    fn f_eq(a: Self, b: Self) -> Fm {
        if let Some(o) = const_cmp(a.0, b.0) {
            return Fm::Lit(o == std::cmp::Ordering::Equal);
        }
        Fm::C(with(|e| e.mk_cond(Cond::Eq(a.0, b.0))))
    }
    fn f_le(a: Self, b: Self) -> Fm {
        if let Some(o) = const_cmp(a.0, b.0) {
            return Fm::Lit(o != std::cmp::Ordering::Greater);
        }
        Fm::C(with(|e| e.mk_cond(Cond::Le(a.0, b.0))))
    }
    fn f_lt(a: Self, b: Self) -> Fm {
        if let Some(o) = const_cmp(a.0, b.0) {
            return Fm::Lit(o == std::cmp::Ordering::Less);
        }
        Fm::C(with(|e| e.mk_cond(Cond::Lt(a.0, b.0))))
    }
}

// ---------------------------------------------------------------------------------------------
// Cn: concrete replay scalar
// ---------------------------------------------------------------------------------------------
#[derive(Copy, Clone, Debug)]
pub enum Cn {
    Q(i128, i128),
    F(f64),
}
impl Cn {
    pub fn f(self) -> f64 {
        match self {
            Cn::Q(n, d) => n as f64 / d as f64,
            Cn::F(x) => x,
        }
    }
    pub fn parse(s: &str) -> Cn {
        let s = s.trim();
        if let Some((a, b)) = s.split_once('/') {
            if let (Ok(n), Ok(d)) = (a.trim().parse::<i128>(), b.trim().parse::<i128>()) {
                if d != 0 {
                    let (n, d) = norm_q(n, d);
                    return Cn::Q(n, d);
                }
            }
            let (x, y): (f64, f64) = (a.trim().parse().unwrap_or(f64::NAN), b.trim().parse().unwrap_or(f64::NAN));
            return Cn::F(x / y);
        }
        if let Ok(n) = s.parse::<i128>() {
            return Cn::Q(n, 1);
        }
        let f: f64 = s.parse().unwrap_or(f64::NAN);
        match f64_to_q(f) {
            Some((n, d)) if d.abs() <= (1i128 << 40) && n.abs() <= (1i128 << 60) => Cn::Q(n, d),
            _ => Cn::F(f),
        }
    }
    pub fn render(self) -> String {
        match self {
            Cn::Q(n, 1) => format!("{}", n),
            Cn::Q(n, d) => format!("{}/{}", n, d),
            Cn::F(x) => format!("{:e}", x),
        }
    }
}
const TOL_EQ: f64 = 1e-9;
const TOL_NE: f64 = 1e-6;
fn scale(a: f64, b: f64) -> f64 {
    1.0f64.max(a.abs()).max(b.abs())
}
pub fn tri_eq_f(a: f64, b: f64) -> Tri {
    if a.is_nan() || b.is_nan() {
        return Tri::U;
    }
    let d = (a - b).abs();
    let s = scale(a, b);
    if d <= TOL_EQ * s {
        Tri::T
    } else if d > TOL_NE * s {
        Tri::F
    } else {
        Tri::U
    }
}
pub fn tri_le_f(a: f64, b: f64, strict: bool) -> Tri {
    if a.is_nan() || b.is_nan() {
        return Tri::U;
    }
    let s = scale(a, b);
    let _ = strict;
    if a <= b - TOL_NE * s {
        Tri::T
    } else if a > b + TOL_NE * s {
        Tri::F
    } else {
        Tri::U
    }
}
/// a replay-supplied value for a named constant of the scalar (EPS, PI); recorded among the run's inputs so that the
/// replay file reproduces the run
fn supplied(name: &str) -> Option<String> {
    with(|e| match e.inputs.get(name).cloned() {
        Some(v) if !v.is_empty() => {
            if !e.drawn.iter().any(|(n, _)| n == name) {
                e.drawn.push((name.to_string(), v.clone()));
            }
            Some(v)
        }
        _ => None,
    })
}
fn draw(name: &str) -> String {
    // replay value if supplied, else a seeded draw from a boundary-friendly distribution
    with(|e| {
        if let Some(v) = e.inputs.get(name) {
            let v = v.clone();
            e.drawn.push((name.to_string(), v.clone()));
            return v;
        }
        let special = name == "EPS" || name == "PI";
        let v = if special {
            String::new()
        } else {
            let r = e.next_u64();
            let kind = r % 8;
            let a = ((r >> 8) % 41) as i64 - 20;
            match kind {
                0 | 1 | 2 => format!("{}", a.clamp(-4, 4)),
                3 | 4 => format!("{}/{}", a, [2, 4, 3][((r >> 20) % 3) as usize]),
                5 => format!("{}", a),
                _ => format!("{}/{}", ((r >> 24) % 2001) as i64 - 1000, 64),
            }
        };
        e.drawn.push((name.to_string(), v.clone()));
        // the same name must denote the same value for the rest of the run
        e.inputs.insert(name.to_string(), v.clone());
        v
    })
}
impl RealPrim for Cn {
    fn c(n: i128, d: i128) -> Self {
        let (n, d) = norm_q(n, d);
        Cn::Q(n, d)
    }
    fn op2(op: u8, a: Self, b: Self) -> Self {
        if let (Cn::Q(an, ad), Cn::Q(bn, bd)) = (a, b) {
            let r = match op {
                0 => q_add((an, ad), (bn, bd)),
                1 => q_sub((an, ad), (bn, bd)),
                2 => q_mul((an, ad), (bn, bd)),
                _ => q_div((an, ad), (bn, bd)),
            };
            if let Some((n, d)) = r {
                if n.abs() < (1i128 << 100) && d < (1i128 << 100) {
                    return Cn::Q(n, d);
                }
            }
        }
        let (x, y) = (a.f(), b.f());
        if op == 3 && y == 0.0 {
            with(|e| e.divzero = true);
        }
        Cn::F(match op {
            0 => x + y,
            1 => x - y,
            2 => x * y,
            _ => x / y,
        })
    }
    fn neg1(a: Self) -> Self {
        match a {
            Cn::Q(n, d) => Cn::Q(-n, d),
            Cn::F(x) => Cn::F(-x),
        }
    }
    fn fun(name: &'static str, args: &[Self]) -> Self {
        if let Cn::Q(n, d) = args[0] {
            match name {
                "floor" => return Cn::Q(q_floor((n, d)), 1),
                "ceil" => return Cn::Q(-q_floor((-n, d)), 1),
                "trunc" => return Cn::Q(if n >= 0 { q_floor((n, d)) } else { -q_floor((-n, d)) }, 1),
                "round" => {
                    let h = if n >= 0 { q_floor(norm_q(2 * n + d, 2 * d)) } else { -q_floor(norm_q(-2 * n + d, 2 * d)) };
                    return Cn::Q(h, 1);
                }
                "sqrt" => {
                    if let (Some(a), Some(b)) = (isqrt(n), isqrt(d)) {
                        return Cn::Q(a, b);
                    }
                }
                "sin" if n == 0 => return Cn::Q(0, 1),
                "cos" if n == 0 => return Cn::Q(1, 1),
                _ => {}
            }
        }
        let x = args[0].f();
        Cn::F(match name {
            "floor" => x.floor(),
            "ceil" => x.ceil(),
            "trunc" => x.trunc(),
            "round" => x.round(),
            "sqrt" => x.sqrt(),
            "sin" => x.sin(),
            "cos" => x.cos(),
            "acos" => x.acos(),
            "asin" => x.asin(),
            "atan" => x.atan(),
            "atan2" => x.atan2(args[1].f()),
            "exp" => x.exp(), "exp2" => x.exp2(), "ln" => x.ln(), "log2" => x.log2(), "log10" => x.log10(), "cbrt" => x.cbrt(),
            "exp_m1" => x.exp_m1(), "ln_1p" => x.ln_1p(), "sinh" => x.sinh(), "cosh" => x.cosh(), "tanh" => x.tanh(),
            "asinh" => x.asinh(), "acosh" => x.acosh(), "atanh" => x.atanh(),
            "powf" => x.powf(args[1].f()), "log" => x.log(args[1].f()),
            _ => panic!("Cn::fun {}", name),
        })
    }
    fn d_lt(a: Self, b: Self) -> bool {
        if let (Cn::Q(an, ad), Cn::Q(bn, bd)) = (a, b) {
            if let Some(o) = q_cmp((an, ad), (bn, bd)) {
                return o == std::cmp::Ordering::Less;
            }
        }
        a.f() < b.f()
    }
    fn d_le(a: Self, b: Self) -> bool {
        if let (Cn::Q(an, ad), Cn::Q(bn, bd)) = (a, b) {
            if let Some(o) = q_cmp((an, ad), (bn, bd)) {
                return o != std::cmp::Ordering::Greater;
            }
        }
        a.f() <= b.f()
    }
    fn d_eq(a: Self, b: Self) -> bool {
        if let (Cn::Q(an, ad), Cn::Q(bn, bd)) = (a, b) {
            return an == bn && ad == bd;
        }
        a.f() == b.f()
    }
    fn as_q(self) -> Option<(i128, i128)> {
        if let Cn::Q(n, d) = self {
            Some((n, d))
        } else {
            None
        }
    }
    fn approx(self) -> Option<f64> {
        Some(self.f())
    }
    fn named(name: &'static str) -> Self {
        match name {
            // the scalar's epsilon is a parameter of the generic code: a replay supplies the solver model's value
            // (any value in (0, 2^-20] is a legitimate instantiation), otherwise f64's
            "EPS" => match supplied("EPS") { Some(v) => Cn::parse(&v), _ => Cn::Q(1, 1i128 << 52) },
            // likewise PI: every float type's PI is a rational near pi, so a replay may instantiate it with the model's
            // value (the driver passes it only for paths without trigonometric atoms, whose native evaluation is pi-periodic)
            "PI" => match supplied("PI") { Some(v) => Cn::parse(&v), _ => Cn::F(std::f64::consts::PI) },
            "E" => Cn::F(std::f64::consts::E),
            _ => panic!("Cn::named {}", name),
        }
    }
    fn show(self) -> String {
        self.render()
    }
}
impl Sc for Cn {
    fn input(name: &str) -> Self {
        Cn::parse(&draw(name))
    }
    fn q(n: i64, d: i64) -> Self {
        Cn::c(n as i128, d as i128)
    }
    fn f_eq(a: Self, b: Self) -> Fm {
        if let (Cn::Q(..), Cn::Q(..)) = (a, b) {
            return Fm::V(Tri::of(Cn::d_eq(a, b)));
        }
        Fm::V(tri_eq_f(a.f(), b.f()))
    }
    fn f_le(a: Self, b: Self) -> Fm {
        if let (Cn::Q(..), Cn::Q(..)) = (a, b) {
            return Fm::V(Tri::of(Cn::d_le(a, b)));
        }
        Fm::V(tri_le_f(a.f(), b.f(), false))
    }
    fn f_lt(a: Self, b: Self) -> Fm {
        if let (Cn::Q(..), Cn::Q(..)) = (a, b) {
            return Fm::V(Tri::of(Cn::d_lt(a, b)));
        }
        Fm::V(tri_le_f(a.f(), b.f(), true))
    }
}
impl Sc for f64 {
    fn input(name: &str) -> Self {
        Cn::parse(&draw(name)).f()
    }
    fn q(n: i64, d: i64) -> Self {
        n as f64 / d as f64
    }
    fn f_eq(a: Self, b: Self) -> Fm {
        Fm::V(tri_eq_f(a, b))
    }
    fn f_le(a: Self, b: Self) -> Fm {
        Fm::V(tri_le_f(a, b, false))
    }
    fn f_lt(a: Self, b: Self) -> Fm {
        Fm::V(tri_le_f(a, b, true))
    }
}

// ---------------------------------------------------------------------------------------------
// Trait boilerplate shared by SymR and Cn
// ---------------------------------------------------------------------------------------------
macro_rules! impl_realish {
    ($T:ident) => {
        impl Add for $T { type Output = $T; fn add(self, o: $T) -> $T { <$T as RealPrim>::op2(0, self, o) } }
        impl Sub for $T { type Output = $T; fn sub(self, o: $T) -> $T { <$T as RealPrim>::op2(1, self, o) } }
        impl Mul for $T { type Output = $T; fn mul(self, o: $T) -> $T { <$T as RealPrim>::op2(2, self, o) } }
        impl Div for $T { type Output = $T; fn div(self, o: $T) -> $T { <$T as RealPrim>::op2(3, self, o) } }
        impl Rem for $T { type Output = $T; fn rem(self, o: $T) -> $T { self - <$T as RealPrim>::fun("trunc", &[self / o]) * o } }
        impl Neg for $T { type Output = $T; fn neg(self) -> $T { <$T as RealPrim>::neg1(self) } }
        impl<'a> Add<&'a $T> for $T { type Output = $T; fn add(self, o: &$T) -> $T { self + *o } }
        impl<'a> Sub<&'a $T> for $T { type Output = $T; fn sub(self, o: &$T) -> $T { self - *o } }
        impl<'a> Mul<&'a $T> for $T { type Output = $T; fn mul(self, o: &$T) -> $T { self * *o } }
        impl<'a> Div<&'a $T> for $T { type Output = $T; fn div(self, o: &$T) -> $T { self / *o } }
        impl<'a> Rem<&'a $T> for $T { type Output = $T; fn rem(self, o: &$T) -> $T { self % *o } }
        impl<'a> Add<$T> for &'a $T { type Output = $T; fn add(self, o: $T) -> $T { *self + o } }
        impl<'a> Sub<$T> for &'a $T { type Output = $T; fn sub(self, o: $T) -> $T { *self - o } }
        impl<'a> Mul<$T> for &'a $T { type Output = $T; fn mul(self, o: $T) -> $T { *self * o } }
        impl<'a> Div<$T> for &'a $T { type Output = $T; fn div(self, o: $T) -> $T { *self / o } }
        impl<'a> Rem<$T> for &'a $T { type Output = $T; fn rem(self, o: $T) -> $T { *self % o } }
        impl<'a, 'b> Add<&'b $T> for &'a $T { type Output = $T; fn add(self, o: &$T) -> $T { *self + *o } }
        impl<'a, 'b> Sub<&'b $T> for &'a $T { type Output = $T; fn sub(self, o: &$T) -> $T { *self - *o } }
        impl<'a, 'b> Mul<&'b $T> for &'a $T { type Output = $T; fn mul(self, o: &$T) -> $T { *self * *o } }
        impl<'a, 'b> Div<&'b $T> for &'a $T { type Output = $T; fn div(self, o: &$T) -> $T { *self / *o } }
        impl<'a, 'b> Rem<&'b $T> for &'a $T { type Output = $T; fn rem(self, o: &$T) -> $T { *self % *o } }
        impl<'a> Neg for &'a $T { type Output = $T; fn neg(self) -> $T { -*self } }
        impl AddAssign for $T { fn add_assign(&mut self, o: $T) { *self = *self + o; } }
        impl SubAssign for $T { fn sub_assign(&mut self, o: $T) { *self = *self - o; } }
        impl MulAssign for $T { fn mul_assign(&mut self, o: $T) { *self = *self * o; } }
        impl DivAssign for $T { fn div_assign(&mut self, o: $T) { *self = *self / o; } }
        impl RemAssign for $T { fn rem_assign(&mut self, o: $T) { *self = *self % o; } }
        impl PartialEq for $T { fn eq(&self, o: &$T) -> bool { <$T as RealPrim>::d_eq(*self, *o) } }
        impl PartialOrd for $T {
            fn partial_cmp(&self, o: &$T) -> Option<std::cmp::Ordering> {
                use std::cmp::Ordering::*;
                if <$T as RealPrim>::d_lt(*self, *o) { Some(Less) } else if <$T as RealPrim>::d_eq(*self, *o) { Some(Equal) } else { Some(Greater) }
            }
            fn lt(&self, o: &$T) -> bool { <$T as RealPrim>::d_lt(*self, *o) }
            fn le(&self, o: &$T) -> bool { <$T as RealPrim>::d_le(*self, *o) }
            fn gt(&self, o: &$T) -> bool { <$T as RealPrim>::d_lt(*o, *self) }
            fn ge(&self, o: &$T) -> bool { <$T as RealPrim>::d_le(*o, *self) }
        }
        impl Default for $T { fn default() -> $T { <$T as RealPrim>::c(0, 1) } }
        impl std::iter::Sum for $T { fn sum<I: Iterator<Item = $T>>(it: I) -> $T { it.fold(<$T as RealPrim>::c(0, 1), |a, b| a + b) } }
        impl std::iter::Product for $T { fn product<I: Iterator<Item = $T>>(it: I) -> $T { it.fold(<$T as RealPrim>::c(1, 1), |a, b| a * b) } }
        impl Zero for $T { fn zero() -> $T { <$T as RealPrim>::c(0, 1) } fn is_zero(&self) -> bool { *self == <$T as RealPrim>::c(0, 1) } }
        impl One for $T { fn one() -> $T { <$T as RealPrim>::c(1, 1) } }
        impl Num for $T { type FromStrRadixErr = (); fn from_str_radix(_: &str, _: u32) -> Result<$T, ()> { Err(()) } }
        impl ToPrimitive for $T {
            fn to_i64(&self) -> Option<i64> { self.as_q().and_then(|(n, d)| if d == 1 { i64::try_from(n).ok() } else { None }) }
            fn to_u64(&self) -> Option<u64> { self.as_q().and_then(|(n, d)| if d == 1 { u64::try_from(n).ok() } else { None }) }
            fn to_f64(&self) -> Option<f64> { RealPrim::approx(*self) }
        }
        impl NumCast for $T {
            fn from<N: ToPrimitive>(n: N) -> Option<$T> {
                if let Some(i) = n.to_i64() { if n.to_f64() == Some(i as f64) { return Some(<$T as RealPrim>::c(i as i128, 1)); } }
                let f = n.to_f64()?;
                let (a, b) = f64_to_q(f)?;
                Some(<$T as RealPrim>::c(a, b))
            }
        }
        impl From<u8> for $T { fn from(x: u8) -> $T { <$T as RealPrim>::c(x as i128, 1) } }
        impl From<u16> for $T { fn from(x: u16) -> $T { <$T as RealPrim>::c(x as i128, 1) } }
        impl std::fmt::Display for $T { fn fmt(&self, f: &mut std::fmt::Formatter) -> std::fmt::Result { write!(f, "{}", RealPrim::show(*self)) } }
        impl num_traits::Signed for $T {
            fn abs(&self) -> $T { Float::abs(*self) }
            fn abs_sub(&self, o: &$T) -> $T { if *self <= *o { <$T as RealPrim>::c(0, 1) } else { *self - *o } }
            fn signum(&self) -> $T { Float::signum(*self) }
            fn is_positive(&self) -> bool { *self > <$T as RealPrim>::c(0, 1) }
            fn is_negative(&self) -> bool { *self < <$T as RealPrim>::c(0, 1) }
        }
        impl FloatConst for $T {
            fn PI() -> $T { <$T as RealPrim>::named("PI") }
            fn E() -> $T { <$T as RealPrim>::named("E") }
            fn FRAC_1_PI() -> $T { <$T as RealPrim>::c(1, 1) / Self::PI() }
            fn FRAC_1_SQRT_2() -> $T { <$T as RealPrim>::c(1, 1) / Self::SQRT_2() }
            fn FRAC_2_PI() -> $T { <$T as RealPrim>::c(2, 1) / Self::PI() }
            fn FRAC_2_SQRT_PI() -> $T { <$T as RealPrim>::c(2, 1) / Float::sqrt(Self::PI()) }
            fn FRAC_PI_2() -> $T { Self::PI() / <$T as RealPrim>::c(2, 1) }
            fn FRAC_PI_3() -> $T { Self::PI() / <$T as RealPrim>::c(3, 1) }
            fn FRAC_PI_4() -> $T { Self::PI() / <$T as RealPrim>::c(4, 1) }
            fn FRAC_PI_6() -> $T { Self::PI() / <$T as RealPrim>::c(6, 1) }
            fn FRAC_PI_8() -> $T { Self::PI() / <$T as RealPrim>::c(8, 1) }
            fn LN_10() -> $T { unimplemented!() }
            fn LN_2() -> $T { unimplemented!() }
            fn LOG10_E() -> $T { unimplemented!() }
            fn LOG2_E() -> $T { unimplemented!() }
            fn SQRT_2() -> $T { <$T as RealPrim>::fun("sqrt", &[<$T as RealPrim>::c(2, 1)]) }
        }
        impl Float for $T {
            fn nan() -> $T { panic!("symx: nan() is outside the exact-real model") }
            fn infinity() -> $T { panic!("symx: infinity() is outside the exact-real model") }
            fn neg_infinity() -> $T { panic!("symx: neg_infinity() is outside the exact-real model") }
            fn neg_zero() -> $T { <$T as RealPrim>::c(0, 1) }
            fn min_value() -> $T { panic!("symx: min_value()") }
            fn min_positive_value() -> $T { panic!("symx: min_positive_value()") }
            fn max_value() -> $T { panic!("symx: max_value()") }
            fn epsilon() -> $T { <$T as RealPrim>::named("EPS") }
            fn is_nan(self) -> bool { false }
            fn is_infinite(self) -> bool { false }
            fn is_finite(self) -> bool { true }
            fn is_normal(self) -> bool { true }
            fn classify(self) -> std::num::FpCategory { std::num::FpCategory::Normal }
            fn floor(self) -> $T { <$T as RealPrim>::fun("floor", &[self]) }
            fn ceil(self) -> $T { <$T as RealPrim>::fun("ceil", &[self]) }
            fn round(self) -> $T { <$T as RealPrim>::fun("round", &[self]) }
            fn trunc(self) -> $T { <$T as RealPrim>::fun("trunc", &[self]) }
            fn fract(self) -> $T { self - Float::trunc(self) }
            fn abs(self) -> $T {
                let z = <$T as RealPrim>::c(0, 1);
                if let Some(r) = <$T as RealPrim>::ite_lt(self, z, -self, self) { return r; }
                if self < z { -self } else { self }
            }
            fn signum(self) -> $T {
                let z = <$T as RealPrim>::c(0, 1);
                let (m, p) = (<$T as RealPrim>::c(-1, 1), <$T as RealPrim>::c(1, 1));
                if let Some(r) = <$T as RealPrim>::ite_lt(self, z, m, p) { return r; }
                if self < z { m } else { p }
            }
            fn is_sign_positive(self) -> bool { self >= <$T as RealPrim>::c(0, 1) }
            fn is_sign_negative(self) -> bool { self < <$T as RealPrim>::c(0, 1) }
            fn mul_add(self, a: $T, b: $T) -> $T { self * a + b }
            fn recip(self) -> $T { <$T as RealPrim>::c(1, 1) / self }
            fn powi(self, n: i32) -> $T {
                let mut r = <$T as RealPrim>::c(1, 1);
                for _ in 0..n.abs() { r = r * self; }
                if n < 0 { <$T as RealPrim>::c(1, 1) / r } else { r }
            }
            fn powf(self, o: $T) -> $T { <$T as RealPrim>::fun("powf", &[self, o]) }
            fn sqrt(self) -> $T { <$T as RealPrim>::fun("sqrt", &[self]) }
            fn exp(self) -> $T { <$T as RealPrim>::fun("exp", &[self]) }
            fn exp2(self) -> $T { <$T as RealPrim>::fun("exp2", &[self]) }
            fn ln(self) -> $T { <$T as RealPrim>::fun("ln", &[self]) }
            fn log(self, o: $T) -> $T { <$T as RealPrim>::fun("log", &[self, o]) }
            fn log2(self) -> $T { <$T as RealPrim>::fun("log2", &[self]) }
            fn log10(self) -> $T { <$T as RealPrim>::fun("log10", &[self]) }
            fn max(self, o: $T) -> $T {
                if let Some(r) = <$T as RealPrim>::ite_lt(self, o, o, self) { return r; }
                if self >= o { self } else { o }
            }
            fn min(self, o: $T) -> $T {
                if let Some(r) = <$T as RealPrim>::ite_lt(o, self, o, self) { return r; }
                if self <= o { self } else { o }
            }
            fn abs_sub(self, o: $T) -> $T { if self <= o { <$T as RealPrim>::c(0, 1) } else { self - o } }
            fn cbrt(self) -> $T { <$T as RealPrim>::fun("cbrt", &[self]) }
            fn hypot(self, o: $T) -> $T { Float::sqrt(self * self + o * o) }
            fn sin(self) -> $T { <$T as RealPrim>::fun("sin", &[self]) }
            fn cos(self) -> $T { <$T as RealPrim>::fun("cos", &[self]) }
            fn tan(self) -> $T { Float::sin(self) / Float::cos(self) }
            fn asin(self) -> $T { <$T as RealPrim>::fun("asin", &[self]) }
            fn acos(self) -> $T { <$T as RealPrim>::fun("acos", &[self]) }
            fn atan(self) -> $T { <$T as RealPrim>::fun("atan", &[self]) }
            fn atan2(self, o: $T) -> $T { <$T as RealPrim>::fun("atan2", &[self, o]) }
            fn sin_cos(self) -> ($T, $T) { (Float::sin(self), Float::cos(self)) }
            fn exp_m1(self) -> $T { <$T as RealPrim>::fun("exp_m1", &[self]) }
            fn ln_1p(self) -> $T { <$T as RealPrim>::fun("ln_1p", &[self]) }
            fn sinh(self) -> $T { <$T as RealPrim>::fun("sinh", &[self]) }
            fn cosh(self) -> $T { <$T as RealPrim>::fun("cosh", &[self]) }
            fn tanh(self) -> $T { <$T as RealPrim>::fun("tanh", &[self]) }
            fn asinh(self) -> $T { <$T as RealPrim>::fun("asinh", &[self]) }
            fn acosh(self) -> $T { <$T as RealPrim>::fun("acosh", &[self]) }
            fn atanh(self) -> $T { <$T as RealPrim>::fun("atanh", &[self]) }
            fn integer_decode(self) -> (u64, i16, i8) { panic!("symx: integer_decode") }
            fn to_degrees(self) -> $T { self * <$T as RealPrim>::c(180, 1) / <$T as FloatConst>::PI() }
            fn to_radians(self) -> $T { self * <$T as FloatConst>::PI() / <$T as RealPrim>::c(180, 1) }
        }
        impl vek::ops::ColorComponent for $T { fn full() -> $T { <$T as RealPrim>::c(1, 1) } }
        impl vek::ops::MulAdd<$T, $T> for $T { type Output = $T; fn mul_add(self, a: $T, b: $T) -> $T { self * a + b } }
        // approx 0.5 float semantics, transcribed (a trusted stub, listed in the evidence)
        impl approx::AbsDiffEq for $T {
            type Epsilon = $T;
            fn default_epsilon() -> $T { <$T as RealPrim>::named("EPS") }
            fn abs_diff_eq(&self, o: &$T, e: $T) -> bool { Float::abs(*self - *o) <= e }
        }
        impl approx::RelativeEq for $T {
            fn default_max_relative() -> $T { <$T as RealPrim>::named("EPS") }
            fn relative_eq(&self, o: &$T, e: $T, mr: $T) -> bool {
                if self == o { return true; }
                let d = Float::abs(*self - *o);
                if d <= e { return true; }
                let (a, b) = (Float::abs(*self), Float::abs(*o));
                let l = if b > a { b } else { a };
                d <= l * mr
            }
        }
        impl approx::UlpsEq for $T {
            fn default_max_ulps() -> u32 { 4 }
            fn ulps_eq(&self, o: &$T, e: $T, _ulps: u32) -> bool { Float::abs(*self - *o) <= e }
        }
    };
}
impl_realish!(SymR);
impl_realish!(Cn);
/// The inherent method surface of `f32`/`f64` that vek's float macro bodies (hook H1) may reach for: with these
/// defined inherently, `self.clamp(lo, hi)`, `self.max(lo).min(hi)`, `self.rem_euclid(m)`, `self.abs()` ... in a
/// macro body resolve for the symbolic and the replay scalar exactly as they do for the primitive floats (inherent
/// methods win over trait methods, so nothing depends on which traits the expanding module has in scope).
/// Semantics: std's documented ones, in exact reals (NaN cases do not arise).
macro_rules! f32_like_inherent { ($T:ty) => {
    #[allow(dead_code)]
    impl $T {
        pub fn clamp(self, min: $T, max: $T) -> $T {
            assert!(min <= max, "min > max, or either was NaN");
            let mut x = self;
            if x < min { x = min; }
            if x > max { x = max; }
            x
        }
        pub fn min(self, o: $T) -> $T { Float::min(self, o) }
        pub fn max(self, o: $T) -> $T { Float::max(self, o) }
        pub fn abs(self) -> $T { Float::abs(self) }
        pub fn signum(self) -> $T { Float::signum(self) }
        pub fn copysign(self, sign: $T) -> $T { if (sign < <$T as RealPrim>::c(0, 1)) == (self < <$T as RealPrim>::c(0, 1)) { self } else { -self } }
        pub fn floor(self) -> $T { Float::floor(self) }
        pub fn ceil(self) -> $T { Float::ceil(self) }
        pub fn round(self) -> $T { Float::round(self) }
        pub fn trunc(self) -> $T { Float::trunc(self) }
        pub fn fract(self) -> $T { Float::fract(self) }
        pub fn mul_add(self, a: $T, b: $T) -> $T { self * a + b }
        pub fn recip(self) -> $T { Float::recip(self) }
        pub fn powi(self, n: i32) -> $T { Float::powi(self, n) }
        pub fn sqrt(self) -> $T { Float::sqrt(self) }
        pub fn hypot(self, o: $T) -> $T { Float::hypot(self, o) }
        pub fn sin(self) -> $T { Float::sin(self) }
        pub fn cos(self) -> $T { Float::cos(self) }
        pub fn tan(self) -> $T { Float::tan(self) }
        pub fn asin(self) -> $T { Float::asin(self) }
        pub fn acos(self) -> $T { Float::acos(self) }
        pub fn atan(self) -> $T { Float::atan(self) }
        pub fn atan2(self, o: $T) -> $T { Float::atan2(self, o) }
        pub fn sin_cos(self) -> ($T, $T) { Float::sin_cos(self) }
        pub fn to_degrees(self) -> $T { Float::to_degrees(self) }
        pub fn to_radians(self) -> $T { Float::to_radians(self) }
        pub fn is_nan(self) -> bool { false }
        pub fn is_infinite(self) -> bool { false }
        pub fn is_finite(self) -> bool { true }
        pub fn is_sign_negative(self) -> bool { Float::is_sign_negative(self) }
        pub fn is_sign_positive(self) -> bool { Float::is_sign_positive(self) }
        /// least non-negative remainder: `self - rhs.abs() * floor(self / rhs.abs())`
        pub fn rem_euclid(self, rhs: $T) -> $T {
            let r = self % rhs;
            if r < <$T as RealPrim>::c(0, 1) { r + Float::abs(rhs) } else { r }
        }
        pub fn div_euclid(self, rhs: $T) -> $T {
            let q = Float::trunc(self / rhs);
            if self % rhs < <$T as RealPrim>::c(0, 1) { if rhs > <$T as RealPrim>::c(0, 1) { q - <$T as RealPrim>::c(1, 1) } else { q + <$T as RealPrim>::c(1, 1) } } else { q }
        }
    }
} }
f32_like_inherent!(SymR);
f32_like_inherent!(Cn);
impl std::fmt::Debug for SymR {
    fn fmt(&self, f: &mut std::fmt::Formatter) -> std::fmt::Result {
        write!(f, "#{}", self.0)
    }
}

/// vek's own float macro bodies (hook H1), expanded at the symbolic and the replay scalar.
mod h1_symr {
    use super::SymR;
    use num_traits::{self, One, Zero};
    use vek::ops::*;
    vek::impl_clamp_float! {SymR}
    vek::lerp_impl_float! {SymR}
    vek::wrap_impl_float! {SymR}
}
mod h1_cn {
    use super::Cn;
    use num_traits::{self, One, Zero};
    use vek::ops::*;
    vek::impl_clamp_float! {Cn}
    vek::lerp_impl_float! {Cn}
    vek::wrap_impl_float! {Cn}
}

/// Everything a `T: Real` scenario may rely on.
pub trait Sx:
    Sc
    + Float
    + FloatConst
    + num_traits::Signed
    + vek::ops::MulAdd<Self, Self, Output = Self>
    + vek::ops::Clamp
    + vek::ops::IsBetween<Output = bool>
    + vek::ops::Lerp<Self, Output = Self>
    + vek::ops::Wrap
    + approx::AbsDiffEq<Epsilon = Self>
    + approx::RelativeEq
    + approx::UlpsEq
    + From<u16>
    + From<u8>
    + vek::ops::ColorComponent
    + std::fmt::Debug
    + std::fmt::Display
    + Default
    + std::iter::Sum
    + std::iter::Product
    + AddAssign
    + SubAssign
    + MulAssign
    + DivAssign
{
}
impl Sx for SymR {}
impl Sx for Cn {}
impl Sx for f64 {}
