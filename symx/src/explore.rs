//! Path exploration by re-execution, per-path SMT emission, and concrete replay runs.

use crate::core::*;
use crate::emit::*;
use std::fmt::Write as _;

pub type Run = Box<dyn Fn() + Send + Sync>;

pub struct Scenario {
    pub name: String,
    pub prop: &'static str,
    /// 0 = quick (and thorough), 1 = thorough only
    pub tier: u8,
    /// vek functions this scenario executes (for the evidence)
    pub funcs: Vec<&'static str>,
    pub sym: Run,
    /// native replays: plain f64, and the exact-when-possible scalar
    pub f64_: Option<Run>,
    pub cn: Option<Run>,
    /// further native replay engines: (name, SMT assertion pinning symbolic parameters for it, run)
    pub extra: Vec<(&'static str, &'static str, Run)>,
    pub max_paths: usize,
    /// per-goal solver timeout override (seconds) for the quick / thorough tier
    pub timeout: Option<(u32, u32)>,
}

#[derive(Default, Debug)]
pub struct Stats {
    pub paths: usize,
    pub panicked: usize,
    pub aborted: usize,
    pub bounded_out: bool,
    pub goals: usize,
    pub decisions: usize,
    pub nodes: usize,
}

fn panic_msg(p: &Box<dyn std::any::Any + Send>) -> String {
    if let Some(s) = p.downcast_ref::<&str>() {
        s.to_string()
    } else if let Some(s) = p.downcast_ref::<String>() {
        s.clone()
    } else {
        "panic".to_string()
    }
}

fn trig_info(e: &Engine, arg: u32) -> Option<(String, i128, i128)> {
    // arg = v, v*c, c*v, v/c  ->  (v, n, d) meaning arg = v*n/d
    match &e.nodes[arg as usize] {
        Node::Var(v) => Some((v.clone(), 1, 1)),
        Node::Mul(a, b) => match (&e.nodes[*a as usize], &e.nodes[*b as usize]) {
            (Node::Var(v), Node::Const(n, d)) | (Node::Const(n, d), Node::Var(v)) => Some((v.clone(), *n, *d)),
            _ => None,
        },
        Node::Div(a, b) => match (&e.nodes[*a as usize], &e.nodes[*b as usize]) {
            (Node::Var(v), Node::Const(n, d)) if *n != 0 => Some((v.clone(), *d, *n)),
            _ => None,
        },
        _ => None,
    }
}

/// Serialise the current run (one path): one JSON object for the plain encoding plus one per
/// cut-with-abstraction group (variant), each with its own declarations.
fn emit_path(sc: &Scenario, pathno: usize, status: &str, msg: &str) -> (Vec<String>, usize) {
    with(|e| {
        let mut outs = vec![];
        let mut ngoals = 0;
        let mut variants: Vec<(String, Vec<u32>)> = vec![(String::new(), vec![])];
        if status == "ok" {
            variants.extend(e.absgroups.iter().cloned());
        }
        let groups: Vec<String> = e.absgroups.iter().map(|(g, _)| g.clone()).collect();
        let in_group = |name: &str| -> Option<String> { groups.iter().filter(|g| name.starts_with(g.as_str())).max_by_key(|g| g.len()).cloned() };
        for (variant, absn) in variants {
            let mut em = Emit::new(e);
            em.abs = absn;
            em.int = e.int_mode;
            let pre: Vec<String> = e.pre.iter().map(|f| em.fm(f)).collect();
            let pi: Vec<String> = e.path.iter().map(|(cid, v)| { let s = em.cond_id(*cid); if *v { s } else { format!("(not {})", s) } }).collect();
            let mut goals: Vec<(String, String, String, Vec<String>)> = vec![];
            if status == "ok" {
                for (n, g) in &e.goals {
                    if in_group(n).unwrap_or_default() != variant {
                        continue;
                    }
                    let s = em.fm(g);
                    let hy: Vec<String> = e.hyps.iter().filter(|(grp, _)| n.starts_with(grp.as_str())).map(|(_, h)| em.fm(h)).collect();
                    goals.push((n.clone(), "goal".into(), s, hy));
                }
                if variant.is_empty() {
                    for (n, g) in &e.range_obl {
                        let s = em.fm(g);
                        goals.push((n.clone(), "range".into(), s, vec![]));
                    }
                }
            } else if status == "panic" {
                goals.push(("no_panic".into(), "nopanic".into(), "false".into(), vec![]));
            }
            let trig_ax = em.trig_axioms();
            let mut ax = em.ax.clone();
            ax.extend(trig_ax);
            let defs: Vec<String> = em.divisors.iter().map(|d| format!("(not (= {} 0.0))", d)).collect();
            if status == "ok" && (e.check_defined || std::env::var("SYMX_DEFINED_ALL").is_ok()) && variant.is_empty() {
                for (i, d) in defs.iter().enumerate() {
                    goals.push((format!("defined#{}", i), format!("defined:{}", i), d.clone(), vec![]));
                }
            }
            if !variant.is_empty() && goals.is_empty() {
                continue;
            }
            let logic = if em.int { if em.nonlinear { "QF_NIA" } else { "QF_LIA" } } else if em.uses_u && em.vars.is_empty() && !em.nonlinear { "QF_UF" } else if em.uses_int || em.uses_u { "ALL" } else if em.nonlinear { "QF_NRA" } else { "QF_LRA" };
            let trig: Vec<String> = em.trig.iter().map(|(arg, k)| match trig_info(e, *arg) {
                Some((v, n, d)) => format!("{{\"k\":{},\"var\":{},\"n\":{},\"d\":{}}}", k, jstr(&v), n, d),
                None => format!("{{\"k\":{},\"var\":null}}", k),
            }).collect();
            let mut o = String::new();
            write!(o, "{{\"scenario\":{},\"prop\":{},\"path\":{},\"variant\":{},\"status\":{},\"msg\":{},\"ndec\":{},", jstr(&sc.name), jstr(sc.prop), pathno, jstr(&variant), jstr(status), jstr(msg), e.path.len()).unwrap();
            let mut decls = em.decls.clone();
            if em.uses_u {
                decls = format!("(declare-sort U 0)\n{}", decls);
            }
            write!(o, "\"logic\":{},\"decls\":{},\"defs\":{},", jstr(logic), jstr(&decls), jstr(&em.defs)).unwrap();
            let js = |v: &Vec<String>| jlist(&v.iter().map(|s| jstr(s)).collect::<Vec<_>>());
            write!(o, "\"ax\":{},\"def\":{},\"pre\":{},\"pi\":{},", js(&ax), js(&defs), js(&pre), js(&pi)).unwrap();
            let gs: Vec<String> = goals.iter().map(|(n, kind, s, hy)| {
                let needs: Vec<String> = e.lemma_deps.iter().filter(|(g, ln)| n.starts_with(g.as_str()) && ln != n).map(|(_, ln)| ln.clone()).collect();
                format!("{{\"name\":{},\"kind\":{},\"smt\":{},\"hyps\":{},\"needs\":{}}}", jstr(n), jstr(kind), jstr(s), js(hy), js(&needs))
            }).collect();
            write!(o, "\"goals\":{},\"inputs\":{},\"trig\":{},\"notes\":{}}}", jlist(&gs), js(&em.vars), jlist(&trig), js(&e.notes)).unwrap();
            ngoals += goals.len();
            outs.push(o);
        }
        (outs, ngoals)
    })
}

/// Explore every path of the scenario; returns JSON lines (one per path) and statistics.
pub fn explore(sc: &Scenario) -> (Vec<String>, Stats) {
    with(|e| e.reset_all());
    let mut st = Stats::default();
    let mut out = vec![];
    loop {
        with(|e| e.reset_run());
        let r = std::panic::catch_unwind(std::panic::AssertUnwindSafe(|| (sc.sym)()));
        st.paths += 1;
        let (status, msg) = match &r {
            Ok(()) => ("ok", String::new()),
            Err(p) => {
                if let Some(a) = p.downcast_ref::<PathAbort>() {
                    st.aborted += 1;
                    ("abort", a.0.to_string())
                } else {
                    st.panicked += 1;
                    ("panic", panic_msg(p))
                }
            }
        };
        st.decisions += with(|e| e.path.len());
        let (lines, ng) = emit_path(sc, st.paths - 1, status, &msg);
        st.goals += ng;
        out.extend(lines);
        // backtrack: flip the last `true` decision
        let done = with(|e| {
            // decisions beyond pos were not consumed on this path (cannot happen: trail grows only at pos)
            e.trail.truncate(e.pos);
            let first = e.first_answer;
            while let Some(&last) = e.trail.last() {
                // (with `explore_near` a decision is flipped only while the path's deviation budget allows it)
                if last == first && e.trail.iter().filter(|b| **b != first).count() < e.max_dev {
                    let n = e.trail.len();
                    e.trail[n - 1] = !first;
                    return false;
                }
                e.trail.pop();
            }
            true
        });
        if done {
            break;
        }
        if st.paths >= sc.max_paths {
            st.bounded_out = true;
            break;
        }
    }
    st.nodes = with(|e| e.nodes.len() + e.unodes.len());
    (out, st)
}

/// One native run. Returns a JSON object: inputs drawn, precondition/goal truth values, panic.
pub fn replay(sc: &Scenario, engine: &str, inputs: &[(String, String)], seed: u64) -> String {
    with(|e| {
        e.reset_all();
        e.mode = Mode::Conc;
        for (k, v) in inputs {
            e.inputs.insert(k.clone(), v.clone());
        }
        e.rng = seed.wrapping_mul(0x9E3779B97F4A7C15) ^ 0xD1B54A32D192ED03;
    });
    let run = match engine {
        "f64" => sc.f64_.as_ref(),
        "cn" => sc.cn.as_ref(),
        other => sc.extra.iter().find(|(n, _, _)| *n == other).map(|(_, _, r)| r),
    };
    let run = match run {
        Some(r) => r,
        None => return format!("{{\"scenario\":{},\"engine\":{},\"error\":\"no such engine for this scenario\"}}", jstr(&sc.name), jstr(engine)),
    };
    let r = std::panic::catch_unwind(std::panic::AssertUnwindSafe(|| run()));
    let pmsg = match &r {
        Ok(()) => None,
        Err(p) => Some(if let Some(a) = p.downcast_ref::<PathAbort>() { format!("abort: {}", a.0) } else { panic_msg(p) }),
    };
    with(|e| {
        let tri = |t: Tri| match t {
            Tri::T => "\"T\"",
            Tri::F => "\"F\"",
            Tri::U => "\"U\"",
        };
        let pre: Vec<String> = e.pre.iter().map(|f| tri(f.eval()).to_string()).collect();
        // a goal's lemma/precondition hypotheses (its group's `hyp`s) must hold for the goal to be demanded
        let goals: Vec<String> = e.goals.iter().chain(e.range_obl.iter()).map(|(n, f)| {
            let hv = Fm::And(e.hyps.iter().filter(|(g, _)| n.starts_with(g.as_str())).map(|(_, h)| h.clone()).collect()).eval();
            format!("[{},{},{}]", jstr(n), tri(f.eval()), tri(hv))
        }).collect();
        let drawn: Vec<String> = e.drawn.iter().map(|(k, v)| format!("[{},{}]", jstr(k), jstr(v))).collect();
        format!(
            "{{\"scenario\":{},\"engine\":{},\"seed\":{},\"divzero\":{},\"panic\":{},\"pre\":{},\"goals\":{},\"inputs\":{}}}",
            jstr(&sc.name),
            jstr(engine),
            seed,
            e.divzero,
            match &pmsg {
                Some(m) => jstr(m),
                None => "null".into(),
            },
            jlist(&pre),
            jlist(&goals),
            jlist(&drawn)
        )
    })
}
