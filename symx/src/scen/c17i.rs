//! C17 (bounded-integer part) — vek's integer Clamp/IsBetween/Wrap macro bodies (hook H1) at `SymI`:
//! the laws and "no intermediate result leaves the machine range", for every width at once.
use crate::core::*;
use crate::explore::Scenario;
use crate::symi::*;
use vek::ops::{Clamp, IsBetween, Wrap};

pub trait IntSc: IntLaw + Copy + PartialOrd + Clamp + IsBetween<Output = bool> + Wrap + 'static {}
impl<T: IntLaw + Copy + PartialOrd + Clamp + IsBetween<Output = bool> + Wrap + 'static> IntSc for T {}

fn is_overflow(msg: &str) -> bool {
    msg.contains("overflow") || msg.contains("divide by zero") || msg.contains("remainder with a divisor of zero")
}
/// the documented panics, and nothing else, may stop the call
fn call<T: IntSc, R>(f: impl FnOnce() -> R, documented: Fm) -> Option<R> {
    let r = catch(f);
    let undocumented = matches!(&r, Err(m) if is_overflow(m));
    goal("law/panics exactly on the documented conditions", and(vec![iff(lit(r.is_err()), documented), lit(!undocumented)]));
    r.ok()
}
fn wrapped_between<T: IntSc>() {
    set_int_mode();
    let (x, lo, hi) = (var::<T>("x"), var::<T>("lo"), var::<T>("hi"));
    let doc = or(vec![ge(lo, hi), lt(lo, k(0)), le(hi, k(0))]);
    if let Some(r) = call::<T, T>(|| x.wrapped_between(lo, hi), doc) {
        goal("law/in [lower, upper)", and(vec![le(lo, r), lt(r, hi)]));
        goal("law/the value congruent to the input modulo the period", T::wrap_law(r, x, lo, hi));
    }
}
fn wrapped<T: IntSc>() {
    set_int_mode();
    let (x, up) = (var::<T>("x"), var::<T>("up"));
    if let Some(r) = call::<T, T>(|| x.wrapped(up), le(up, k(0))) {
        goal("law/in [0, upper)", and(vec![le(k(0), r), lt(r, up)]));
        goal("law/the value congruent to the input modulo upper", T::wrap_law(r, x, k(0), up));
    }
}
fn pingpong<T: IntSc>() {
    set_int_mode();
    let (x, up) = (var::<T>("x"), var::<T>("up"));
    if let Some(r) = call::<T, T>(|| x.pingpong(up), le(up, k(0))) {
        goal("law/in [0, upper]", and(vec![le(k(0), r), le(r, up)]));
        goal("law/triangle wave of period 2*upper", T::pingpong_law(r, x, up));
    }
}
fn clamp<T: IntSc>() {
    set_int_mode();
    let (x, lo, hi) = (var::<T>("x"), var::<T>("lo"), var::<T>("hi"));
    if let Some(v) = call::<T, T>(|| x.clamped(lo, hi), gt(lo, hi)) {
        goal("law/value itself inside, nearer bound outside", or(vec![and(vec![le(lo, x), le(x, hi), eq(v, x)]), and(vec![lt(x, lo), eq(v, lo)]), and(vec![gt(x, hi), eq(v, hi)])]));
        let b = x.is_between(lo, hi);
        goal("law/is_between <=> lower <= x <= upper <=> clamped == self", and(vec![iff(lit(b), and(vec![le(lo, x), le(x, hi)])), iff(lit(b), eq(v, x))]));
        goal("law/idempotent", eq(v.clamped(lo, hi), v));
    }
}

pub fn register(v: &mut Vec<Scenario>) {
    macro_rules! sc { ($name:expr, $f:ident, $Sym:ty, [$(($en:literal, $pin:literal, $N:ty)),+], $funcs:expr) => {
        v.push(Scenario { name: $name.to_string(), prop: "C17", tier: 0, funcs: $funcs, sym: Box::new(|| $f::<$Sym>()), f64_: None, cn: None,
            extra: vec![$(($en, $pin, Box::new(|| $f::<$N>()) as crate::explore::Run)),+], max_paths: 4096, timeout: Some((20, 120)) });
    } }
    macro_rules! both { ($base:literal, $f:ident, $funcs:expr) => {
        sc!(concat!("c17/int/signed/", $base), $f, SymIS, [("i8", "(= M 127)", i8), ("i16", "(= M 32767)", i16), ("i32", "(= M 2147483647)", i32), ("i64", "(= M 9223372036854775807)", i64)], $funcs);
        sc!(concat!("c17/int/unsigned/", $base), $f, SymIU, [("u8", "(= M 255)", u8), ("u16", "(= M 65535)", u16), ("u32", "(= M 4294967295)", u32), ("u64", "(= M 18446744073709551615)", u64)], $funcs);
    } }
    both!("wrapped_between", wrapped_between, vec!["wrap_impl_sint / wrap_impl_uint (hook H1)", "Wrap::wrapped_between"]);
    both!("wrapped", wrapped, vec!["wrap_impl_sint / wrap_impl_uint (hook H1)", "Wrap::wrapped"]);
    both!("pingpong", pingpong, vec!["wrap_impl_sint / wrap_impl_uint (hook H1)", "Wrap::pingpong"]);
    both!("clamp", clamp, vec!["impl_clamp_integer (hook H1)", "Clamp::clamped", "IsBetween::is_between"]);
}

/// C13 at integer element types: the rectangle methods that do arithmetic must equal the box method on the
/// converted value under truncating division too (centre), for every width.
fn rect_center_int<T: IntSc + num_traits::One + std::ops::Div<Output = T> + std::ops::Add<Output = T> + std::ops::Sub<Output = T>>(three: bool) {
    use crate::vecs::VK;
    use vek::geom::repr_c::{Aabb, Aabr, Rect, Rect3};
    set_int_mode();
    set_range_assumed(); // overflow of x + w is the caller's business here; the subject is the rounding of /2
    if three {
        let r = Rect3::new(var::<T>("x"), var::<T>("y"), var::<T>("z"), var::<T>("w"), var::<T>("h"), var::<T>("d"));
        let b: Aabb<T> = r.into();
        let (c1, c2) = (r.center().ent(), b.center().ent());
        goal("law/Rect3::center = box centre of the converted value", and((0..3).map(|i| eq(c1[i], c2[i])).collect()));
    } else {
        let r = Rect::new(var::<T>("x"), var::<T>("y"), var::<T>("w"), var::<T>("h"));
        let b: Aabr<T> = r.into();
        let (c1, c2) = (r.center().ent(), b.center().ent());
        goal("law/Rect::center = box centre of the converted value", and((0..2).map(|i| eq(c1[i], c2[i])).collect()));
        let back: Rect<T, T> = b.into();
        goal("law/Rect -> Aabr -> Rect round trip", and(vec![eq(back.x, r.x), eq(back.y, r.y), eq(back.w, r.w), eq(back.h, r.h)]));
    }
}
/// C13 at integer element types: centre, size and half size of a box, per axis, in the machine's truncating division
/// (`half_size = size / 2` and `center = (min + max) / 2` are not interchangeable with each other there).
fn box_measures_int<T: IntSc + num_traits::One + std::ops::Div<Output = T> + std::ops::Add<Output = T> + std::ops::Sub<Output = T>>(three: bool) {
    use crate::vecs::VK;
    use vek::geom::repr_c::{Aabb, Aabr};
    use vek::vec::repr_c::{Vec2, Vec3};
    set_int_mode();
    set_range_assumed(); // overflow of min + max / max - min is the caller's business; the subject is which quantity is halved
    let two = || T::one() + T::one();
    let names = ["x", "y", "z"];
    let n = if three { 3 } else { 2 };
    let mn: Vec<T> = (0..n).map(|i| var::<T>(&format!("mn{}", names[i]))).collect();
    let mx: Vec<T> = (0..n).map(|i| var::<T>(&format!("mx{}", names[i]))).collect();
    let (c, s, h) = if three {
        let b = Aabb { min: Vec3::new(mn[0], mn[1], mn[2]), max: Vec3::new(mx[0], mx[1], mx[2]) };
        (b.center().ent(), b.size().ent(), b.half_size().ent())
    } else {
        let b = Aabr { min: Vec2::new(mn[0], mn[1]), max: Vec2::new(mx[0], mx[1]) };
        (b.center().ent(), b.size().ent(), b.half_size().ent())
    };
    goal("law/size = max - min per axis", and((0..n).map(|i| eq(s[i], mx[i] - mn[i])).collect()));
    goal("law/half_size = (max - min) / 2 per axis", and((0..n).map(|i| eq(h[i], (mx[i] - mn[i]) / two())).collect()));
    goal("law/center = (min + max) / 2 per axis", and((0..n).map(|i| eq(c[i], (mn[i] + mx[i]) / two())).collect()));
}
pub fn register_c13(v: &mut Vec<Scenario>) {
    for three in [false, true] {
        let name = if three { "c13/int/aabb_measures" } else { "c13/int/aabr_measures" };
        v.push(Scenario { name: name.to_string(), prop: "C13", tier: 0, funcs: vec!["Aabr::center", "Aabr::size", "Aabr::half_size", "Aabb::center", "Aabb::size", "Aabb::half_size"], sym: Box::new(move || box_measures_int::<SymIS>(three)), f64_: None, cn: None,
            extra: vec![("i8", "(= M 127)", Box::new(move || box_measures_int::<i8>(three)) as crate::explore::Run), ("i32", "(= M 2147483647)", Box::new(move || box_measures_int::<i32>(three)) as crate::explore::Run)], max_paths: 4096, timeout: Some((10, 120)) });
    }
    for three in [false, true] {
        let name = if three { "c13/int/rect3_center" } else { "c13/int/rect_center" };
        v.push(Scenario { name: name.to_string(), prop: "C13", tier: 0, funcs: vec!["Rect::center", "Rect3::center", "From<Rect> for Aabr", "Aabr::center"], sym: Box::new(move || rect_center_int::<SymIS>(three)), f64_: None, cn: None,
            extra: vec![("i8", "(= M 127)", Box::new(move || rect_center_int::<i8>(three)) as crate::explore::Run), ("i32", "(= M 2147483647)", Box::new(move || rect_center_int::<i32>(three)) as crate::explore::Run)], max_paths: 4096, timeout: Some((10, 120)) });
    }
}

/// C02 / C19 at integer element types: `average()` is the sum divided by the dimension in the machine's truncating
/// division — dividing each element first (or any other re-association that is harmless over the reals) changes the
/// result — and `average_rgb()` is (r + g + b) / 3 with the alpha left out.
fn average_int<T: IntSc + From<u8> + vek::ops::ColorComponent + std::ops::Div<Output = T> + std::ops::Add<Output = T>>(n: usize, call: fn(&[T]) -> (T, Option<T>)) {
    set_int_mode();
    set_range_assumed(); // overflow of the sum is the caller's business; the subject is what is divided
    let xs: Vec<T> = (0..n).map(|i| var::<T>(&format!("x{}", i))).collect();
    let (avg, avg_rgb) = call(&xs);
    let sum = xs[1..].iter().fold(xs[0], |a, b| a + *b);
    goal("law/average = (sum of the elements) / dimension", eq(avg, sum / T::from(n as u8)));
    if let Some(a) = avg_rgb {
        goal("law/average_rgb = (r + g + b) / 3", eq(a, (xs[0] + xs[1] + xs[2]) / T::from(3u8)));
    }
}
pub fn register_c02(v: &mut Vec<Scenario>) {
    use crate::vecs::*;
    macro_rules! avg { ($prop:literal, $V:ident, $rgb:tt) => {
        fn call<T: IntSc + From<u8> + vek::ops::ColorComponent + std::ops::Div<Output = T> + std::ops::Add<Output = T>>(xs: &[T]) -> (T, Option<T>) {
            let v = <$V<T> as VK<T>>::of(xs);
            (v.average(), avg!(@rgb $rgb, v))
        }
        let n = <$V<i64> as VK<i64>>::N;
        v.push(Scenario { name: format!("{}/int/average/{}", if $prop == "C02" { "c02" } else { "c19" }, stringify!($V)), prop: $prop, tier: 0, funcs: vec!["average", "average_rgb", "sum"], sym: Box::new(move || average_int::<SymIS>(n, call::<SymIS>)), f64_: None, cn: None,
            extra: vec![("i16", "(= M 32767)", Box::new(move || average_int::<i16>(n, call::<i16>)) as crate::explore::Run), ("i64", "(= M 9223372036854775807)", Box::new(move || average_int::<i64>(n, call::<i64>)) as crate::explore::Run)], max_paths: 64, timeout: Some((10, 120)) });
    } ; (@rgb true, $v:ident) => { Some($v.average_rgb()) }; (@rgb false, $v:ident) => { None } }
    { avg!("C02", Vec2, false); }
    { avg!("C02", Vec3, false); }
    { avg!("C02", Vec4, false); }
    { avg!("C02", Vec8, false); }
    { avg!("C02", Extent3, false); }
    { avg!("C02", Uv, false); }
    { avg!("C19", Rgb, true); }
    { avg!("C19", Rgba, true); }
}

/// C11 at integer element types: `determine_side` is the 2D cross product, `signed_triangle_area` is that value
/// halved *once* in the machine's truncating division (halving the two products separately is the same over the
/// reals and differs for odd products), `triangle_area` its absolute value.
fn side_area_int<T: IntSc + num_traits::One + std::ops::Div<Output = T> + std::ops::Add<Output = T> + std::ops::Sub<Output = T> + std::ops::Mul<Output = T> + std::ops::Neg<Output = T>>() {
    use vek::vec::repr_c::Vec2;
    set_int_mode();
    set_range_assumed(); // overflow of the products is the caller's business; the subject is what is halved, and when
    let p = |n: &str| Vec2::new(var::<T>(&format!("{}x", n)), var::<T>(&format!("{}y", n)));
    let (a, b, c) = (p("a"), p("b"), p("c"));
    let cross = (b.x - a.x) * (c.y - a.y) - (b.y - a.y) * (c.x - a.x);
    let two = T::one() + T::one();
    goal("law/determine_side = 2D cross product of (b - a) and (c - a)", eq(c.determine_side(a, b), cross));
    let s = Vec2::signed_triangle_area(a, b, c);
    goal("law/signed_triangle_area = cross product / 2", eq(s, cross / two));
    let t = Vec2::triangle_area(a, b, c);
    goal("law/triangle_area = |cross product / 2|", or(vec![and(vec![le(k(0), cross / two), eq(t, cross / two)]), and(vec![lt(cross / two, k(0)), eq(t, -(cross / two))])]));
}
pub fn register_c11(v: &mut Vec<Scenario>) {
    v.push(Scenario { name: "c11/int/vec2_side_area".to_string(), prop: "C11", tier: 0, funcs: vec!["Vec2::determine_side", "Vec2::signed_triangle_area", "Vec2::triangle_area"], sym: Box::new(|| side_area_int::<SymIS>()), f64_: None, cn: None,
        extra: vec![("i8", "(= M 127)", Box::new(|| side_area_int::<i8>()) as crate::explore::Run), ("i32", "(= M 2147483647)", Box::new(|| side_area_int::<i32>()) as crate::explore::Run)], max_paths: 64, timeout: Some((10, 120)) });
}

/// C16 at integer element types: the bounding rectangle / box of a disk / sphere is centre -+ radius per axis, and
/// computing it overflows nowhere when those corners themselves are representable (a detour through the diameter,
/// harmless over the reals, overflows for radii above MAX/2) — for every width at once.
fn disk_bounds_int<T: IntSc + std::ops::Add<Output = T> + std::ops::Sub<Output = T>>(three: bool) {
    use crate::vecs::VK;
    use vek::geom::repr_c::{Disk, Sphere};
    use vek::vec::repr_c::{Vec2, Vec3};
    set_int_mode();
    let n = if three { 3 } else { 2 };
    let c: Vec<T> = (0..n).map(|i| var::<T>(&format!("c{}", i))).collect();
    let r = var::<T>("r");
    assume(le(k(0), r));
    // precondition, stated as hypotheses: every corner coordinate is representable
    set_range_assumed();
    let want: Vec<(T, T)> = c.iter().map(|ci| (*ci - r, *ci + r)).collect();
    set_range_checked();
    // no panic is documented: natively an overflow shows as the dev-profile panic, symbolically as a refuted range obligation
    let got = call::<T, (Vec<T>, Vec<T>)>(|| if three {
        let b = Sphere::new(Vec3::new(c[0], c[1], c[2]), r).aabb();
        (b.min.ent(), b.max.ent())
    } else {
        let b = Disk::new(Vec2::new(c[0], c[1]), r).aabr();
        (b.min.ent(), b.max.ent())
    }, lit(false));
    if let Some((mn, mx)) = got {
        goal("law/bounds = centre -+ radius per axis", and((0..n).flat_map(|i| vec![eq(mn[i], want[i].0), eq(mx[i], want[i].1)]).collect()));
    }
}
pub fn register_c16(v: &mut Vec<Scenario>) {
    for three in [false, true] {
        let name = if three { "c16/int/sphere_aabb" } else { "c16/int/disk_aabr" };
        v.push(Scenario { name: name.to_string(), prop: "C16", tier: 0, funcs: vec!["Disk::aabr", "Sphere::aabb"], sym: Box::new(move || disk_bounds_int::<SymIS>(three)), f64_: None, cn: None,
            extra: vec![("i8", "(= M 127)", Box::new(move || disk_bounds_int::<i8>(three)) as crate::explore::Run), ("i32", "(= M 2147483647)", Box::new(move || disk_bounds_int::<i32>(three)) as crate::explore::Run)], max_paths: 64, timeout: Some((10, 120)) });
    }
}
