// C02 — vector operators and reductions act element-wise on every vector type.
// Included twice (see scen/mod.rs): once with `S = SymU` (symbolic) and once with `S = Cu` (replay).
use crate::core::*;
use crate::opq::OpqPrim;
use crate::vecs::*;
use std::ops::*;
use vek::ops::MulAdd;

type Entry = (String, &'static str, u8, Vec<&'static str>, Box<dyn Fn() + Send + Sync>);

fn symv(p: &str, n: usize) -> Vec<S> {
    (0..n).map(|i| var::<S>(&format!("{}{}", p, i))).collect()
}
fn eqv(tag: &str, got: &[S], want: &[S]) {
    assert_eq!(got.len(), want.len(), "{}", tag);
    goal(tag, and(got.iter().zip(want).map(|(g, w)| eq(*g, *w)).collect()));
}
fn app(name: &str, args: &[S]) -> S {
    <S as OpqPrim>::app(name, args)
}
const OPS: [&str; 10] = ["add", "sub", "mul", "div", "rem", "shl", "shr", "bitand", "bitor", "bitxor"];

pub trait VA: VK<S> + Copy {
    fn binop(op: usize, form: usize, a: Self, b: Self, s: S) -> Self;
    fn unop(op: usize, a: Self) -> Self;
    fn muladd(form: usize, a: Self, b: Self, c: Self, s: S) -> Self;
    fn ctors(a: &[S]) -> Vec<(&'static str, Vec<S>, Vec<S>)>;
    fn maps(a: Self, b: Self, c: Self) -> Vec<(&'static str, Vec<S>, Vec<S>)>;
    fn folds(a: Self, b: Self) -> Vec<(&'static str, S, S)>;
    fn ord_ops(which: usize, a: Self, b: Self) -> (Vec<S>, Vec<bool>, Option<bool>);
}
macro_rules! ops10 { ($m:ident, $op:expr, $($args:tt)*) => { match $op { 0 => $m!(+, $($args)*), 1 => $m!(-, $($args)*), 2 => $m!(*, $($args)*), 3 => $m!(/, $($args)*), 4 => $m!(%, $($args)*), 5 => $m!(<<, $($args)*), 6 => $m!(>>, $($args)*), 7 => $m!(&, $($args)*), 8 => $m!(|, $($args)*), _ => $m!(^, $($args)*) } } }
macro_rules! asg10 { ($op:expr, $x:ident, $rhs:expr) => { match $op { 0 => $x += $rhs, 1 => $x -= $rhs, 2 => $x *= $rhs, 3 => $x /= $rhs, 4 => $x %= $rhs, 5 => $x <<= $rhs, 6 => $x >>= $rhs, 7 => $x &= $rhs, 8 => $x |= $rhs, _ => $x ^= $rhs } } }
macro_rules! bo { ($o:tt, $l:expr, $r:expr) => { $l $o $r } }
macro_rules! va { ($($V:ident)+) => { $( impl VA for $V<S> {
    fn binop(op: usize, form: usize, a: Self, b: Self, s: S) -> Self {
        match form {
            0 => ops10!(bo, op, a, b), 1 => ops10!(bo, op, a, &b), 2 => ops10!(bo, op, &a, b), 3 => ops10!(bo, op, &a, &b),
            4 => ops10!(bo, op, a, s), 5 => ops10!(bo, op, &a, s), 6 => ops10!(bo, op, &a, &s),
            7 => { let mut x = a; asg10!(op, x, b); x }
            _ => { let mut x = a; asg10!(op, x, s); x }
        }
    }
    fn unop(op: usize, a: Self) -> Self { if op == 0 { -a } else { !a } }
    fn muladd(form: usize, a: Self, b: Self, c: Self, s: S) -> Self {
        match form {
            0 => MulAdd::mul_add(a, b, c), 1 => MulAdd::mul_add(&a, b, c), 2 => MulAdd::mul_add(a, b, &c), 3 => MulAdd::mul_add(&a, b, &c),
            4 => MulAdd::mul_add(a, &b, c), 5 => MulAdd::mul_add(&a, &b, c), 6 => MulAdd::mul_add(a, &b, &c), 7 => MulAdd::mul_add(&a, &b, &c),
            8 => a.mul_add(b, c), 9 => a.mul_add(s, c), 10 => a.mul_add(b, s), _ => a.mul_add(s, s),
        }
    }
    fn ctors(a: &[S]) -> Vec<(&'static str, Vec<S>, Vec<S>)> {
        let n = <$V<S> as VK<S>>::N;
        let s = a[0];
        let (z, o) = (<S as num_traits::Zero>::zero(), <S as num_traits::One>::one());
        let mut iota = vec![z];
        for i in 1..n { let mut x = iota[i - 1]; x += o; iota.push(x); }
        let dflt = S::default();
        let v = <$V<S> as VK<S>>::of(a);
        let arr = v.into_array();
        let mut long = a.to_vec(); long.push(app("extra", &[])); long.push(app("extra2", &[]));
        let short = &a[..n - 1];
        let mut short_want = short.to_vec(); short_want.push(dflt);
        let mut sl = v; sl.as_mut_slice()[n - 1] = s;
        let mut slw = a.to_vec(); slw[n - 1] = s;
        vec![
            ("broadcast", $V::broadcast(s).ent(), vec![s; n]),
            ("From<scalar>", $V::from(s).ent(), vec![s; n]),
            ("zero", $V::<S>::zero().ent(), vec![z; n]),
            ("one", $V::<S>::one().ent(), vec![o; n]),
            ("iota", $V::<S>::iota().ent(), iota),
            ("into_array", arr.to_vec(), a.to_vec()),
            ("From<array>", $V::from(arr).ent(), a.to_vec()),
            ("into_tuple/From<tuple>", $V::from(v.into_tuple()).ent(), a.to_vec()),
            ("as_slice", v.as_slice().to_vec(), a.to_vec()),
            ("as_mut_slice", sl.ent(), slw),
            ("from_slice", $V::from_slice(a).ent(), a.to_vec()),
            ("from_slice (longer)", $V::from_slice(&long).ent(), a.to_vec()),
            ("from_slice (shorter)", $V::from_slice(short).ent(), short_want.clone()),
            ("from_iter", a.iter().cloned().collect::<$V<S>>().ent(), a.to_vec()),
            ("from_iter (longer)", long.iter().cloned().collect::<$V<S>>().ent(), a.to_vec()),
            ("from_iter (shorter)", short.iter().cloned().collect::<$V<S>>().ent(), short_want),
            // an iterator ends at its first `None`, also when it is not fused and would yield again afterwards
            ("from_iter (stops at the first None of a non-fused iterator)", { let mut k = 0usize; std::iter::from_fn(|| { k += 1; if k == 2 { None } else { Some(a[(k - 1) % n]) } }).collect::<$V<S>>().ent() }, { let mut w = vec![dflt; n]; w[0] = a[0]; w }),
            ("into_iter", v.into_iter().collect::<Vec<S>>(), a.to_vec()),
            ("into_iter().rev()", v.into_iter().rev().collect::<Vec<S>>(), a.iter().rev().cloned().collect()),
            ("iter()", v.iter().cloned().collect::<Vec<S>>(), a.to_vec()),
            ("as_", v.as_::<S>().ent(), a.iter().map(|x| app("as_", &[*x])).collect()),
            ("Default", $V::<S>::default().ent(), vec![dflt; n]),
        ]
    }
    fn maps(a: Self, b: Self, c: Self) -> Vec<(&'static str, Vec<S>, Vec<S>)> {
        let (x, y, z) = (a.ent(), b.ent(), c.ent());
        let n = x.len();
        let f1 = |p: S| app("f", &[p]);
        let f2 = |p: S, q: S| app("g", &[p, q]);
        let f3 = |p: S, q: S, r: S| app("h", &[p, q, r]);
        let mut m1 = a; m1.apply(f1);
        let mut m2 = a; m2.apply2(b, f2);
        let mut m3 = a; m3.apply3(b, c, f3);
        let zipped = a.zip(b).ent();
        vec![
            ("map", a.map(f1).ent(), x.iter().map(|p| f1(*p)).collect()),
            ("map2", a.map2(b, f2).ent(), (0..n).map(|i| f2(x[i], y[i])).collect()),
            ("map3", a.map3(b, c, f3).ent(), (0..n).map(|i| f3(x[i], y[i], z[i])).collect()),
            ("apply", m1.ent(), x.iter().map(|p| f1(*p)).collect()),
            ("apply2", m2.ent(), (0..n).map(|i| f2(x[i], y[i])).collect()),
            ("apply3", m3.ent(), (0..n).map(|i| f3(x[i], y[i], z[i])).collect()),
            ("zip.0", zipped.iter().map(|t| t.0).collect(), x.clone()),
            ("zip.1", zipped.iter().map(|t| t.1).collect(), y.clone()),
            ("hadd", a.hadd(b).ent(), { let all: Vec<S> = x.iter().chain(y.iter()).cloned().collect(); (0..n).map(|i| app("add", &[all[2 * i], all[2 * i + 1]])).collect() }),
            ("Vec::min (Ord)", $V::min(a, b).ent(), (0..n).map(|i| app("ord_min", &[x[i], y[i]])).collect()),
            ("Vec::max (Ord)", $V::max(a, b).ent(), (0..n).map(|i| app("ord_max", &[x[i], y[i]])).collect()),
        ]
    }
    fn folds(a: Self, b: Self) -> Vec<(&'static str, S, S)> {
        let x = a.ent();
        let lf = |name: &str| x[1..].iter().fold(x[0], |acc, p| app(name, &[acc, *p]));
        let _ = b;
        vec![
            ("reduce(f) = left fold", a.reduce(|p, q| app("k", &[p, q])), lf("k")),
            ("reduce_bitand", a.reduce_bitand(), lf("bitand")),
            ("reduce_bitor", a.reduce_bitor(), lf("bitor")),
            ("reduce_bitxor", a.reduce_bitxor(), lf("bitxor")),
            ("reduce_min (Ord)", a.reduce_min(), lf("ord_min")),
            ("reduce_max (Ord)", a.reduce_max(), lf("ord_max")),
            // folds keep element order: for an element type whose + or * is not associative (floats) the grouping
            // is observable, and the grouping of a fold in element order is the left fold's
            ("sum = left fold of + in element order", a.sum(), lf("add")),
            ("product = left fold of * in element order", a.product(), lf("mul")),
        ]
    }
    /// forking operations: returns (vector result, mask result, bool result)
    fn ord_ops(which: usize, a: Self, b: Self) -> (Vec<S>, Vec<bool>, Option<bool>) {
        match which {
            0 => ($V::partial_min(a, b).ent(), vec![], None),
            1 => ($V::partial_max(a, b).ent(), vec![], None),
            2 => (vec![a.reduce_partial_min()], vec![], None),
            3 => (vec![a.reduce_partial_max()], vec![], None),
            4 => (vec![], a.cmpeq(&b).ent(), None), 5 => (vec![], a.cmpne(&b).ent(), None), 6 => (vec![], a.cmpge(&b).ent(), None),
            7 => (vec![], a.cmpgt(&b).ent(), None), 8 => (vec![], a.cmple(&b).ent(), None), 9 => (vec![], a.cmplt(&b).ent(), None),
            10 => (vec![], a.partial_cmpeq(&b).ent(), None), 11 => (vec![], a.partial_cmpne(&b).ent(), None), 12 => (vec![], a.partial_cmpge(&b).ent(), None),
            13 => (vec![], a.partial_cmpgt(&b).ent(), None), 14 => (vec![], a.partial_cmple(&b).ent(), None), 15 => (vec![], a.partial_cmplt(&b).ent(), None),
            16 => (vec![], vec![], Some(a.is_any_negative())),
            _ => (vec![], vec![], Some(a.are_all_positive())),
        }
    }
} )+ } }
va!(Vec2 Vec3 Vec4 Vec8 Vec16 Vec32 Vec64 Extent2 Extent3 Rgb Rgba Uv Uvw);

fn binops<V: VA>(op: usize) {
    let (a, b) = (symv("a", V::N), symv("b", V::N));
    let s = var::<S>("s");
    let (va, vb) = (V::of(&a), V::of(&b));
    // forms: a∘b, a∘&b, &a∘b, &a∘&b, a∘s, &a∘s, &a∘&s, a∘=b, a∘=s  (the forms vek implements)
    for form in 0..9 {
        let got = V::binop(op, form, va, vb, s).ent();
        let scalar = matches!(form, 4..=6 | 8);
        let want: Vec<S> = (0..V::N).map(|i| app(OPS[op], &[a[i], if scalar { s } else { b[i] }])).collect();
        eqv(&format!("{} form{}", OPS[op], form), &got, &want);
    }
}
fn unops<V: VA>() {
    let a = symv("a", V::N);
    let va = V::of(&a);
    eqv("neg", &V::unop(0, va).ent(), &a.iter().map(|x| app("neg", &[*x])).collect::<Vec<_>>());
    eqv("not", &V::unop(1, va).ent(), &a.iter().map(|x| app("not", &[*x])).collect::<Vec<_>>());
}
fn muladds<V: VA>() {
    let (a, b, c) = (symv("a", V::N), symv("b", V::N), symv("c", V::N));
    let s = var::<S>("s");
    let (va, vb, vc) = (V::of(&a), V::of(&b), V::of(&c));
    for form in 0..12 {
        let got = V::muladd(form, va, vb, vc, s).ent();
        let want: Vec<S> = (0..V::N).map(|i| app("mul_add", &[a[i], if form == 9 || form == 11 { s } else { b[i] }, if form >= 10 { s } else { c[i] }])).collect();
        eqv(&format!("mul_add form{}", form), &got, &want);
    }
}
fn ctors<V: VA>() {
    let a = symv("a", V::N);
    for (n, got, want) in V::ctors(&a) {
        eqv(n, &got, &want);
    }
}
fn maps<V: VA>() {
    let (a, b, c) = (symv("a", V::N), symv("b", V::N), symv("c", V::N));
    for (n, got, want) in V::maps(V::of(&a), V::of(&b), V::of(&c)) {
        eqv(n, &got, &want);
    }
}
fn folds<V: VA>() {
    let (a, b) = (symv("a", V::N), symv("b", V::N));
    for (n, got, want) in V::folds(V::of(&a), V::of(&b)) {
        goal(n, eq(got, want));
    }
}
fn p(name: &str, args: &[S]) -> Fm {
    <S as crate::opq::UFm>::p(name, args)
}
/// a boolean the code computed must equal the formula `f` on this path
fn is(b: bool, f: Fm) -> Fm {
    iff(lit(b), f)
}
fn ord_ops<V: VA>(which: usize, near: Option<bool>) {
    set_max_decisions(200);
    // wide vectors: 2^N outcome patterns of the N per-lane comparisons are out of reach; explore the pattern in
    // which every comparison has the outcome `first` and the N patterns with exactly one lane deviating
    if let Some(first) = near { explore_near(first, 1); }
    let (a, b) = (symv("a", V::N), symv("b", V::N));
    let (r, mask, flag) = V::ord_ops(which, V::of(&a), V::of(&b));
    let sel = |c: Fm, x: S, y: S, got: S| or(vec![and(vec![c.clone(), eq(got, x)]), and(vec![not(c), eq(got, y)])]);
    match which {
        0 => goal("partial_min per lane", and((0..V::N).map(|i| sel(p("le", &[a[i], b[i]]), a[i], b[i], r[i])).collect())),
        1 => goal("partial_max per lane", and((0..V::N).map(|i| sel(p("ge", &[a[i], b[i]]), a[i], b[i], r[i])).collect())),
        2 | 3 => {
            // left fold of partial_min / partial_max: acc_{i+1} = if acc (<=|>=) a_i then acc else a_i ; the result is one of the lanes
            goal("result is one of the elements", or(a.iter().map(|x| eq(r[0], *x)).collect()));
            let name = if which == 2 { "le" } else { "ge" };
            // replay the fold in the harness along this path (its comparisons are the same decisions)
            let mut acc = a[0];
            for i in 1..V::N {
                acc = if <S as OpqPrim>::pred(name, &[acc, a[i]]) { acc } else { a[i] };
            }
            goal("left fold in element order", eq(r[0], acc));
        }
        4..=15 => {
            let (name, neg): (&str, bool) = [("eq", false), ("eq", true), ("ge", false), ("gt", false), ("le", false), ("lt", false)][(which - 4) % 6];
            goal("mask lane i = scalar comparison of lane i", and((0..V::N).map(|i| {
                let c = if name == "eq" { eq(a[i], b[i]) } else { p(name, &[a[i], b[i]]) };
                is(mask[i], if neg { not(c) } else { c })
            }).collect()));
        }
        16 => goal("is_any_negative = OR of lanes", is(flag.unwrap(), or(a.iter().map(|x| p("is_negative", &[*x])).collect()))),
        _ => goal("are_all_positive = AND of lanes", is(flag.unwrap(), and(a.iter().map(|x| p("is_positive", &[*x])).collect()))),
    }
}

const ORD_NAMES: [&str; 18] = ["partial_min", "partial_max", "reduce_partial_min", "reduce_partial_max", "cmpeq", "cmpne", "cmpge", "cmpgt", "cmple", "cmplt", "partial_cmpeq", "partial_cmpne", "partial_cmpge", "partial_cmpgt", "partial_cmple", "partial_cmplt", "is_any_negative", "are_all_positive"];
pub fn list() -> Vec<Entry> {
    let mut v: Vec<Entry> = vec![];
    macro_rules! per { ($tier:expr, $small:expr; $($V:ident)+) => { $(
        for op in 0..10usize { v.push((format!("c02/binop/{}/{}", OPS[op], stringify!($V)), "C02", $tier, vec!["Add/Sub/Mul/Div/Rem/Shl/Shr/BitAnd/BitOr/BitXor (9 operand forms)"], Box::new(move || binops::<$V<S>>(op)))); }
        v.push((format!("c02/unop/{}", stringify!($V)), "C02", $tier, vec!["Neg", "Not"], Box::new(|| unops::<$V<S>>())));
        v.push((format!("c02/mul_add/{}", stringify!($V)), "C02", $tier, vec!["MulAdd (8 forms)", "V::mul_add"], Box::new(|| muladds::<$V<S>>())));
        v.push((format!("c02/ctors/{}", stringify!($V)), "C02", $tier, vec!["broadcast", "zero", "one", "iota", "from tuple/array/slice/iterator", "into_array", "into_tuple", "as_slice", "into_iter", "as_"], Box::new(|| ctors::<$V<S>>())));
        v.push((format!("c02/maps/{}", stringify!($V)), "C02", $tier, vec!["map", "map2", "map3", "apply*", "zip", "hadd", "min", "max"], Box::new(|| maps::<$V<S>>())));
        v.push((format!("c02/folds/{}", stringify!($V)), "C02", $tier, vec!["reduce", "reduce_bit*", "reduce_min", "reduce_max", "sum", "product"], Box::new(|| folds::<$V<S>>())));
        if $small {
            for w in 0..18usize { v.push((format!("c02/ord/{}/{}", ORD_NAMES[w], stringify!($V)), "C02", $tier, vec!["partial_min/max", "reduce_partial_*", "cmp*", "partial_cmp*", "is_any_negative", "are_all_positive"], Box::new(move || ord_ops::<$V<S>>(w, None)))); }
        } else {
            for w in 0..18usize { for first in [true, false] { v.push((format!("c02/ord_near_{}/{}/{}", if first { "true" } else { "false" }, ORD_NAMES[w], stringify!($V)), "C02", if $V::<S>::N > 16 { 1 } else { $tier }, vec!["partial_min/max", "reduce_partial_*", "cmp*", "partial_cmp*", "is_any_negative", "are_all_positive"], Box::new(move || ord_ops::<$V<S>>(w, Some(first))))); } }
        }
    )+ } }
    per!(0, true; Vec2 Vec3 Vec4 Extent2 Extent3 Rgb Rgba Uv Uvw);
    per!(0, false; Vec8 Vec16);
    per!(0, false; Vec32 Vec64);
    v
}
