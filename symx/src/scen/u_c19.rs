// C19 — vector kind/size conversions, swizzles, shuffles, colour helpers keep elements.
// Included twice (S = SymU / S = Cu).
use crate::core::*;
use crate::opq::OpqPrim;
use crate::vecs::*;

type Entry = (String, &'static str, u8, Vec<&'static str>, Box<dyn Fn() + Send + Sync>);

fn app(name: &str, args: &[S]) -> S {
    <S as OpqPrim>::app(name, args)
}
fn zero() -> S {
    <S as num_traits::Zero>::zero()
}
fn one() -> S {
    <S as num_traits::One>::one()
}
fn full() -> S {
    <S as vek::ops::ColorComponent>::full()
}
fn neg(x: S) -> S {
    app("neg", &[x])
}
fn symv(p: &str, n: usize) -> Vec<S> {
    (0..n).map(|i| var::<S>(&format!("{}{}", p, i))).collect()
}
fn eqv(tag: &str, got: &[S], want: &[S]) {
    assert_eq!(got.len(), want.len(), "{}", tag);
    goal(tag, and(got.iter().zip(want).map(|(g, w)| eq(*g, *w)).collect()));
}
fn distinct(a: &[S]) {
    for x in 0..a.len() { for y in x + 1..a.len() { assume(ne(a[x], a[y])); } }
}

fn conversions() {
    let a = symv("a", 4);
    distinct(&a);
    let s = var::<S>("s");
    let (v2, v3, v4) = (Vec2::of(&a[..2]), Vec3::of(&a[..3]), Vec4::of(&a));
    let (e2, e3) = (Extent2::of(&a[..2]), Extent3::of(&a[..3]));
    let (rgb, rgba) = (Rgb::of(&a[..3]), Rgba::of(&a));
    let (uv, uvw) = (Uv::of(&a[..2]), Uvw::of(&a[..3]));
    let z = zero();
    // equal size: order kept
    eqv("Vec2<-Extent2", &Vec2::from(e2).ent(), &a[..2]);
    eqv("Extent2<-Vec2", &Extent2::from(v2).ent(), &a[..2]);
    eqv("Uv<-Vec2", &Uv::from(v2).ent(), &a[..2]);
    eqv("Vec3<-Extent3", &Vec3::from(e3).ent(), &a[..3]);
    eqv("Vec3<-Rgb", &Vec3::from(rgb).ent(), &a[..3]);
    eqv("Vec3<-Uvw", &Vec3::from(uvw).ent(), &a[..3]);
    eqv("Extent3<-Vec3", &Extent3::from(v3).ent(), &a[..3]);
    eqv("Rgb<-Vec3", &Rgb::from(v3).ent(), &a[..3]);
    eqv("Uvw<-Vec3", &Uvw::from(v3).ent(), &a[..3]);
    eqv("Rgba<-Vec4", &Rgba::from(v4).ent(), &a);
    let _ = uv;
    // shrinking drops the tail
    eqv("Vec2<-Vec3", &Vec2::from(v3).ent(), &a[..2]);
    eqv("Vec2<-Vec4", &Vec2::from(v4).ent(), &a[..2]);
    eqv("Vec3<-Vec4", &Vec3::from(v4).ent(), &a[..3]);
    eqv("Rgb<-Rgba", &Rgb::from(rgba).ent(), &a[..3]);
    eqv("Rgba::rgb", &rgba.rgb().ent(), &a[..3]);
    // growing appends zeros / the supplied scalar / full alpha
    eqv("Vec3<-Vec2", &Vec3::from(v2).ent(), &[a[0], a[1], z]);
    eqv("Vec4<-Vec2", &Vec4::from(v2).ent(), &[a[0], a[1], z, z]);
    eqv("Vec4<-Vec3", &Vec4::from(v3).ent(), &[a[0], a[1], a[2], z]);
    eqv("Vec3<-(Vec2,s)", &Vec3::from((v2, s)).ent(), &[a[0], a[1], s]);
    eqv("Vec4<-(Vec3,s)", &Vec4::from((v3, s)).ent(), &[a[0], a[1], a[2], s]);
    eqv("Extent3<-(Extent2,s)", &Extent3::from((e2, s)).ent(), &[a[0], a[1], s]);
    eqv("Rgba<-(Rgb,s)", &Rgba::from((rgb, s)).ent(), &[a[0], a[1], a[2], s]);
    eqv("Uvw<-(Uv,s)", &Uvw::from((uv, s)).ent(), &[a[0], a[1], s]);
    eqv("Rgba<-Rgb (opaque)", &Rgba::from(rgb).ent(), &[a[0], a[1], a[2], full()]);
}
fn swizzles() {
    let a = symv("a", 4);
    distinct(&a);
    let s = var::<S>("s");
    let (v2, v3, v4) = (Vec2::of(&a[..2]), Vec3::of(&a[..3]), Vec4::of(&a));
    eqv("Vec2::yx", &v2.yx().ent(), &[a[1], a[0]]);
    eqv("Vec3::zyx", &v3.zyx().ent(), &[a[2], a[1], a[0]]);
    eqv("Vec3::xy", &v3.xy().ent(), &a[..2]);
    eqv("Vec4::wxyz", &v4.wxyz().ent(), &[a[3], a[0], a[1], a[2]]);
    eqv("Vec4::wzyx", &v4.wzyx().ent(), &[a[3], a[2], a[1], a[0]]);
    eqv("Vec4::zyxw", &v4.zyxw().ent(), &[a[2], a[1], a[0], a[3]]);
    eqv("Vec4::xyz", &v4.xyz().ent(), &a[..3]);
    eqv("Vec4::xy", &v4.xy().ent(), &a[..2]);
    eqv("Vec2::with_x", &v2.with_x(s).ent(), &[s, a[1]]);
    eqv("Vec2::with_y", &v2.with_y(s).ent(), &[a[0], s]);
    eqv("Vec2::with_z", &v2.with_z(s).ent(), &[a[0], a[1], s]);
    eqv("Vec2::with_w", &v2.with_w(s).ent(), &[a[0], a[1], zero(), s]);
    eqv("Vec3::with_x", &v3.with_x(s).ent(), &[s, a[1], a[2]]);
    eqv("Vec3::with_y", &v3.with_y(s).ent(), &[a[0], s, a[2]]);
    eqv("Vec3::with_z", &v3.with_z(s).ent(), &[a[0], a[1], s]);
    eqv("Vec3::with_w", &v3.with_w(s).ent(), &[a[0], a[1], a[2], s]);
    eqv("Vec4::with_x", &v4.with_x(s).ent(), &[s, a[1], a[2], a[3]]);
    eqv("Vec4::with_y", &v4.with_y(s).ent(), &[a[0], s, a[2], a[3]]);
    eqv("Vec4::with_z", &v4.with_z(s).ent(), &[a[0], a[1], s, a[3]]);
    eqv("Vec4::with_w", &v4.with_w(s).ent(), &[a[0], a[1], a[2], s]);
}
fn homogeneous() {
    let a = symv("a", 3);
    let (z, o) = (zero(), one());
    eqv("Vec4::new_point", &Vec4::new_point(a[0], a[1], a[2]).ent(), &[a[0], a[1], a[2], o]);
    eqv("Vec4::new_direction", &Vec4::new_direction(a[0], a[1], a[2]).ent(), &[a[0], a[1], a[2], z]);
    eqv("Vec4::from_point", &Vec4::from_point(Vec3::of(&a)).ent(), &[a[0], a[1], a[2], o]);
    eqv("Vec4::from_direction", &Vec4::from_direction(Vec3::of(&a)).ent(), &[a[0], a[1], a[2], z]);
    eqv("Vec3::new_point_2d", &Vec3::new_point_2d(a[0], a[1]).ent(), &[a[0], a[1], o]);
    eqv("Vec3::new_direction_2d", &Vec3::new_direction_2d(a[0], a[1]).ent(), &[a[0], a[1], z]);
    eqv("Vec3::from_point_2d", &Vec3::from_point_2d(Vec2::of(&a[..2])).ent(), &[a[0], a[1], o]);
    eqv("Vec3::from_direction_2d", &Vec3::from_direction_2d(Vec2::of(&a[..2])).ent(), &[a[0], a[1], z]);
    // unit vectors and the deprecated direction names
    let m = neg(o);
    eqv("Vec2 units", &[Vec2::<S>::unit_x().ent(), Vec2::<S>::unit_y().ent(), Vec2::<S>::right().ent(), Vec2::<S>::up().ent()].concat(), &[o, z, z, o, o, z, z, o]);
    eqv("Vec2 left/down", &[Vec2::<S>::left().ent(), Vec2::<S>::down().ent()].concat(), &[m, neg(z), neg(z), m]);
    eqv("Vec3 units", &[Vec3::<S>::unit_x().ent(), Vec3::<S>::unit_y().ent(), Vec3::<S>::unit_z().ent()].concat(), &[o, z, z, z, o, z, z, z, o]);
    eqv("Vec3 right/up/forward_lh/back_rh", &[Vec3::<S>::right().ent(), Vec3::<S>::up().ent(), Vec3::<S>::forward_lh().ent(), Vec3::<S>::back_rh().ent()].concat(), &[o, z, z, z, o, z, z, z, o, z, z, o]);
    eqv("Vec3 left/down/forward_rh/back_lh", &[Vec3::<S>::left().ent(), Vec3::<S>::down().ent(), Vec3::<S>::forward_rh().ent(), Vec3::<S>::back_lh().ent()].concat(), &[m, neg(z), neg(z), neg(z), m, neg(z), neg(z), neg(z), m, neg(z), neg(z), m]);
    eqv("Vec4 units", &[Vec4::<S>::unit_x().ent(), Vec4::<S>::unit_y().ent(), Vec4::<S>::unit_z().ent(), Vec4::<S>::unit_w().ent()].concat(), &[o, z, z, z, z, o, z, z, z, z, o, z, z, z, z, o]);
    eqv("Vec4 unit points", &[Vec4::<S>::unit_x_point().ent(), Vec4::<S>::unit_y_point().ent(), Vec4::<S>::unit_z_point().ent()].concat(), &[o, z, z, o, z, o, z, o, z, z, o, o]);
    eqv("Vec4 direction-named points", &[Vec4::<S>::left_point().ent(), Vec4::<S>::right_point().ent(), Vec4::<S>::up_point().ent(), Vec4::<S>::down_point().ent(), Vec4::<S>::forward_point_lh().ent(), Vec4::<S>::forward_point_rh().ent(), Vec4::<S>::back_point_lh().ent(), Vec4::<S>::back_point_rh().ent()].concat(),
        &[m, z, z, o, o, z, z, o, z, o, z, o, z, m, z, o, z, z, o, o, z, z, m, o, z, z, m, o, z, z, o, o]);
}
macro_rules! shuffles4 { ($fname:ident, $V:ident) => {
fn $fname() {
    let (a, b) = (symv("a", 4), symv("b", 4));
    distinct(&[a.clone(), b.clone()].concat());
    let (va, vb) = ($V::of(&a), $V::of(&b));
    // all 256 masks through concrete index tuples, plus out-of-range indices (taken modulo 4)
    for m in 0..256usize {
        let idx = (m & 3, (m >> 2) & 3, (m >> 4) & 3, (m >> 6) & 3);
        let want = [a[idx.0], a[idx.1], b[idx.2], b[idx.3]];
        eqv(&format!("shuffle_lo_hi{:?}", idx), &$V::shuffle_lo_hi(va, vb, idx).ent(), &want);
        if m % 37 == 0 {
            let big = (idx.0 + 4, idx.1 + 8, idx.2 + 400, idx.3 + 4 * 1000003);
            eqv(&format!("shuffle_lo_hi out-of-range {:?}", big), &$V::shuffle_lo_hi(va, vb, big).ent(), &want);
            eqv(&format!("shuffle_lo_hi array mask {:?}", idx), &$V::shuffle_lo_hi(va, vb, [idx.0, idx.1, idx.2, idx.3]).ent(), &want);
        }
        eqv(&format!("shuffled{:?}", idx), &va.shuffled(idx).ent(), &[a[idx.0], a[idx.1], a[idx.2], a[idx.3]]);
        let mk = vek::vec::ShuffleMask4::from(idx);
        goal(&format!("ShuffleMask4 round trip {:?}", idx), lit(mk.to_indices() == idx && vek::vec::ShuffleMask4::new(idx.0, idx.1, idx.2, idx.3) == mk));
    }
    for i in 0..4usize {
        eqv(&format!("shuffled({}) broadcasts one lane", i), &va.shuffled(i).ent(), &[a[i], a[i], a[i], a[i]]);
    }
    eqv("interleave_0011", &$V::interleave_0011(va, vb).ent(), &[a[0], b[0], a[1], b[1]]);
    eqv("interleave_2233", &$V::interleave_2233(va, vb).ent(), &[a[2], b[2], a[3], b[3]]);
    eqv("shuffle_lo_hi_0101", &$V::shuffle_lo_hi_0101(va, vb).ent(), &[a[0], a[1], b[0], b[1]]);
    eqv("shuffle_hi_lo_2323", &$V::shuffle_hi_lo_2323(va, vb).ent(), &[b[2], b[3], a[2], a[3]]);
    eqv("shuffled_0101", &va.shuffled_0101().ent(), &[a[0], a[1], a[0], a[1]]);
    eqv("shuffled_2323", &va.shuffled_2323().ent(), &[a[2], a[3], a[2], a[3]]);
    eqv("shuffled_0022", &va.shuffled_0022().ent(), &[a[0], a[0], a[2], a[2]]);
    eqv("shuffled_1133", &va.shuffled_1133().ent(), &[a[1], a[1], a[3], a[3]]);
}
} }
shuffles4!(shuffles_vec4, Vec4);
shuffles4!(shuffles_rgba, Rgba);
fn colours() {
    let a = symv("c", 4);
    distinct(&a);
    let s = var::<S>("s");
    let (z, f) = (zero(), full());
    let (rgb, rgba) = (Rgb::of(&a[..3]), Rgba::of(&a));
    eqv("new_opaque", &Rgba::new_opaque(a[0], a[1], a[2]).ent(), &[a[0], a[1], a[2], f]);
    eqv("new_transparent", &Rgba::new_transparent(a[0], a[1], a[2]).ent(), &[a[0], a[1], a[2], z]);
    eqv("from_opaque", &Rgba::from_opaque(rgb).ent(), &[a[0], a[1], a[2], f]);
    eqv("from_transparent", &Rgba::from_transparent(rgb).ent(), &[a[0], a[1], a[2], z]);
    eqv("from_translucent", &Rgba::from_translucent(rgb, s).ent(), &[a[0], a[1], a[2], s]);
    let named = |v: [S; 3]| v.to_vec();
    let table: Vec<(&str, Vec<S>, Vec<S>)> = vec![
        ("black", Rgb::<S>::black().ent(), named([z, z, z])), ("white", Rgb::<S>::white().ent(), named([f, f, f])), ("red", Rgb::<S>::red().ent(), named([f, z, z])),
        ("green", Rgb::<S>::green().ent(), named([z, f, z])), ("blue", Rgb::<S>::blue().ent(), named([z, z, f])), ("cyan", Rgb::<S>::cyan().ent(), named([z, f, f])),
        ("magenta", Rgb::<S>::magenta().ent(), named([f, z, f])), ("yellow", Rgb::<S>::yellow().ent(), named([f, f, z])), ("gray", Rgb::gray(s).ent(), named([s, s, s])), ("grey", Rgb::grey(s).ent(), named([s, s, s])),
    ];
    for (n, got, want) in &table {
        eqv(&format!("Rgb::{}", n), got, want);
    }
    let table4: Vec<(&str, Vec<S>)> = vec![("black", Rgba::<S>::black().ent()), ("white", Rgba::<S>::white().ent()), ("red", Rgba::<S>::red().ent()), ("green", Rgba::<S>::green().ent()), ("blue", Rgba::<S>::blue().ent()), ("cyan", Rgba::<S>::cyan().ent()), ("magenta", Rgba::<S>::magenta().ent()), ("yellow", Rgba::<S>::yellow().ent()), ("gray", Rgba::gray(s).ent()), ("grey", Rgba::grey(s).ent())];
    for ((n, got), (_, _, want3)) in table4.iter().zip(&table) {
        let mut w = want3.clone();
        w.push(f);
        eqv(&format!("Rgba::{}", n), got, &w);
    }
    let inv = |x: S| app("sub", &[f, x]);
    eqv("Rgb::inverted_rgb", &rgb.inverted_rgb().ent(), &[inv(a[0]), inv(a[1]), inv(a[2])]);
    eqv("Rgba::inverted_rgb keeps alpha", &rgba.inverted_rgb().ent(), &[inv(a[0]), inv(a[1]), inv(a[2]), a[3]]);
    let avg = app("div", &[app("add", &[app("add", &[a[0], a[1]]), a[2]]), app("from_u8_3", &[])]);
    goal("Rgb::average_rgb", eq(rgb.average_rgb(), avg));
    goal("Rgba::average_rgb ignores alpha", eq(rgba.average_rgb(), avg));
    eqv("shuffled_argb", &rgba.shuffled_argb().ent(), &[a[3], a[0], a[1], a[2]]);
    eqv("shuffled_bgra", &rgba.shuffled_bgra().ent(), &[a[2], a[1], a[0], a[3]]);
    eqv("shuffled_bgr", &rgb.shuffled_bgr().ent(), &[a[2], a[1], a[0]]);
}

pub fn list() -> Vec<Entry> {
    let mut v: Vec<Entry> = vec![];
    v.push(("c19/conversions".into(), "C19", 0, vec!["From impls between Vec2/3/4, Extent2/3, Rgb(a), Uv(w)", "From<(smaller, T)>", "Rgba::rgb"], Box::new(conversions)));
    v.push(("c19/swizzles".into(), "C19", 0, vec!["yx", "zyx", "xy", "xyz", "wxyz", "wzyx", "zyxw", "with_x/y/z/w"], Box::new(swizzles)));
    v.push(("c19/homogeneous".into(), "C19", 0, vec!["new_point", "new_direction", "from_point", "from_direction", "*_2d", "unit_*", "deprecated direction names"], Box::new(homogeneous)));
    v.push(("c19/shuffles/Vec4".into(), "C19", 0, vec!["shuffle_lo_hi", "shuffled", "ShuffleMask4", "interleave_*", "shuffle_lo_hi_0101", "shuffle_hi_lo_2323", "shuffled_*"], Box::new(shuffles_vec4)));
    v.push(("c19/shuffles/Rgba".into(), "C19", 0, vec!["shuffle_lo_hi", "shuffled", "ShuffleMask4", "interleave_*"], Box::new(shuffles_rgba)));
    v.push(("c19/colours".into(), "C19", 0, vec!["new_opaque", "new_transparent", "from_opaque", "from_transparent", "from_translucent", "named colours", "inverted_rgb", "average_rgb", "shuffled_argb", "shuffled_bgra", "shuffled_bgr"], Box::new(colours)));
    v
}
