//! C05 — quaternions form the Hamilton algebra and rotate vectors like their matrix.
use crate::core::*;
use crate::explore::Scenario;
use crate::mats::*;
use crate::real::Sx;
use num_traits::Float;
use vek::Quaternion;

fn quat<T: Sx>(p: &str) -> Quaternion<T> {
    Quaternion { x: var::<T>(&format!("{}x", p)), y: var::<T>(&format!("{}y", p)), z: var::<T>(&format!("{}z", p)), w: var::<T>(&format!("{}w", p)) }
}
fn qe<T: Copy>(q: Quaternion<T>) -> Vec<T> {
    vec![q.x, q.y, q.z, q.w]
}
/// Hamilton product from i^2 = j^2 = k^2 = ijk = -1 (x=i, y=j, z=k, w=real)
fn ham<T: Sx>(a: &[T], b: &[T]) -> Vec<T> {
    let (x1, y1, z1, w1) = (a[0], a[1], a[2], a[3]);
    let (x2, y2, z2, w2) = (b[0], b[1], b[2], b[3]);
    vec![
        w1 * x2 + x1 * w2 + y1 * z2 - z1 * y2,
        w1 * y2 - x1 * z2 + y1 * w2 + z1 * x2,
        w1 * z2 + x1 * y2 - y1 * x2 + z1 * w2,
        w1 * w2 - x1 * x2 - y1 * y2 - z1 * z2,
    ]
}
fn n2<T: Sx>(a: &[T]) -> T {
    a.iter().fold(k::<T>(0), |s, x| s + *x * *x)
}
fn algebra<T: Sx>() {
    let (p, q, r) = (quat::<T>("p"), quat::<T>("q"), quat::<T>("r"));
    goals_vec("p*q=Hamilton", &qe(p * q), &ham(&qe(p), &qe(q)));
    goals_vec("(p*q)*r=p*(q*r)", &qe((p * q) * r), &qe(p * (q * r)));
    let id = Quaternion::<T>::identity();
    goals_vec("identity", &qe(id), &[k(0), k(0), k(0), k(1)]);
    goals_vec("default", &qe(Quaternion::<T>::default()), &[k(0), k(0), k(0), k(1)]);
    goals_vec("zero", &qe(Quaternion::<T>::zero()), &[k(0), k(0), k(0), k(0)]);
    goals_vec("1*q", &qe(id * q), &qe(q));
    goals_vec("q*1", &qe(q * id), &qe(q));
    goal("|pq|^2=|p|^2|q|^2", eq((p * q).magnitude_squared(), p.magnitude_squared() * q.magnitude_squared()));
    goal("magnitude_squared", eq(q.magnitude_squared(), n2(&qe(q))));
    goal("magnitude", and(vec![ge(q.magnitude(), k(0)), eq(q.magnitude() * q.magnitude(), n2(&qe(q)))]));
    goal("dot", eq(p.dot(q), p.x * q.x + p.y * q.y + p.z * q.z + p.w * q.w));
    goals_vec("conjugate", &qe(q.conjugate()), &[-q.x, -q.y, -q.z, q.w]);
    goals_vec("conj(pq)=conj(q)conj(p)", &qe((p * q).conjugate()), &qe(q.conjugate() * p.conjugate()));
    let s = var::<T>("s");
    goals_vec("q*s", &qe(q * s), &[q.x * s, q.y * s, q.z * s, q.w * s]);
    goals_vec("q/s", &qe(q / s), &[q.x / s, q.y / s, q.z / s, q.w / s]);
    goals_vec("p+q", &qe(p + q), &[p.x + q.x, p.y + q.y, p.z + q.z, p.w + q.w]);
    goals_vec("p-q", &qe(p - q), &[p.x - q.x, p.y - q.y, p.z - q.z, p.w - q.w]);
    goals_vec("-q", &qe(-q), &[-q.x, -q.y, -q.z, -q.w]);
    // conversions
    let v: Vec4<T> = q.into();
    goals_vec("into Vec4", &VL::ent(&v), &qe(q));
    goals_vec("into_vec4", &VL::ent(&q.into_vec4()), &qe(q));
    goals_vec("from Vec4", &qe(Quaternion::from(v)), &qe(q));
    goals_vec("from_vec4", &qe(Quaternion::from_vec4(v)), &qe(q));
    let v3_: Vec3<T> = q.into();
    goals_vec("into Vec3", &VL::ent(&v3_), &[q.x, q.y, q.z]);
    goals_vec("into_vec3", &VL::ent(&q.into_vec3()), &[q.x, q.y, q.z]);
    let (sc, ve) = q.into_scalar_and_vec3();
    goals_vec("into_scalar_and_vec3", &[sc, ve.x, ve.y, ve.z], &[q.w, q.x, q.y, q.z]);
    goals_vec("from_scalar_and_vec3", &qe(Quaternion::from_scalar_and_vec3((q.w, v3(&[q.x, q.y, q.z])))), &qe(q));
    goals_vec("from_xyzw", &qe(Quaternion::from_xyzw(q.x, q.y, q.z, q.w)), &qe(q));
}
fn inverse<T: Sx>() {
    let q = quat::<T>("q");
    assume(ne(n2(&qe(q)), k(0)));
    check_defined();
    let id = [k::<T>(0), k(0), k(0), k(1)];
    goals_vec("q*inverse(q)=1", &qe(q * q.inverse()), &id);
    goals_vec("inverse(q)*q=1", &qe(q.inverse() * q), &id);
    let n = q.normalized();
    goal("normalized is unit", eq(n2(&qe(n)), k(1)));
    let m = q.magnitude();
    goals_vec("normalized is parallel", &[n.x * m, n.y * m, n.z * m, n.w * m], &qe(q));
}
/// a unit quaternion: free non-zero q divided by its norm (sqrt atom)
fn unit_quat<T: Sx>(p: &str) -> (Quaternion<T>, Vec<Vec<T>>) {
    let q = quat::<T>(p);
    let (r, n) = rot_of_quat(q.x, q.y, q.z, q.w);
    assume(ne(n, k(0)));
    let m = n.sqrt();
    (Quaternion { x: q.x / m, y: q.y / m, z: q.z / m, w: q.w / m }, r)
}
fn rotate_vec<T: Sx>() {
    let (q, r) = unit_quat::<T>("q");
    let v = sym_vec::<T>("v", 3);
    let w = var::<T>("w");
    let qv: Vec3<T> = q * v3(&v);
    goals_vec("q*v = R(q) v (harness rotation matrix)", &VL::ent(&qv), &matvec(&r, &v));
    goals_vec("q*v = Rows3::from(q)*v", &VL::ent(&qv), &VL::ent(&(Rows3::from(q) * v3(&v))));
    goals_vec("q*v = Cols3::from(q)*v", &VL::ent(&qv), &VL::ent(&(Cols3::from(q) * v3(&v))));
    let q4: Vec4<T> = q * v4(&[v[0], v[1], v[2], w]);
    goals_vec("q*Vec4 rotates xyz, keeps w", &VL::ent(&q4), &[qv.x, qv.y, qv.z, w]);
    goals_vec("q*Vec4 = Cols4::from(q)*Vec4 (w=0)", &VL::ent(&(q * v4(&[v[0], v[1], v[2], k(0)]))), &VL::ent(&(Cols4::from(q) * v4(&[v[0], v[1], v[2], k(0)]))));
    // Mat3::from(q) is the upper-left block of Mat4::from(q)
    let (m3, m4) = (Cols3::from(q).ent(), Cols4::from(q).ent());
    for i in 0..3 { for j in 0..3 { goal(&format!("Mat3::from(q)=block of Mat4::from(q)[{}][{}]", i, j), eq(m3[i][j], m4[i][j])); } }
    let (m3, m4) = (Rows3::from(q).ent(), Rows4::from(q).ent());
    for i in 0..3 { for j in 0..3 { goal(&format!("rows: Mat3::from(q)=block of Mat4::from(q)[{}][{}]", i, j), eq(m3[i][j], m4[i][j])); } }
}
fn compose<T: Sx>() {
    let (p, q) = (quat::<T>("p"), quat::<T>("q"));
    let v = v3(&sym_vec::<T>("v", 3));
    goals_vec("(p*q)*v = p*(q*v)", &VL::ent(&((p * q) * v)), &VL::ent(&(p * (q * v))));
}
/// generic branch of rotation_from_to_3d: maps `from` onto the direction of `to`, keeping its length
fn from_to_generic<T: Sx>() {
    let (f, t) = (v3(&sym_vec::<T>("f", 3)), v3(&sym_vec::<T>("t", 3)));
    // |from|^2, |to|^2 and |from||to| built exactly as the code builds them, so that the radical is one atom
    let (ff, tt, d) = (f.dot(f), t.dot(t), f.dot(t));
    assume(ne(ff, k(0)));
    assume(ne(tt, k(0)));
    // not nearly antiparallel: 256 times the code's own threshold, so that a retuned threshold is not an alarm
    // (the exactly antiparallel case is the next scenario; the band in between is deliberately approximate)
    let n = (ff * tt).sqrt();
    assume(ge(n + d, n * T::epsilon() * k(256)));
    let q: Quaternion<T> = Quaternion::rotation_from_to_3d::<Vec3<T>>(f, t);
    goal("unit", eq(n2(&qe(q)), k(1)));
    let r: Vec3<T> = q * f;
    // q*from = to*|from|/|to|  <=>  (q*from)*|from||to| = to*|from|^2      (n = |from||to| > 0)
    goals_vec("q*from=to*|from|/|to|", &[r.x * n, r.y * n, r.z * n], &[t.x * ff, t.y * ff, t.z * ff]);
    // Mat3/Mat4 builders are the matrix of that quaternion
    goals_mat("Mat4::rotation_from_to_3d", &Cols4::rotation_from_to_3d(f, t).ent(), &Cols4::from(q).ent());
    goals_mat("Mat3::rotation_from_to_3d", &Cols3::rotation_from_to_3d(f, t).ent(), &Cols3::from(q).ent());
    goals_mat("rows Mat4::rotation_from_to_3d", &Rows4::rotation_from_to_3d(f, t).ent(), &Rows4::from(q).ent());
    goals_mat("rows Mat3::rotation_from_to_3d", &Rows3::rotation_from_to_3d(f, t).ent(), &Rows3::from(q).ent());
}
/// exactly opposite directions: to = -kappa*from
fn from_to_opposite<T: Sx>() {
    let f = v3(&sym_vec::<T>("f", 3));
    let kappa = var::<T>("kappa");
    assume(gt(kappa, k(0)));
    assume(ne(f.x * f.x + f.y * f.y + f.z * f.z, k(0)));
    check_defined();
    let t = v3(&[-kappa * f.x, -kappa * f.y, -kappa * f.z]);
    let q: Quaternion<T> = Quaternion::rotation_from_to_3d::<Vec3<T>>(f, t);
    goal("unit", eq(n2(&qe(q)), k(1)));
    let r: Vec3<T> = q * f;
    goals_vec("q*from = -from", &VL::ent(&r), &[-f.x, -f.y, -f.z]);
}
fn angle_axis<T: Sx>() {
    let (q, _) = unit_quat::<T>("q");
    let eps = T::epsilon();
    assume(ge(k::<T>(1) - q.w * q.w, eps * eps * k(65536))); // sin(angle/2) >= 256 EPS: clear of the code's "any axis would do" test, whatever its exact threshold
    let (angle, axis) = q.into_angle_axis();
    goal("axis is unit", eq(axis.x * axis.x + axis.y * axis.y + axis.z * axis.z, k(1)));
    // "describing the same rotation": q and -q are the same rotation, and the property fixes no range for the angle
    let (back, want) = (qe(Quaternion::rotation_3d(angle, axis)), qe(q));
    goal("rotation_3d(angle, axis) = q or -q (the same rotation)", or(vec![and(back.iter().zip(&want).map(|(b, w)| eq(*b, *w)).collect()), and(back.iter().zip(&want).map(|(b, w)| eq(*b, -*w)).collect())]));
}

pub fn register(v: &mut Vec<Scenario>) {
    scen!(v, "C05", 0, "c05/algebra", ["Quaternion::mul", "conjugate", "dot", "magnitude*", "Mul<T>", "Div<T>", "Add", "Sub", "Neg", "identity", "default", "conversions"], algebra());
    scen!(v, "C05", 0, "c05/inverse", ["Quaternion::inverse", "normalized", "magnitude"], inverse());
    scen!(v, "C05", 0, "c05/rotate_vec", ["Quaternion*Vec3", "Quaternion*Vec4", "Mat3::from(Quaternion)", "Mat4::from(Quaternion)"], rotate_vec());
    scen!(v, "C05", 0, "c05/compose", ["Quaternion*Vec3", "Quaternion::mul"], compose());
    scen!(v, "C05", 0, "c05/from_to_generic", ["Quaternion::rotation_from_to_3d", "Mat3::rotation_from_to_3d", "Mat4::rotation_from_to_3d"], from_to_generic());
    scen!(v, "C05", 0, "c05/from_to_opposite", ["Quaternion::rotation_from_to_3d"], from_to_opposite());
    scen!(v, "C05", 0, "c05/angle_axis", ["Quaternion::into_angle_axis", "Quaternion::rotation_3d"], angle_axis());
}
