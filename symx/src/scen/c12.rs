//! C12 — lerp is affine with exact endpoints; nlerp and slerp stay on the unit sphere.
use crate::core::*;
use crate::explore::Scenario;
use crate::real::Sx;
use crate::vecs::*;
use num_traits::Float;
use vek::ops::{Lerp, Slerp};
use vek::transition::{IdentityProgressMapper, LinearTransition, ProgressMapperFn, Transition};
use vek::{Quaternion, Transform};

fn symv<T: Sx>(p: &str, n: usize) -> Vec<T> {
    (0..n).map(|i| var::<T>(&format!("{}{}", p, i))).collect()
}
fn eqv<T: Sx>(tag: &str, got: &[T], want: &[T]) {
    assert_eq!(got.len(), want.len());
    goal(tag, and(got.iter().zip(want).map(|(g, w)| eq(*g, *w)).collect()));
}
fn clamp01<T: Sx>(t: T) -> T {
    if t < k(0) { k(0) } else if t > k(1) { k(1) } else { t }
}
/// the scalar impl (vek's own lerp_impl_float body, hook H1) — every trait method
fn scalar<T: Sx + ByRef>(clamped: bool) {
    let (a, b, t) = (var::<T>("a"), var::<T>("b"), var::<T>("t"));
    let want = |x: T| a + x * (b - a);
    if !clamped {
        goal("lerp_unclamped affine", eq(<T as Lerp<T>>::lerp_unclamped(a, b, t), want(t)));
        goal("lerp_unclamped_precise affine", eq(<T as Lerp<T>>::lerp_unclamped_precise(a, b, t), want(t)));
        goal("at 0", and(vec![eq(<T as Lerp<T>>::lerp_unclamped(a, b, k(0)), a), eq(<T as Lerp<T>>::lerp_unclamped_precise(a, b, k(0)), a)]));
        goal("at 1", and(vec![eq(<T as Lerp<T>>::lerp_unclamped(a, b, k(1)), b), eq(<T as Lerp<T>>::lerp_unclamped_precise(a, b, k(1)), b)]));
        goal("range forms", and(vec![eq(<T as Lerp<T>>::lerp_unclamped_inclusive_range(a..=b, t), want(t)), eq(<T as Lerp<T>>::lerp_unclamped_precise_inclusive_range(a..=b, t), want(t))]));
        goal("by reference", and(vec![eq(T::scalar_ref(0, &a, &b, t), want(t)), eq(T::scalar_ref(1, &a, &b, t), want(t))]));
    } else {
        let tc = clamp01(t);
        goal("lerp = unclamped(clamp01 t)", eq(<T as Lerp<T>>::lerp(a, b, t), want(tc)));
        goal("lerp_precise = unclamped(clamp01 t)", eq(<T as Lerp<T>>::lerp_precise(a, b, t), want(tc)));
        goal("clamped range forms", and(vec![eq(<T as Lerp<T>>::lerp_inclusive_range(a..=b, t), want(tc)), eq(<T as Lerp<T>>::lerp_precise_inclusive_range(a..=b, t), want(tc))]));
        goal("clamped by reference", and(vec![eq(T::scalar_ref(2, &a, &b, t), want(tc)), eq(T::scalar_ref(3, &a, &b, t), want(tc))]));
    }
}
pub trait LerpV<T>: VK<T> + Copy {
    fn inh(which: usize, a: Self, b: Self, t: T) -> Self;
    fn inh_v(which: usize, a: Self, b: Self, t: Self) -> Self;
    fn tr(which: usize, a: Self, b: Self, t: T) -> Self;
    fn tr_ref(which: usize, a: &Self, b: &Self, t: T) -> Self;
}
macro_rules! lerpv1 { ($T:ty; $($V:ident)+) => { $( impl LerpV<$T> for $V<$T> {
    fn inh(which: usize, a: Self, b: Self, t: $T) -> Self { match which { 0 => $V::lerp_unclamped(a, b, t), 1 => $V::lerp_unclamped_precise(a, b, t), 2 => $V::lerp(a, b, t), _ => $V::lerp_precise(a, b, t) } }
    fn inh_v(which: usize, a: Self, b: Self, t: Self) -> Self { match which { 0 => $V::lerp_unclamped(a, b, t), _ => $V::lerp_unclamped_precise(a, b, t) } }
    fn tr(which: usize, a: Self, b: Self, t: $T) -> Self { match which { 0 => <$V<$T> as Lerp<$T>>::lerp_unclamped(a, b, t), 1 => <$V<$T> as Lerp<$T>>::lerp_unclamped_precise(a, b, t), 2 => <$V<$T> as Lerp<$T>>::lerp(a, b, t), _ => <$V<$T> as Lerp<$T>>::lerp_precise(a, b, t) } }
    fn tr_ref(which: usize, a: &Self, b: &Self, t: $T) -> Self { match which { 0 => <&$V<$T> as Lerp<$T>>::lerp_unclamped(a, b, t), 1 => <&$V<$T> as Lerp<$T>>::lerp_unclamped_precise(a, b, t), 2 => <&$V<$T> as Lerp<$T>>::lerp(a, b, t), _ => <&$V<$T> as Lerp<$T>>::lerp_precise(a, b, t) } }
} )+ } }
/// the by-reference impls need `&T: Lerp<T>`, which a generic `T: Sx` cannot promise: one impl per scalar
pub trait ByRef: Sx {
    fn scalar_ref(w: usize, a: &Self, b: &Self, t: Self) -> Self;
    fn quat_ref(w: usize, a: &Quaternion<Self>, b: &Quaternion<Self>, t: Self) -> Quaternion<Self>;
    fn transform_ref(w: usize, a: &Transform<Self, Self, Self>, b: &Transform<Self, Self, Self>, t: Self) -> Transform<Self, Self, Self>;
    fn transition_acc(acc: usize, mapper: usize, a: Vec3<Self>, b: Vec3<Self>, p: Self) -> Vec3<Self>;
}
macro_rules! lerpv { ($($T:ty)+) => { $(
    lerpv1!($T; Vec2 Vec3 Vec4 Vec8 Vec16 Vec32 Vec64 Extent2 Extent3 Rgb Rgba Uv Uvw);
    impl ByRef for $T {
        fn scalar_ref(w: usize, a: &Self, b: &Self, t: Self) -> Self { match w { 0 => <&$T as Lerp<$T>>::lerp_unclamped(a, b, t), 1 => <&$T as Lerp<$T>>::lerp_unclamped_precise(a, b, t), 2 => <&$T as Lerp<$T>>::lerp(a, b, t), _ => <&$T as Lerp<$T>>::lerp_precise(a, b, t) } }
        fn quat_ref(w: usize, a: &Quaternion<Self>, b: &Quaternion<Self>, t: Self) -> Quaternion<Self> { match w { 0 => <&Quaternion<$T> as Lerp<$T>>::lerp_unclamped(a, b, t), 1 => <&Quaternion<$T> as Lerp<$T>>::lerp_unclamped_precise(a, b, t), _ => <&Quaternion<$T> as Slerp<$T>>::slerp_unclamped(a, b, t) } }
        fn transform_ref(w: usize, a: &Transform<Self, Self, Self>, b: &Transform<Self, Self, Self>, t: Self) -> Transform<Self, Self, Self> { match w { 0 => <&Transform<$T, $T, $T> as Lerp<$T>>::lerp_unclamped(a, b, t), _ => <&Transform<$T, $T, $T> as Lerp<$T>>::lerp_unclamped_precise(a, b, t) } }
        fn transition_acc(acc: usize, mapper: usize, va: Vec3<Self>, vb: Vec3<Self>, p: Self) -> Vec3<Self> {
            macro_rules! acc { ($t:expr) => { match acc { 0 => $t.into_current(), 1 => $t.into_current_unclamped(), 2 => $t.into_current_precise(), 3 => $t.into_current_unclamped_precise(), 4 => $t.current(), 5 => $t.current_unclamped(), 6 => $t.current_precise(), _ => $t.current_unclamped_precise() } } }
            if mapper == 0 {
                let t: LinearTransition<Vec3<$T>, $T> = LinearTransition::with_progress(va, vb, p);
                acc!(t)
            } else {
                let t: Transition<Vec3<$T>, ProgressMapperFn<$T>, $T> = Transition::with_mapper_and_progress(va, vb, ProgressMapperFn(smooth::<$T> as fn($T) -> $T), p);
                acc!(t)
            }
        }
    }
)+ } }
lerpv!(crate::real::SymR crate::real::Cn f64);
fn vector<T: Sx, V: LerpV<T>>(clamped: bool) {
    let (a, b) = (symv::<T>("a", V::N), symv::<T>("b", V::N));
    let t = var::<T>("t");
    let (va, vb) = (V::of(&a), V::of(&b));
    let want = |x: T| -> Vec<T> { (0..V::N).map(|i| a[i] + x * (b[i] - a[i])).collect() };
    if !clamped {
        for w in 0..2 {
            let n = ["lerp_unclamped", "lerp_unclamped_precise"][w];
            eqv(&format!("inherent {} affine", n), &V::inh(w, va, vb, t).ent(), &want(t));
            eqv(&format!("Lerp::{} affine", n), &V::tr(w, va, vb, t).ent(), &want(t));
            eqv(&format!("&Lerp::{} affine", n), &V::tr_ref(w, &va, &vb, t).ent(), &want(t));
            eqv(&format!("{} at 0", n), &V::inh(w, va, vb, k(0)).ent(), &a);
            eqv(&format!("{} at 1", n), &V::inh(w, va, vb, k(1)).ent(), &b);
            let tv = symv::<T>("u", V::N);
            eqv(&format!("{} per-element factor", n), &V::inh_v(w, va, vb, V::of(&tv)).ent(), &(0..V::N).map(|i| a[i] + tv[i] * (b[i] - a[i])).collect::<Vec<_>>());
        }
    } else {
        let tc = clamp01(t);
        for w in 2..4 {
            let n = ["", "", "lerp", "lerp_precise"][w];
            eqv(&format!("inherent {}", n), &V::inh(w, va, vb, t).ent(), &want(tc));
            eqv(&format!("Lerp::{}", n), &V::tr(w, va, vb, t).ent(), &want(tc));
            eqv(&format!("&Lerp::{}", n), &V::tr_ref(w, &va, &vb, t).ent(), &want(tc));
        }
    }
}
fn quat<T: Sx>(p: &str) -> Quaternion<T> {
    Quaternion { x: var::<T>(&format!("{}0", p)), y: var::<T>(&format!("{}1", p)), z: var::<T>(&format!("{}2", p)), w: var::<T>(&format!("{}3", p)) }
}
fn qe<T: Copy>(q: Quaternion<T>) -> Vec<T> {
    vec![q.x, q.y, q.z, q.w]
}
fn dotl<T: Sx>(a: &[T], b: &[T]) -> T {
    a.iter().zip(b).fold(k::<T>(0), |s, (x, y)| s + *x * *y)
}
fn quat_lerp<T: Sx + ByRef>() {
    let (f, g, t) = (quat::<T>("f"), quat::<T>("g"), var::<T>("t"));
    let l: Vec<T> = (0..4).map(|i| qe(f)[i] + t * (qe(g)[i] - qe(f)[i])).collect();
    eqv("lerp_unclamped_unnormalized affine", &qe(Quaternion::lerp_unclamped_unnormalized(f, g, t)), &l);
    eqv("lerp_unclamped_precise_unnormalized affine", &qe(Quaternion::lerp_unclamped_precise_unnormalized(f, g, t)), &l);
    // nlerp: unit and parallel to the lerped vector (when that is non-zero)
    assume(ne(dotl(&l, &l), k(0)));
    let m = dotl(&l, &l).sqrt();
    for (n, q) in [("lerp_unclamped", <Quaternion<T> as Lerp<T>>::lerp_unclamped(f, g, t)), ("lerp_unclamped_precise", <Quaternion<T> as Lerp<T>>::lerp_unclamped_precise(f, g, t)), ("&lerp_unclamped", T::quat_ref(0, &f, &g, t)), ("&lerp_unclamped_precise", T::quat_ref(1, &f, &g, t))] {
        goal(&format!("{} unit", n), eq(dotl(&qe(q), &qe(q)), k(1)));
        eqv(&format!("{} parallel to lerp", n), &qe(q).iter().map(|x| *x * m).collect::<Vec<_>>(), &l);
    }
}
fn quat_lerp_clamped<T: Sx>() {
    let (f, g, t) = (quat::<T>("f"), quat::<T>("g"), var::<T>("t"));
    let tc = clamp01(t);
    let l: Vec<T> = (0..4).map(|i| qe(f)[i] + tc * (qe(g)[i] - qe(f)[i])).collect();
    eqv("lerp_unnormalized", &qe(Quaternion::lerp_unnormalized(f, g, t)), &l);
    eqv("lerp_precise_unnormalized", &qe(Quaternion::lerp_precise_unnormalized(f, g, t)), &l);
    eqv("lerp = lerp_unclamped(clamp01 t)", &qe(<Quaternion<T> as Lerp<T>>::lerp(f, g, t)), &qe(<Quaternion<T> as Lerp<T>>::lerp_unclamped(f, g, tc)));
}
/// slerp of unit quaternions
fn quat_slerp<T: Sx>() {
    let (f, g, t) = (quat::<T>("f"), quat::<T>("g"), var::<T>("t"));
    let (fv, gv) = (qe(f), qe(g));
    assume(eq(dotl(&fv, &fv), k(1)));
    assume(eq(dotl(&gv, &gv), k(1)));
    let d = f.dot(g);
    // no division by zero on any path (sin(phi) != 0 wherever the formula branch is taken)
    check_defined();
    let q = Quaternion::slerp_unclamped(f, g, t);
    let qv = qe(q);
    let eps = T::epsilon();
    // which way did the code go? (harness-side case split mirrors the code's two tests; both are forks already taken)
    let flipped = d < k(0);
    let c = if flipped { -d } else { d };
    let gs: Vec<T> = gv.iter().map(|x| if flipped { -*x } else { *x }).collect();
    if c > k::<T>(1) - eps {
        // near-parallel fallback = nlerp towards the sign-adjusted target
        let gq = Quaternion { x: gs[0], y: gs[1], z: gs[2], w: gs[3] };
        eqv("fallback = nlerp", &qv, &qe(<Quaternion<T> as Lerp<T>>::lerp_unclamped(f, gq, t)));
        return;
    }
    let phi = c.acos();
    let (s0, s1, sp) = (((k::<T>(1) - t) * phi).sin(), (t * phi).sin(), phi.sin());
    // L1: the output is (f*s0 + g'*s1)/sin(phi) — read off the real output terms
    let comb: Vec<T> = (0..4).map(|i| fv[i] * s0 + gs[i] * s1).collect();
    lemma("cut/", "L1 q*sin(phi) = f*s0 + g'*s1", and((0..4).map(|i| eq(qv[i] * sp, comb[i])).collect()));
    // L2: |f*s0+g'*s1|^2 = s0^2 + s1^2 + 2 s0 s1 c   (|f|=|g|=1, f.g' = c) ; f.(..) = s0 + c s1 ; g'.(..) = c s0 + s1
    let n2 = dotl(&comb, &comb);
    let (fq, gq) = (dotl(&fv, &comb), dotl(&gs, &comb));
    lemma("cut/", "L2 norm of the combination", eq(n2, s0 * s0 + s1 * s1 + k::<T>(2) * s0 * s1 * c));
    lemma("cut/", "L2 f.comb", eq(fq, s0 + c * s1));
    lemma("cut/", "L2 g.comb", eq(gq, c * s0 + s1));
    lemma("cut/", "L0 sin(phi)!=0", ne(sp, k(0)));
    // with the big sums abstracted, what remains are trig identities in (1-t)phi, t*phi, phi
    let (a0, a1) = ((k::<T>(1) - t) * phi, t * phi);
    lemma("cut/", "L4 angle sum", and(vec![eq(sp, s0 * a1.cos() + a0.cos() * s1), eq(c, a0.cos() * a1.cos() - s0 * s1)]));
    abstract_terms("cut/", &[n2, fq, gq, dotl(&qv, &qv), dotl(&fv, &qv), dotl(&gs, &qv), d]);
    lemma("cut/", "L3 |q|^2 sin^2 = |comb|^2", eq(dotl(&qv, &qv) * sp * sp, n2));
    lemma("cut/", "L3 f.q sin = f.comb", eq(dotl(&fv, &qv) * sp, fq));
    lemma("cut/", "L3 g.q sin = g.comb", eq(dotl(&gs, &qv) * sp, gq));
    goal("cut/unit", eq(dotl(&qv, &qv), k(1)));
    goal("cut/from.q(t) = cos(t*phi)", eq(dotl(&fv, &qv), (t * phi).cos()));
    goal("cut/to'.q(t) = cos((1-t)*phi)", eq(dotl(&gs, &qv), ((k::<T>(1) - t) * phi).cos()));
    goal("shorter arc: phi <= PI/2", le(phi * k(2), T::PI()));
}
fn quat_slerp_ends<T: Sx>(end: i64) {
    let (f, g) = (quat::<T>("f"), quat::<T>("g"));
    let (fv, gv) = (qe(f), qe(g));
    assume(eq(dotl(&fv, &fv), k(1)));
    assume(eq(dotl(&gv, &gv), k(1)));
    let d = f.dot(g);
    check_defined();
    let q = qe(Quaternion::slerp_unclamped(f, g, k(end)));
    let flipped = d < k(0);
    if end == 0 {
        eqv("slerp(0) = from", &q, &fv);
    } else {
        eqv("slerp(1) = +-to (same rotation)", &q, &gv.iter().map(|x| if flipped { -*x } else { *x }).collect::<Vec<_>>());
    }
}
fn quat_slerp_forms<T: Sx + ByRef>() {
    let (f, g, t) = (quat::<T>("f"), quat::<T>("g"), var::<T>("t"));
    let base = qe(Quaternion::slerp_unclamped(f, g, t));
    eqv("Slerp::slerp_unclamped", &qe(<Quaternion<T> as Slerp<T>>::slerp_unclamped(f, g, t)), &base);
    eqv("&Slerp::slerp_unclamped", &qe(T::quat_ref(2, &f, &g, t)), &base);
}
fn quat_slerp_clamped<T: Sx>() {
    let (f, g, t) = (quat::<T>("f"), quat::<T>("g"), var::<T>("t"));
    let tc = clamp01(t);
    eqv("slerp = slerp_unclamped(clamp01 t)", &qe(Quaternion::slerp(f, g, t)), &qe(Quaternion::slerp_unclamped(f, g, tc)));
}
fn transform_lerp<T: Sx + ByRef>() {
    let mk = |p: &str| Transform { position: Vec3::of(&symv::<T>(&format!("{}p", p), 3)), orientation: quat::<T>(&format!("{}o", p)), scale: Vec3::of(&symv::<T>(&format!("{}s", p), 3)) };
    let (a, b, t) = (mk("a"), mk("b"), var::<T>("t"));
    let flat = |x: Transform<T, T, T>| -> Vec<T> { let mut v = x.position.ent(); v.extend(qe(x.orientation)); v.extend(x.scale.ent()); v };
    let lin = |x: Vec3<T>, y: Vec3<T>| -> Vec<T> { x.ent().iter().zip(y.ent()).map(|(p, q)| *p + t * (q - *p)).collect() };
    let mut want = lin(a.position, b.position);
    want.extend(qe(Quaternion::slerp_unclamped(a.orientation, b.orientation, t)));
    want.extend(lin(a.scale, b.scale));
    eqv("lerp_unclamped", &flat(<Transform<T, T, T> as Lerp<T>>::lerp_unclamped(a, b, t)), &want);
    eqv("lerp_unclamped_precise", &flat(<Transform<T, T, T> as Lerp<T>>::lerp_unclamped_precise(a, b, t)), &want);
    eqv("&lerp_unclamped", &flat(T::transform_ref(0, &a, &b, t)), &want);
    eqv("&lerp_unclamped_precise", &flat(T::transform_ref(1, &a, &b, t)), &want);
}
fn smooth<T: Sx>(x: T) -> T {
    x * x * (k::<T>(3) - k::<T>(2) * x)
}
/// accessor 0..8 ; mapper 0 = identity, 1 = a (nonlinear) function pointer
fn transition<T: Sx + ByRef>(acc: usize, mapper: usize) {
    let (a, b, p) = (symv::<T>("a", 3), symv::<T>("b", 3), var::<T>("p"));
    let mp = if mapper == 0 { p } else { smooth(p) };
    let got = T::transition_acc(acc, mapper, Vec3::of(&a), Vec3::of(&b), p);
    let x = if acc % 2 == 0 { clamp01(mp) } else { mp };
    eqv("current value = lerp at the mapped progress", &got.ent(), &(0..3).map(|i| a[i] + x * (b[i] - a[i])).collect::<Vec<_>>());
}
fn transition_ctors<T: Sx>() {
    let (a, b) = (Vec3::of(&symv::<T>("a", 3)), Vec3::of(&symv::<T>("b", 3)));
    let t: LinearTransition<Vec3<T>, T> = LinearTransition::new(a, b);
    goal("new: progress 0", eq(t.progress, k(0)));
    eqv("new: ends", &[t.start.ent(), t.end.ent()].concat(), &[a.ent(), b.ent()].concat());
    let t2: Transition<Vec3<T>, IdentityProgressMapper, T> = Transition::from(a..b);
    eqv("from range", &[t2.start.ent(), t2.end.ent(), vec![t2.progress]].concat(), &[a.ent(), b.ent(), vec![k(0)]].concat());
    let r = t2.into_range();
    eqv("into_range", &[r.start.ent(), r.end.ent()].concat(), &[a.ent(), b.ent()].concat());
    let t3: Transition<Vec3<T>, IdentityProgressMapper, T> = Transition::with_mapper(a, b, IdentityProgressMapper);
    goal("with_mapper: progress 0", eq(t3.progress, k(0)));
    eqv("current at progress 0 = start", &t3.into_current_unclamped().ent(), &a.ent());
    let d: Transition<Vec3<T>, ProgressMapperFn<T>, T> = Transition::default();
    goal("default mapper is the identity", eq(d.progress_mapper.0(var::<T>("x")), var::<T>("x")));
}

pub fn register(v: &mut Vec<Scenario>) {
    scen!(v, "C12", 0, "c12/scalar/unclamped", ["lerp_impl_float (hook H1)", "Lerp trait defaults"], scalar(false));
    scen!(v, "C12", 0, "c12/scalar/clamped", ["lerp_impl_float (hook H1)", "Lerp trait defaults", "Clamp::clamped01"], scalar(true));
    macro_rules! per { ($tier:expr; $($V:ident)+) => { $(
        scen!(v, "C12", $tier, concat!("c12/vector/unclamped/", stringify!($V)), ["V::lerp_unclamped", "V::lerp_unclamped_precise", "Lerp for V", "Lerp for &V"], vector::<$V<T_>>(false));
        scen!(v, "C12", $tier, concat!("c12/vector/clamped/", stringify!($V)), ["V::lerp", "V::lerp_precise", "Lerp for V", "Lerp for &V"], vector::<$V<T_>>(true));
    )+ } }
    per!(0; Vec2 Vec3 Vec4 Vec8 Extent2 Extent3 Rgb Rgba Uv Uvw);
    per!(1; Vec16 Vec32 Vec64);
    scen!(v, "C12", 0, "c12/quat/lerp", ["Lerp for Quaternion", "Lerp for &Quaternion", "Quaternion::lerp_unclamped_unnormalized", "lerp_unclamped_precise_unnormalized"], quat_lerp());
    scen!(v, "C12", 0, "c12/quat/lerp_clamped", ["Quaternion::lerp_unnormalized", "lerp_precise_unnormalized", "Lerp::lerp"], quat_lerp_clamped());
    scen!(v, "C12", 0, "c12/quat/slerp", ["Quaternion::slerp_unclamped"], quat_slerp());
    scen!(v, "C12", 0, "c12/quat/slerp_at0", ["Quaternion::slerp_unclamped"], quat_slerp_ends(0));
    scen!(v, "C12", 0, "c12/quat/slerp_at1", ["Quaternion::slerp_unclamped"], quat_slerp_ends(1));
    scen!(v, "C12", 0, "c12/quat/slerp_forms", ["Slerp for Quaternion", "Slerp for &Quaternion"], quat_slerp_forms());
    scen!(v, "C12", 0, "c12/quat/slerp_clamped", ["Quaternion::slerp", "Slerp::slerp"], quat_slerp_clamped());
    scen!(v, "C12", 0, "c12/transform", ["Lerp for Transform", "Lerp for &Transform"], transform_lerp());
    for acc in 0..8usize {
        for mapper in 0..2usize {
            scen!(v, "C12", 0, format!("c12/transition/{}/{}", ["into_current", "into_current_unclamped", "into_current_precise", "into_current_unclamped_precise", "current", "current_unclamped", "current_precise", "current_unclamped_precise"][acc], ["identity", "fn"][mapper]), ["Transition accessors", "IdentityProgressMapper", "ProgressMapperFn"], transition(acc, mapper));
        }
    }
    scen!(v, "C12", 0, "c12/transition/ctors", ["LinearTransition::new", "Transition::from(Range)", "into_range", "with_mapper", "Default"], transition_ctors());
}
