//! C04 — rotation builders yield proper right-handed rotations, consistent across types.
use crate::core::*;
use crate::explore::Scenario;
use crate::mats::*;
use crate::real::Sx;
use num_traits::Float;
use std::ops::*;
use vek::Quaternion;

/// rotation API shared by Mat3/Mat4 in both layouts
pub trait Rot3<T>: MatOps<T> + Mul<Self, Output = Self> {
    fn rot(axis: usize, a: T) -> Self; // 0 x, 1 y, 2 z
    fn rot3d(a: T, ax: Vec3<T>) -> Self;
    fn rotated(self, axis: usize, a: T) -> Self;
    fn rotate(&mut self, axis: usize, a: T);
    fn rotated3d(self, a: T, ax: Vec3<T>) -> Self;
    fn rotate3d(&mut self, a: T, ax: Vec3<T>);
    fn from_quat(q: Quaternion<T>) -> Self;
}
macro_rules! rot3 { ($($M:ident)+) => { $( impl<T: Sx> Rot3<T> for $M<T> {
    fn rot(axis: usize, a: T) -> Self { match axis { 0 => $M::rotation_x(a), 1 => $M::rotation_y(a), _ => $M::rotation_z(a) } }
    fn rot3d(a: T, ax: Vec3<T>) -> Self { $M::rotation_3d(a, ax) }
    fn rotated(self, axis: usize, a: T) -> Self { match axis { 0 => self.rotated_x(a), 1 => self.rotated_y(a), _ => self.rotated_z(a) } }
    fn rotate(&mut self, axis: usize, a: T) { match axis { 0 => self.rotate_x(a), 1 => self.rotate_y(a), _ => self.rotate_z(a) } }
    fn rotated3d(self, a: T, ax: Vec3<T>) -> Self { self.rotated_3d(a, ax) }
    fn rotate3d(&mut self, a: T, ax: Vec3<T>) { self.rotate_3d(a, ax) }
    fn from_quat(q: Quaternion<T>) -> Self { $M::from(q) }
} )+ } }
rot3!(Rows3 Cols3 Rows4 Cols4);

fn block3<T: Copy>(m: &[Vec<T>]) -> Vec<Vec<T>> {
    (0..3).map(|i| (0..3).map(|j| m[i][j]).collect()).collect()
}
fn unit_tail<T: Sx>(m: &[Vec<T>]) {
    if m.len() == 4 {
        for i in 0..4 {
            goal(&format!("row3/col3 unit [{}]", i), and(vec![eq(m[3][i], k((i == 3) as i64)), eq(m[i][3], k((i == 3) as i64))]));
        }
    }
}
/// orthogonal, det +1
fn proper<T: Sx>(r: &[Vec<T>]) {
    let rt = transp(r);
    goals_mat("RtR=I", &matmul(&rt, r), &ident(3));
    goal("det=+1", eq(leibniz(r), k(1)));
}
fn axis_rotation<T: Sx, M: Rot3<T>>(axis: usize) {
    let a = var::<T>("a");
    let full = M::rot(axis, a).ent();
    unit_tail(&full);
    let r = block3(&full);
    proper(&r);
    let (s, c) = (a.sin(), a.cos());
    let e = |i: usize| -> Vec<T> { (0..3).map(|j| k::<T>((i == j) as i64)).collect() };
    goals_vec("fixes its axis", &matvec(&r, &e(axis)), &e(axis));
    // right-handed, counter-clockwise for positive angles: the next axis turns towards the one after it
    let (n1, n2) = ((axis + 1) % 3, (axis + 2) % 3);
    let mut want = vec![k::<T>(0); 3];
    want[n1] = c;
    want[n2] = s;
    goals_vec("ccw", &matvec(&r, &e(n1)), &want);
    // = rotation_3d about the unit axis
    let ax = v3(&e(axis));
    goals_mat("=rotation_3d(unit axis)", &M::rot3d(a, ax).ent(), &full);
}
fn axis_additive<T: Sx, M: Rot3<T>>(axis: usize) {
    let (a, b) = (var::<T>("a"), var::<T>("b"));
    let lhs = (M::rot(axis, a) * M::rot(axis, b)).ent();
    goals_mat("R(a)R(b)=R(a+b)", &lhs, &M::rot(axis, a + b).ent());
}
fn sym_axis<T: Sx>() -> Vec3<T> {
    let ax = v3(&sym_vec::<T>("u", 3));
    assume(ne(ax.x * ax.x + ax.y * ax.y + ax.z * ax.z, k(0)));
    ax
}
fn rotation_3d<T: Sx, M: Rot3<T>>() {
    let a = var::<T>("a");
    let ax = sym_axis::<T>();
    check_defined();
    let full = M::rot3d(a, ax).ent();
    unit_tail(&full);
    let r = block3(&full);
    proper(&r);
    let u = vec![ax.x, ax.y, ax.z];
    goals_vec("fixes its axis", &matvec(&r, &u), &u);
    // the axis need not be normalized: scaling it by any positive factor changes nothing
    let t = var::<T>("scale");
    assume(gt(t, k(0)));
    let r2 = M::rot3d(a, v3(&[ax.x * t, ax.y * t, ax.z * t])).ent();
    goals_mat("axis scale-invariant", &r2, &full);
}
fn rotation_3d_additive<T: Sx, M: Rot3<T>>() {
    let (a, b) = (var::<T>("a"), var::<T>("b"));
    let ax = sym_axis::<T>();
    let lhs = (M::rot3d(a, ax) * M::rot3d(b, ax)).ent();
    goals_mat("R(a)R(b)=R(a+b)", &lhs, &M::rot3d(a + b, ax).ent());
}
fn mat3_is_block_of_mat4<T: Sx, M3: Rot3<T>, M4: Rot3<T>>() {
    let a = var::<T>("a");
    for axis in 0..3 {
        goals_mat(&format!("axis{}", axis), &M3::rot(axis, a).ent(), &block3(&M4::rot(axis, a).ent()));
    }
    let ax = sym_axis::<T>();
    goals_mat("3d", &M3::rot3d(a, ax).ent(), &block3(&M4::rot3d(a, ax).ent()));
}
fn chained<T: Sx, M: Rot3<T>>() {
    let a = var::<T>("a");
    let m0 = M::of(&sym_mat::<T>("m", M::N));
    for axis in 0..3 {
        let want = (M::rot(axis, a) * m0).ent();
        goals_mat(&format!("rotated axis{}", axis), &m0.rotated(axis, a).ent(), &want);
        let mut x = m0;
        x.rotate(axis, a);
        goals_mat(&format!("rotate axis{}", axis), &x.ent(), &want);
    }
    let ax = sym_axis::<T>();
    let want = (M::rot3d(a, ax) * m0).ent();
    goals_mat("rotated_3d", &m0.rotated3d(a, ax).ent(), &want);
    let mut x = m0;
    x.rotate3d(a, ax);
    goals_mat("rotate_3d", &x.ent(), &want);
}
fn quat_vs_matrix<T: Sx, M: Rot3<T>>() {
    let a = var::<T>("a");
    let ax = sym_axis::<T>();
    let q = Quaternion::rotation_3d(a, ax);
    goal("unit", eq(q.x * q.x + q.y * q.y + q.z * q.z + q.w * q.w, k(1)));
    goals_mat("Mat::from(quat)=Mat::rotation_3d", &M::from_quat(q).ent(), &M::rot3d(a, ax).ent());
    for (axis, qq) in [Quaternion::rotation_x(a), Quaternion::rotation_y(a), Quaternion::rotation_z(a)].iter().enumerate() {
        goals_mat(&format!("axis{}", axis), &M::from_quat(*qq).ent(), &M::rot(axis, a).ent());
    }
}
fn quat_chained<T: Sx>() {
    let a = var::<T>("a");
    let q0 = Quaternion::from_xyzw(var::<T>("q0"), var::<T>("q1"), var::<T>("q2"), var::<T>("q3"));
    let ax = sym_axis::<T>();
    let qe = |q: Quaternion<T>| vec![q.x, q.y, q.z, q.w];
    let cases: Vec<(&str, Quaternion<T>, Quaternion<T>, Box<dyn Fn(&mut Quaternion<T>)>)> = vec![
        ("x", Quaternion::rotation_x(a) * q0, q0.rotated_x(a), Box::new(move |q| q.rotate_x(a))),
        ("y", Quaternion::rotation_y(a) * q0, q0.rotated_y(a), Box::new(move |q| q.rotate_y(a))),
        ("z", Quaternion::rotation_z(a) * q0, q0.rotated_z(a), Box::new(move |q| q.rotate_z(a))),
        ("3d", Quaternion::rotation_3d(a, ax) * q0, q0.rotated_3d(a, ax), Box::new(move |q| q.rotate_3d(a, ax))),
    ];
    for (n, want, got, f) in cases {
        goals_vec(&format!("rotated_{}", n), &qe(got), &qe(want));
        let mut x = q0;
        f(&mut x);
        goals_vec(&format!("rotate_{}", n), &qe(x), &qe(want));
    }
}
fn quat_additive<T: Sx>() {
    let (a, b) = (var::<T>("a"), var::<T>("b"));
    let ax = sym_axis::<T>();
    let qe = |q: Quaternion<T>| vec![q.x, q.y, q.z, q.w];
    goals_vec("q(a)q(b)=q(a+b)", &qe(Quaternion::rotation_3d(a, ax) * Quaternion::rotation_3d(b, ax)), &qe(Quaternion::rotation_3d(a + b, ax)));
}
fn mat2<T: Sx, M: MatOps<T> + Mul<M, Output = M> + Mul<Vec2<T>, Output = Vec2<T>> + Mat2Rot<T>>() {
    let (a, b) = (var::<T>("a"), var::<T>("b"));
    let r = M::rz(a).ent();
    let (s, c) = (a.sin(), a.cos());
    goals_mat("RtR=I", &matmul(&transp(&r), &r), &ident(2));
    goal("det=+1", eq(leibniz(&r), k(1)));
    goals_vec("ccw", &matvec(&r, &[k(1), k(0)]), &[c, s]);
    goals_mat("additive", &(M::rz(a) * M::rz(b)).ent(), &M::rz(a + b).ent());
    let m0 = M::of(&sym_mat::<T>("m", 2));
    let want = (M::rz(a) * m0).ent();
    goals_mat("rotated_z", &m0.rzd(a).ent(), &want);
    let mut x = m0;
    x.rz_mut(a);
    goals_mat("rotate_z", &x.ent(), &want);
    // Vec2::rotated_z agrees with the matrix
    let v = v2(&sym_vec::<T>("v", 2));
    let want = M::rz(a) * v;
    goals_vec("Vec2::rotated_z", &VL::ent(&v.rotated_z(a)), &VL::ent(&want));
    let mut w = v;
    w.rotate_z(a);
    goals_vec("Vec2::rotate_z", &VL::ent(&w), &VL::ent(&want));
}
pub trait Mat2Rot<T>: Sized {
    fn rz(a: T) -> Self;
    fn rzd(self, a: T) -> Self;
    fn rz_mut(&mut self, a: T);
}
macro_rules! m2r { ($($M:ident)+) => { $( impl<T: Sx> Mat2Rot<T> for $M<T> {
    fn rz(a: T) -> Self { $M::rotation_z(a) }
    fn rzd(self, a: T) -> Self { self.rotated_z(a) }
    fn rz_mut(&mut self, a: T) { self.rotate_z(a) }
} )+ } }
m2r!(Rows2 Cols2);
/// Mat3 in 2D use: rotation_z block equals Mat2::rotation_z
fn mat2_is_block<T: Sx>() {
    let a = var::<T>("a");
    let r3 = Cols3::<T>::rotation_z(a).ent();
    let r2 = Cols2::<T>::rotation_z(a).ent();
    for i in 0..2 {
        for j in 0..2 {
            goal(&format!("[{}][{}]", i, j), eq(r3[i][j], r2[i][j]));
        }
    }
}

pub fn register(v: &mut Vec<Scenario>) {
    macro_rules! per { ($($M:ident)+) => { $(
        for axis in 0..3usize {
            scen!(v, "C04", 0, format!("c04/axis{}/{}", axis, stringify!($M)), ["rotation_x", "rotation_y", "rotation_z", "rotation_3d"], axis_rotation::<$M<T_>>(axis));
            scen!(v, "C04", 0, format!("c04/axis{}_additive/{}", axis, stringify!($M)), ["rotation_x", "rotation_y", "rotation_z", "Mul"], axis_additive::<$M<T_>>(axis));
        }
        scen!(v, "C04", 0, concat!("c04/rotation_3d/", stringify!($M)), ["rotation_3d", "Vec3::normalized"], rotation_3d::<$M<T_>>());
        scen!(v, "C04", 0, concat!("c04/rotation_3d_additive/", stringify!($M)), ["rotation_3d", "Mul"], rotation_3d_additive::<$M<T_>>());
        scen!(v, "C04", 0, concat!("c04/chained/", stringify!($M)), ["rotated_x", "rotated_y", "rotated_z", "rotated_3d", "rotate_x", "rotate_y", "rotate_z", "rotate_3d"], chained::<$M<T_>>());
        scen!(v, "C04", 0, concat!("c04/quat_vs_matrix/", stringify!($M)), ["Quaternion::rotation_3d", "Quaternion::rotation_x", "Quaternion::rotation_y", "Quaternion::rotation_z", "Mat::from(Quaternion)"], quat_vs_matrix::<$M<T_>>());
    )+ } }
    per!(Rows3 Cols3 Rows4 Cols4);
    scen!(v, "C04", 0, "c04/mat3_block_of_mat4/rows", ["Mat3::rotation_*", "Mat4::rotation_*"], mat3_is_block_of_mat4::<Rows3<T_>, Rows4<T_>>());
    scen!(v, "C04", 0, "c04/mat3_block_of_mat4/cols", ["Mat3::rotation_*", "Mat4::rotation_*"], mat3_is_block_of_mat4::<Cols3<T_>, Cols4<T_>>());
    scen!(v, "C04", 0, "c04/quat_chained", ["Quaternion::rotated_*", "Quaternion::rotate_*"], quat_chained());
    scen!(v, "C04", 0, "c04/quat_additive", ["Quaternion::rotation_3d", "Quaternion::mul"], quat_additive());
    scen!(v, "C04", 0, "c04/mat2/Rows2", ["Mat2::rotation_z", "rotated_z", "rotate_z", "Vec2::rotated_z", "Vec2::rotate_z"], mat2::<Rows2<T_>>());
    scen!(v, "C04", 0, "c04/mat2/Cols2", ["Mat2::rotation_z", "rotated_z", "rotate_z", "Vec2::rotated_z", "Vec2::rotate_z"], mat2::<Cols2<T_>>());
    scen!(v, "C04", 0, "c04/mat2_block_of_mat3", ["Mat3::rotation_z", "Mat2::rotation_z"], mat2_is_block());
}
