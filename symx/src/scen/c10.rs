//! C10 — viewport projection, unprojection and the picking matrix are consistent.
use crate::core::*;
use crate::explore::Scenario;
use crate::mats::*;
use crate::real::Sx;
use std::ops::*;
use vek::geom::repr_c::Rect;

pub trait Vp<T>: MatOps<T> + Mul<Self, Output = Self> {
    fn w2v(no: bool, obj: Vec3<T>, mv: Self, pr: Self, vp: Rect<T, T>) -> Vec3<T>;
    fn v2w(no: bool, ray: Vec3<T>, mv: Self, pr: Self, vp: Rect<T, T>) -> Vec3<T>;
    fn pick(c: Vec2<T>, d: Vec2<T>, vp: Rect<T, T>) -> Self;
    fn mulv(self, v: Vec4<T>) -> Vec4<T>;
}
macro_rules! vp { ($($M:ident)+) => { $( impl<T: Sx> Vp<T> for $M<T> {
    fn w2v(no: bool, obj: Vec3<T>, mv: Self, pr: Self, vp: Rect<T, T>) -> Vec3<T> { if no { $M::world_to_viewport_no(obj, mv, pr, vp) } else { $M::world_to_viewport_zo(obj, mv, pr, vp) } }
    fn v2w(no: bool, ray: Vec3<T>, mv: Self, pr: Self, vp: Rect<T, T>) -> Vec3<T> { if no { $M::viewport_to_world_no(ray, mv, pr, vp) } else { $M::viewport_to_world_zo(ray, mv, pr, vp) } }
    fn pick(c: Vec2<T>, d: Vec2<T>, vp: Rect<T, T>) -> Self { $M::picking_region(c, d, vp) }
    fn mulv(self, v: Vec4<T>) -> Vec4<T> { self * v }
} )+ } }
vp!(Rows4 Cols4);

fn viewport<T: Sx>() -> Rect<T, T> {
    let vp = Rect { x: var::<T>("vx"), y: var::<T>("vy"), w: var::<T>("vw"), h: var::<T>("vh") };
    assume(ne(vp.w, k(0)));
    assume(ne(vp.h, k(0)));
    vp
}
fn picking<T: Sx, M: Vp<T>>() {
    let vp = viewport::<T>();
    let (c, d) = (v2(&[var::<T>("cx"), var::<T>("cy")]), v2(&[var::<T>("dx"), var::<T>("dy")]));
    assume(gt(d.x, k(0)));
    assume(gt(d.y, k(0)));
    check_defined();
    let m = M::pick(c, d, vp);
    let z = var::<T>("z");
    let half = T::q(1, 2);
    for sx in [-1i64, 1] {
        for sy in [-1i64, 1] {
            // corner of the window rectangle, in window coordinates, then in clip coordinates of the viewport
            let (wx, wy) = (c.x + k::<T>(sx) * d.x * half, c.y + k::<T>(sy) * d.y * half);
            let (cx, cy) = (k::<T>(2) * (wx - vp.x) / vp.w - k(1), k::<T>(2) * (wy - vp.y) / vp.h - k(1));
            let p = m.mulv(v4(&[cx, cy, z, k(1)]));
            goal(&format!("corner{}{}", sx, sy), and(vec![eq(p.x, k(sx)), eq(p.y, k(sy)), eq(p.z, z), eq(p.w, k(1))]));
        }
    }
}
/// perspective-divided clip position mapped to the viewport rectangle (harness formula)
fn project_formula<T: Sx, M: Vp<T>>(no: bool) {
    let (a, b) = (sym_mat::<T>("m", 4), sym_mat::<T>("p", 4));
    let vp = viewport::<T>();
    let x = sym_vec::<T>("x", 3);
    let clip = matvec(&b, &matvec(&a, &[x[0], x[1], x[2], k(1)]));
    assume(ne(clip[3], k(0)));
    let got = M::w2v(no, v3(&x), M::of(&a), M::of(&b), vp);
    let ndc: Vec<T> = (0..3).map(|i| clip[i] / clip[3]).collect();
    let half = T::q(1, 2);
    let want = [
        vp.x + (ndc[0] + k(1)) * half * vp.w,
        vp.y + (ndc[1] + k(1)) * half * vp.h,
        if no { (ndc[2] + k(1)) * half } else { ndc[2] },
    ];
    goals_vec("world_to_viewport", &VL::ent(&got), &want);
}
/// pattern: 0 affine model-view x frustum-pattern projection, 1 affine x orthographic pattern, 2 general x identity
fn roundtrip<T: Sx, M: Vp<T>>(no: bool, pattern: usize) {
    let z = k::<T>(0);
    let mut a = vec![vec![z; 4]; 4];
    let mut b = vec![vec![z; 4]; 4];
    match pattern {
        0 | 1 => {
            for i in 0..3 { for j in 0..4 { a[i][j] = var::<T>(&format!("m{}{}", i, j)); } }
            a[3][3] = k(1);
            if pattern == 0 {
                for (i, j) in [(0, 0), (0, 2), (1, 1), (1, 2), (2, 2), (2, 3), (3, 2)] { b[i][j] = var::<T>(&format!("p{}{}", i, j)); }
            } else {
                for (i, j) in [(0, 0), (0, 3), (1, 1), (1, 3), (2, 2), (2, 3)] { b[i][j] = var::<T>(&format!("p{}{}", i, j)); }
                b[3][3] = k(1);
            }
        }
        _ => {
            a = sym_mat::<T>("m", 4);
            b = ident::<T>(4);
        }
    }
    let vp = viewport::<T>();
    let x = sym_vec::<T>("x", 3);
    let pm = matmul(&b, &a);
    assume(ne(leibniz(&pm), k(0)));
    let clip = matvec(&pm, &[x[0], x[1], x[2], k(1)]);
    assume(ne(clip[3], k(0)));
    let (ma, mb) = (M::of(&a), M::of(&b));
    let w = M::w2v(no, v3(&x), ma, mb, vp);
    let back = M::v2w(no, w, ma, mb, vp);
    goals_vec("viewport_to_world(world_to_viewport(x))=x", &VL::ent(&back), &x);
}

pub fn register(v: &mut Vec<Scenario>) {
    macro_rules! per { ($($M:ident)+) => { $(
        scen!(v, "C10", 0, concat!("c10/picking_region/", stringify!($M)), ["Mat4::picking_region", "Mat4::scaling_3d", "Mat4::translation_3d", "Mul"], picking::<$M<T_>>());
        for no in [true, false] {
            let fl = if no { "no" } else { "zo" };
            scen!(v, "C10", 0, format!("c10/world_to_viewport_{}/{}", fl, stringify!($M)), ["Mat4::world_to_viewport_no", "Mat4::world_to_viewport_zo", "Vec4::from_point"], project_formula::<$M<T_>>(no));
            scen!(v, "C10", 0, format!("c10/roundtrip_{}/affine_x_frustum/{}", fl, stringify!($M)), ["Mat4::viewport_to_world_*", "Mat4::world_to_viewport_*", "Mat4::inverted"], roundtrip::<$M<T_>>(no, 0));
            scen!(v, "C10", 0, format!("c10/roundtrip_{}/affine_x_ortho/{}", fl, stringify!($M)), ["Mat4::viewport_to_world_*", "Mat4::world_to_viewport_*", "Mat4::inverted"], roundtrip::<$M<T_>>(no, 1));
            scen!(v, "C10", 1, format!("c10/roundtrip_{}/general_x_identity/{}", fl, stringify!($M)), ["Mat4::viewport_to_world_*", "Mat4::world_to_viewport_*", "Mat4::inverted"], roundtrip::<$M<T_>>(no, 2));
        }
    )+ } }
    per!(Rows4 Cols4);
}
