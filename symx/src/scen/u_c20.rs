// C20 — numeric lifts, casts, approx equality are per-element (feature-set sentence: not applicable).
// Included twice (S = SymU / S = Cu).
use crate::core::*;
use crate::mats::{transp, Cols2, Cols3, Cols4, Rows2, Rows3, Rows4, ML};
use crate::opq::{OpqPrim, UFm};
use crate::vecs::*;
use approx::{AbsDiffEq, RelativeEq, UlpsEq};
use num_traits::ops::overflowing::{OverflowingAdd, OverflowingMul, OverflowingSub};
use num_traits::{CheckedAdd, CheckedDiv, CheckedEuclid, CheckedMul, CheckedNeg, CheckedRem, CheckedSub, Euclid, Inv, SaturatingAdd, SaturatingMul, SaturatingSub, WrappingAdd, WrappingMul, WrappingNeg, WrappingSub};
use vek::geom::repr_c::{Aabb, Aabr, LineSegment2, LineSegment3, Rect, Rect3};
use vek::Quaternion;

type Entry = (String, &'static str, u8, Vec<&'static str>, Box<dyn Fn() + Send + Sync>);

fn app(name: &str, args: &[S]) -> S {
    <S as OpqPrim>::app(name, args)
}
fn p(name: &str, args: &[S]) -> Fm {
    <S as UFm>::p(name, args)
}
fn symv(pfx: &str, n: usize) -> Vec<S> {
    (0..n).map(|i| var::<S>(&format!("{}{}", pfx, i))).collect()
}
fn eqv(tag: &str, got: &[S], want: &[S]) {
    assert_eq!(got.len(), want.len(), "{}", tag);
    goal(tag, and(got.iter().zip(want).map(|(g, w)| eq(*g, *w)).collect()));
}
fn is(b: bool, f: Fm) -> Fm {
    iff(lit(b), f)
}

pub trait VL20: VK<S> + Copy {
    /// (name, result, per-lane ok predicate name, per-lane value function name, unary?)
    fn checked(which: usize, a: Self, b: Self) -> Option<Self>;
    fn plain(which: usize, a: Self, b: Self) -> Self;
    fn overflowing(which: usize, a: Self, b: Self) -> (Self, bool);
    fn zero_one(a: Self) -> (Vec<S>, Vec<S>, bool);
    fn az(which: usize, a: Self) -> (Option<Self>, bool);
    fn approx(which: usize, a: &Self, b: &Self, e: S, m: S) -> bool;
    fn zeroed_() -> Self;
}
macro_rules! vl20 { ($($V:ident)+) => { $( impl VL20 for $V<S> {
    fn checked(which: usize, a: Self, b: Self) -> Option<Self> {
        match which { 0 => a.checked_add(&b), 1 => a.checked_sub(&b), 2 => a.checked_mul(&b), 3 => a.checked_div(&b), 4 => a.checked_rem(&b), 5 => a.checked_neg(), 6 => a.checked_div_euclid(&b), _ => a.checked_rem_euclid(&b) }
    }
    fn plain(which: usize, a: Self, b: Self) -> Self {
        match which { 0 => a.wrapping_add(&b), 1 => a.wrapping_sub(&b), 2 => a.wrapping_mul(&b), 3 => a.wrapping_neg(), 4 => a.saturating_add(&b), 5 => a.saturating_sub(&b), 6 => a.saturating_mul(&b), 7 => a.inv(), 8 => a.div_euclid(&b), _ => a.rem_euclid(&b) }
    }
    fn overflowing(which: usize, a: Self, b: Self) -> (Self, bool) {
        match which { 0 => a.overflowing_add(&b), 1 => a.overflowing_sub(&b), _ => a.overflowing_mul(&b) }
    }
    fn zero_one(a: Self) -> (Vec<S>, Vec<S>, bool) {
        (<$V<S> as num_traits::Zero>::zero().ent(), <$V<S> as num_traits::One>::one().ent(), num_traits::Zero::is_zero(&a))
    }
    fn az(which: usize, a: Self) -> (Option<Self>, bool) {
        match which {
            0 => (Some(az::Cast::<$V<S>>::cast(a)), false), 1 => (az::CheckedCast::<$V<S>>::checked_cast(a), false), 2 => (Some(az::SaturatingCast::<$V<S>>::saturating_cast(a)), false),
            3 => (Some(az::WrappingCast::<$V<S>>::wrapping_cast(a)), false), 4 => { let (v, f) = az::OverflowingCast::<$V<S>>::overflowing_cast(a); (Some(v), f) } 5 => (Some(az::UnwrappedCast::<$V<S>>::unwrapped_cast(a)), false),
            6 => (Some(a.az::<S>()), false), 7 => (a.checked_as::<S>(), false), 8 => (Some(a.saturating_as::<S>()), false), 9 => (Some(a.wrapping_as::<S>()), false),
            10 => { let (v, f) = a.overflowing_as::<S>(); (Some(v), f) } _ => (Some(a.unwrapped_as::<S>()), false),
        }
    }
    fn approx(which: usize, a: &Self, b: &Self, e: S, m: S) -> bool {
        match which { 0 => a.abs_diff_eq(b, e), 1 => a.relative_eq(b, e, m), 2 => a.ulps_eq(b, e, 7), 3 => a.abs_diff_ne(b, e), _ => a.relative_ne(b, e, m) }
    }
    fn zeroed_() -> Self { <$V<S> as bytemuck::Zeroable>::zeroed() }
} )+ } }
vl20!(Vec2 Vec3 Vec4 Vec8 Vec16 Vec32 Vec64 Extent2 Extent3 Rgb Rgba Uv Uvw);

const CHK: [(&str, &str, &str, bool); 8] = [("checked_add", "ok_add", "cadd", false), ("checked_sub", "ok_sub", "csub", false), ("checked_mul", "ok_mul", "cmul", false), ("checked_div", "ok_div", "cdiv", false), ("checked_rem", "ok_rem", "crem", false), ("checked_neg", "ok_neg", "cneg", true), ("checked_div_euclid", "ok_div_euclid", "cdiv_euclid", false), ("checked_rem_euclid", "ok_rem_euclid", "crem_euclid", false)];
fn checked<V: VL20>(which: usize) {
    set_max_decisions(200);
    let (a, b) = (symv("a", V::N), symv("b", V::N));
    let (name, ok, f, unary) = CHK[which];
    let args = |i: usize| if unary { vec![a[i]] } else { vec![a[i], b[i]] };
    let r = V::checked(which, V::of(&a), V::of(&b));
    goal(&format!("{}: None exactly when some element is None", name), is(r.is_none(), or((0..V::N).map(|i| not(p(ok, &args(i)))).collect())));
    if let Some(v) = r {
        eqv(&format!("{}: per element", name), &v.ent(), &(0..V::N).map(|i| app(f, &args(i))).collect::<Vec<_>>());
    }
}
const PLAIN: [(&str, &str, bool); 10] = [("wrapping_add", "wadd", false), ("wrapping_sub", "wsub", false), ("wrapping_mul", "wmul", false), ("wrapping_neg", "wneg", true), ("saturating_add", "sadd", false), ("saturating_sub", "ssub", false), ("saturating_mul", "smul", false), ("inv", "inv", true), ("div_euclid", "div_euclid", false), ("rem_euclid", "rem_euclid", false)];
fn plain<V: VL20>() {
    let (a, b) = (symv("a", V::N), symv("b", V::N));
    for (w, (name, f, unary)) in PLAIN.iter().enumerate() {
        let got = V::plain(w, V::of(&a), V::of(&b)).ent();
        eqv(name, &got, &(0..V::N).map(|i| if *unary { app(f, &[a[i]]) } else { app(f, &[a[i], b[i]]) }).collect::<Vec<_>>());
    }
    let (z, o, _) = V::zero_one(V::of(&a));
    eqv("Zero::zero", &z, &vec![<S as num_traits::Zero>::zero(); V::N]);
    eqv("One::one", &o, &vec![<S as num_traits::One>::one(); V::N]);
    eqv("bytemuck zeroed", &V::zeroed_().ent(), &vec![<S as bytemuck::Zeroable>::zeroed(); V::N]);
}
fn is_zero<V: VL20>() {
    set_max_decisions(200);
    let a = symv("a", V::N);
    let (_, _, iz) = V::zero_one(V::of(&a));
    let z = <S as num_traits::Zero>::zero();
    goal("is_zero <=> every element equals zero", is(iz, and(a.iter().map(|x| eq(*x, z)).collect())));
}
fn overflowing<V: VL20>(which: usize, near: Option<bool>) {
    set_max_decisions(200);
    if let Some(first) = near { explore_near(first, 1); }
    let (a, b) = (symv("a", V::N), symv("b", V::N));
    let (name, f, flag) = [("overflowing_add", "oadd", "ovf_add"), ("overflowing_sub", "osub", "ovf_sub"), ("overflowing_mul", "omul", "ovf_mul")][which];
    let (v, fl) = V::overflowing(which, V::of(&a), V::of(&b));
    eqv(&format!("{}: per element", name), &v.ent(), &(0..V::N).map(|i| app(f, &[a[i], b[i]])).collect::<Vec<_>>());
    goal(&format!("{}: flag = OR of the element flags", name), is(fl, or((0..V::N).map(|i| p(flag, &[a[i], b[i]])).collect())));
}
fn az_casts<V: VL20>(which: usize) { az_casts_near::<V>(which, None) }
fn az_casts_near<V: VL20>(which: usize, near: Option<bool>) {
    set_max_decisions(200);
    if let Some(first) = near { explore_near(first, 1); }
    let a = symv("a", V::N);
    let names = ["az_cast", "az_ccast", "az_scast", "az_wcast", "az_ocast", "az_ucast"];
    let f = names[which % 6];
    let (r, fl) = V::az(which, V::of(&a));
    if which % 6 == 1 {
        goal("checked cast: None exactly when some element fails", is(r.is_none(), or(a.iter().map(|x| not(p("ok_cast", &[*x]))).collect())));
    }
    if let Some(v) = r {
        eqv("cast per element", &v.ent(), &a.iter().map(|x| app(f, &[*x])).collect::<Vec<_>>());
    }
    if which % 6 == 4 {
        goal("overflowing cast: flag = OR of the element flags", is(fl, or(a.iter().map(|x| p("ovf_cast", &[*x])).collect())));
    }
}
fn approx_fm(which: usize, a: &[S], b: &[S], e: S, m: S) -> Fm {
    let per = |i: usize| match which % 3 { 0 => p("abs_diff_eq", &[a[i], b[i], e]), 1 => p("relative_eq", &[a[i], b[i], e, m]), _ => p("ulps_eq_7", &[a[i], b[i], e]) };
    and((0..a.len()).map(per).collect())
}
fn approx_vec<V: VL20>(which: usize) {
    set_max_decisions(200);
    let (a, b) = (symv("a", V::N), symv("b", V::N));
    let (e, m) = (var::<S>("eps"), var::<S>("maxrel"));
    let r = V::approx(which, &V::of(&a), &V::of(&b), e, m);
    let f = approx_fm(which, &a, &b, e, m);
    goal("holds exactly when it holds for every pair of elements (epsilon passed through)", is(r, if which >= 3 { not(f) } else { f }));
}
macro_rules! approx_mat { ($fname:ident, $M:ident) => {
fn $fname(which: usize) {
    set_max_decisions(200);
    let n = <$M<S> as ML<S>>::N;
    let (a, b): (Vec<Vec<S>>, Vec<Vec<S>>) = ((0..n).map(|i| symv(&format!("a{}", i), n)).collect(), (0..n).map(|i| symv(&format!("b{}", i), n)).collect());
    let (e, m) = (var::<S>("eps"), var::<S>("maxrel"));
    let (ma, mb) = (<$M<S> as ML<S>>::of(&a), <$M<S> as ML<S>>::of(&b));
    let r = match which { 0 => ma.abs_diff_eq(&mb, e), 1 => ma.relative_eq(&mb, e, m), _ => ma.ulps_eq(&mb, e, 7) };
    goal("matrix approx = AND over all entries", is(r, approx_fm(which, &a.concat(), &b.concat(), e, m)));
    goal("default epsilons are the scalar's", and(vec![eq(<$M<S> as AbsDiffEq>::default_epsilon(), S::default_epsilon()), eq(<$M<S> as RelativeEq>::default_max_relative(), S::default_max_relative()), lit(<$M<S> as UlpsEq>::default_max_ulps() == S::default_max_ulps())]));
}
} }
approx_mat!(approx_rows2, Rows2);
approx_mat!(approx_cols2, Cols2);
approx_mat!(approx_rows3, Rows3);
approx_mat!(approx_cols3, Cols3);
approx_mat!(approx_rows4, Rows4);
approx_mat!(approx_cols4, Cols4);
fn approx_quat(which: usize) {
    set_max_decisions(200);
    let (a, b) = (symv("a", 4), symv("b", 4));
    let (e, m) = (var::<S>("eps"), var::<S>("maxrel"));
    let (qa, qb) = (Quaternion { x: a[0], y: a[1], z: a[2], w: a[3] }, Quaternion { x: b[0], y: b[1], z: b[2], w: b[3] });
    let r = match which { 0 => qa.abs_diff_eq(&qb, e), 1 => qa.relative_eq(&qb, e, m), _ => qa.ulps_eq(&qb, e, 7) };
    goal("quaternion approx = AND over x,y,z,w", is(r, approx_fm(which, &a, &b, e, m)));
}
fn casts_shapes() {
    let a = symv("a", 6);
    let c = |x: S| app("as_", &[x]);
    let r = Rect::new(a[0], a[1], a[2], a[3]).as_::<S, S>();
    eqv("Rect::as_", &[r.x, r.y, r.w, r.h], &[c(a[0]), c(a[1]), c(a[2]), c(a[3])]);
    let r3 = Rect3::new(a[0], a[1], a[2], a[3], a[4], a[5]).as_::<S, S>();
    eqv("Rect3::as_", &[r3.x, r3.y, r3.z, r3.w, r3.h, r3.d], &a.iter().map(|x| c(*x)).collect::<Vec<_>>());
    let b = Aabr { min: Vec2::of(&a[..2]), max: Vec2::of(&a[2..4]) }.as_::<S>();
    eqv("Aabr::as_", &[b.min.ent(), b.max.ent()].concat(), &a[..4].iter().map(|x| c(*x)).collect::<Vec<_>>());
    let b3 = Aabb { min: Vec3::of(&a[..3]), max: Vec3::of(&a[3..]) }.as_::<S>();
    eqv("Aabb::as_", &[b3.min.ent(), b3.max.ent()].concat(), &a.iter().map(|x| c(*x)).collect::<Vec<_>>());
    let l2 = LineSegment2 { start: Vec2::of(&a[..2]), end: Vec2::of(&a[2..4]) }.as_::<S>();
    eqv("LineSegment2::as_", &[l2.start.ent(), l2.end.ent()].concat(), &a[..4].iter().map(|x| c(*x)).collect::<Vec<_>>());
    let l3 = LineSegment3 { start: Vec3::of(&a[..3]), end: Vec3::of(&a[3..]) }.as_::<S>();
    eqv("LineSegment3::as_", &[l3.start.ent(), l3.end.ent()].concat(), &a.iter().map(|x| c(*x)).collect::<Vec<_>>());
}
/// matrix element casts: `as_` converts element (i,j) to element (i,j), in both layouts and all sizes
fn casts_mats() {
    macro_rules! one { ($M:ident) => {{
        let n = <$M<S> as ML<S>>::N;
        let a: Vec<Vec<S>> = (0..n).map(|i| symv(&format!("e{}", i), n)).collect();
        let got = <$M<S> as ML<S>>::of(&a).as_::<S>().ent();
        eqv(concat!(stringify!($M), "::as_"), &got.concat(), &a.concat().iter().map(|x| app("as_", &[*x])).collect::<Vec<_>>());
    }} }
    one!(Rows2); one!(Cols2); one!(Rows3); one!(Cols3); one!(Rows4); one!(Cols4);
}
fn mint_conv() {
    let a = symv("a", 4);
    let (v2, v3, v4) = (Vec2::of(&a[..2]), Vec3::of(&a[..3]), Vec4::of(&a));
    let m2: mint::Vector2<S> = v2.into();
    let p2: mint::Point2<S> = v2.into();
    eqv("Vec2 <-> mint::Vector2/Point2", &[vec![m2.x, m2.y, p2.x, p2.y], Vec2::from(m2).ent(), Vec2::from(p2).ent()].concat(), &[&a[..2], &a[..2], &a[..2], &a[..2]].concat());
    let m3: mint::Vector3<S> = v3.into();
    let p3: mint::Point3<S> = v3.into();
    eqv("Vec3 <-> mint::Vector3/Point3", &[vec![m3.x, m3.y, m3.z, p3.x, p3.y, p3.z], Vec3::from(m3).ent(), Vec3::from(p3).ent()].concat(), &[&a[..3], &a[..3], &a[..3], &a[..3]].concat());
    let m4: mint::Vector4<S> = v4.into();
    eqv("Vec4 <-> mint::Vector4", &[vec![m4.x, m4.y, m4.z, m4.w], Vec4::from(m4).ent()].concat(), &[&a[..], &a[..]].concat());
    let q = Quaternion { x: a[0], y: a[1], z: a[2], w: a[3] };
    let mq: mint::Quaternion<S> = q.into();
    let back = Quaternion::from(mq);
    eqv("Quaternion <-> mint::Quaternion", &[mq.v.x, mq.v.y, mq.v.z, mq.s, back.x, back.y, back.z, back.w], &[&a[..], &a[..]].concat());
}
macro_rules! mint_mat { ($fname:ident, $R:ident, $C:ident, $MR:ident, $MC:ident, $n:expr, ($($f:ident)+)) => {
fn $fname() {
    let a: Vec<Vec<S>> = (0..$n).map(|i| symv(&format!("e{}", i), $n)).collect();
    let (r, c) = (<$R<S> as ML<S>>::of(&a), <$C<S> as ML<S>>::of(&a));
    // mint row matrices list rows, mint column matrices list columns: all four conversions keep (i,j)
    let rows_of = |m: &mint::$MR<S>| -> Vec<S> { let mut v = vec![]; $( let l: [S; $n] = m.$f.into(); v.extend(l); )+ v };
    let cols_of = |m: &mint::$MC<S>| -> Vec<S> { let mut v = vec![]; $( let l: [S; $n] = m.$f.into(); v.extend(l); )+ v };
    let flat: Vec<S> = a.concat();
    let flat_t: Vec<S> = transp(&a).concat();
    let (rr, rc): (mint::$MR<S>, mint::$MC<S>) = (r.into(), r.into());
    let (cr, cc): (mint::$MR<S>, mint::$MC<S>) = (c.into(), c.into());
    eqv("rows -> mint row/col matrix", &[rows_of(&rr), cols_of(&rc)].concat(), &[flat.clone(), flat_t.clone()].concat());
    eqv("cols -> mint row/col matrix", &[rows_of(&cr), cols_of(&cc)].concat(), &[flat.clone(), flat_t.clone()].concat());
    eqv("mint -> rows", &[$R::from(rr).ent().concat(), $R::from(rc).ent().concat()].concat(), &[flat.clone(), flat.clone()].concat());
    eqv("mint -> cols", &[$C::from(cr).ent().concat(), $C::from(cc).ent().concat()].concat(), &[flat.clone(), flat.clone()].concat());
}
} }
mint_mat!(mint_mat2, Rows2, Cols2, RowMatrix2, ColumnMatrix2, 2, (x y));
mint_mat!(mint_mat3, Rows3, Cols3, RowMatrix3, ColumnMatrix3, 3, (x y z));
mint_mat!(mint_mat4, Rows4, Cols4, RowMatrix4, ColumnMatrix4, 4, (x y z w));

pub fn list() -> Vec<Entry> {
    let mut v: Vec<Entry> = vec![];
    macro_rules! per { ($tier:expr, $ovf:expr; $($V:ident)+) => { $(
        for w in 0..8usize { v.push((format!("c20/{}/{}", CHK[w].0, stringify!($V)), "C20", $tier, vec!["Checked* lifts", "CheckedEuclid"], Box::new(move || checked::<$V<S>>(w)))); }
        v.push((format!("c20/plain_lifts/{}", stringify!($V)), "C20", $tier, vec!["Wrapping*", "Saturating*", "Inv", "Euclid", "Zero", "One", "bytemuck::Zeroable"], Box::new(|| plain::<$V<S>>())));
        v.push((format!("c20/is_zero/{}", stringify!($V)), "C20", $tier, vec!["Zero::is_zero"], Box::new(|| is_zero::<$V<S>>())));
        if $ovf {
            for w in 0..3usize { v.push((format!("c20/overflowing/{}/{}", w, stringify!($V)), "C20", $tier, vec!["Overflowing* lifts"], Box::new(move || overflowing::<$V<S>>(w, None)))); }
            v.push((format!("c20/az/overflowing_cast/{}", stringify!($V)), "C20", $tier, vec!["az::OverflowingCast"], Box::new(|| az_casts::<$V<S>>(4))));
            v.push((format!("c20/az/overflowing_as/{}", stringify!($V)), "C20", $tier, vec!["V::overflowing_as"], Box::new(|| az_casts::<$V<S>>(10))));
        } else {
            // wide vectors: the all-`first` flag pattern and the N single-deviation patterns (see explore_near)
            for first in [true, false] {
                let tag = if first { "true" } else { "false" };
                for w in 0..3usize { v.push((format!("c20/overflowing_near_{}/{}/{}", tag, w, stringify!($V)), "C20", $tier, vec!["Overflowing* lifts"], Box::new(move || overflowing::<$V<S>>(w, Some(first))))); }
                v.push((format!("c20/az/overflowing_cast_near_{}/{}", tag, stringify!($V)), "C20", $tier, vec!["az::OverflowingCast"], Box::new(move || az_casts_near::<$V<S>>(4, Some(first)))));
                v.push((format!("c20/az/overflowing_as_near_{}/{}", tag, stringify!($V)), "C20", $tier, vec!["V::overflowing_as"], Box::new(move || az_casts_near::<$V<S>>(10, Some(first)))));
            }
        }
        for w in [0usize, 1, 2, 3, 5, 6, 7, 8, 9, 11] { v.push((format!("c20/az/{}/{}", w, stringify!($V)), "C20", $tier, vec!["az::Cast", "CheckedCast", "SaturatingCast", "WrappingCast", "UnwrappedCast", "V::az/checked_as/..."], Box::new(move || az_casts::<$V<S>>(w)))); }
        for w in 0..5usize { v.push((format!("c20/approx/{}/{}", ["abs_diff_eq", "relative_eq", "ulps_eq", "abs_diff_ne", "relative_ne"][w], stringify!($V)), "C20", $tier, vec!["AbsDiffEq", "RelativeEq", "UlpsEq"], Box::new(move || approx_vec::<$V<S>>(w)))); }
    )+ } }
    per!(0, true; Vec2 Vec3 Vec4 Extent2 Extent3 Rgb Rgba Uv Uvw);
    per!(0, false; Vec8 Vec16);
    per!(1, false; Vec32 Vec64);
    macro_rules! mats { ($($f:ident $n:literal),+) => { $( for w in 0..3usize { v.push((format!("c20/approx_mat/{}/{}", $n, ["abs_diff_eq", "relative_eq", "ulps_eq"][w]), "C20", 0, vec!["AbsDiffEq/RelativeEq/UlpsEq for Mat"], Box::new(move || $f(w)))); } )+ } }
    mats!(approx_rows2 "Rows2", approx_cols2 "Cols2", approx_rows3 "Rows3", approx_cols3 "Cols3", approx_rows4 "Rows4", approx_cols4 "Cols4");
    for w in 0..3usize { v.push((format!("c20/approx_quat/{}", ["abs_diff_eq", "relative_eq", "ulps_eq"][w]), "C20", 0, vec!["AbsDiffEq/RelativeEq/UlpsEq for Quaternion"], Box::new(move || approx_quat(w)))); }
    v.push(("c20/casts_shapes".into(), "C20", 0, vec!["Rect::as_", "Rect3::as_", "Aabr::as_", "Aabb::as_", "LineSegment*::as_"], Box::new(casts_shapes)));
    v.push(("c20/casts_mats".into(), "C20", 0, vec!["Mat2::as_", "Mat3::as_", "Mat4::as_"], Box::new(casts_mats)));
    v.push(("c20/mint/vectors".into(), "C20", 0, vec!["mint::Vector*/Point* <-> Vec*", "mint::Quaternion <-> Quaternion"], Box::new(mint_conv)));
    v.push(("c20/mint/mat2".into(), "C20", 0, vec!["mint::RowMatrix2/ColumnMatrix2 <-> Mat2"], Box::new(mint_mat2)));
    v.push(("c20/mint/mat3".into(), "C20", 0, vec!["mint::RowMatrix3/ColumnMatrix3 <-> Mat3"], Box::new(mint_mat3)));
    v.push(("c20/mint/mat4".into(), "C20", 0, vec!["mint::RowMatrix4/ColumnMatrix4 <-> Mat4"], Box::new(mint_mat4)));
    v
}
