//! C02 (exact-real part) — order-insensitive reductions and the per-lane real functions.
use crate::core::*;
use crate::explore::Scenario;
use crate::real::Sx;
use crate::vecs::*;
use num_traits::Float;

pub trait VR<T>: VK<T> + Copy {
    fn sums(self, o: Self) -> Vec<(&'static str, T)>;
    fn lanes(self) -> Vec<(&'static str, Vec<T>)>;
}
macro_rules! vr { ($($V:ident)+) => { $( impl<T: Sx> VR<T> for $V<T> {
    fn sums(self, o: Self) -> Vec<(&'static str, T)> {
        let it = || self.ent().into_iter();
        vec![("sum", self.sum()), ("product", self.product()), ("average", self.average()),
             ("Sum (by value)", it().map(|x| $V::broadcast(x)).sum::<$V<T>>().ent()[0]), ("Product (by value)", it().map(|x| $V::broadcast(x)).product::<$V<T>>().ent()[0]),
             ("dot*", (self * o).sum())]
    }
    fn lanes(self) -> Vec<(&'static str, Vec<T>)> {
        vec![("sqrt", self.sqrt().ent()), ("rsqrt", self.rsqrt().ent()), ("recip", self.recip().ent()), ("ceil", self.ceil().ent()), ("floor", self.floor().ent()), ("round", self.round().ent())]
    }
} )+ } }
vr!(Vec2 Vec3 Vec4 Vec8 Vec16 Vec32 Vec64 Extent2 Extent3 Rgb Rgba Uv Uvw);

fn reductions<T: Sx, V: VR<T>>() {
    let a: Vec<T> = (0..V::N).map(|i| var::<T>(&format!("a{}", i))).collect();
    let b: Vec<T> = (0..V::N).map(|i| var::<T>(&format!("b{}", i))).collect();
    let s = a.iter().fold(k::<T>(0), |x, y| x + *y);
    let p = a.iter().fold(k::<T>(1), |x, y| x * *y);
    let d = a.iter().zip(&b).fold(k::<T>(0), |x, (y, z)| x + *y * *z);
    let got = V::of(&a).sums(V::of(&b));
    let want = [s, p, s / k(V::N as i64), s, p, d];
    for ((n, g), w) in got.iter().zip(want.iter()) {
        goal(n, eq(*g, *w));
    }
}
fn real_lanes<T: Sx, V: VR<T>>() {
    let a: Vec<T> = (0..V::N).map(|i| var::<T>(&format!("a{}", i))).collect();
    let got = V::of(&a).lanes();
    let f: Vec<Box<dyn Fn(T) -> T>> = vec![Box::new(|x: T| x.sqrt()), Box::new(|x: T| x.sqrt().recip()), Box::new(|x: T| x.recip()), Box::new(|x: T| x.ceil()), Box::new(|x: T| x.floor()), Box::new(|x: T| x.round())];
    for ((n, g), f) in got.iter().zip(f.iter()) {
        goal(n, and(g.iter().zip(&a).map(|(x, y)| eq(*x, f(*y))).collect()));
    }
}

pub fn register(v: &mut Vec<Scenario>) {
    macro_rules! per { ($tier:expr; $($V:ident)+) => { $(
        scen!(v, "C02", $tier, concat!("c02/reductions/", stringify!($V)), ["sum", "product", "average", "Sum", "Product", "Mul+sum (dot)"], reductions::<$V<T_>>());
        scen!(v, "C02", $tier, concat!("c02/real_lanes/", stringify!($V)), ["sqrt", "rsqrt", "recip", "ceil", "floor", "round"], real_lanes::<$V<T_>>());
    )+ } }
    per!(0; Vec2 Vec3 Vec4 Vec8 Vec16 Extent2 Extent3 Rgb Rgba Uv Uvw);
    per!(1; Vec32 Vec64);
}
