//! C15 — Bézier extrema, bounding boxes, closest-point search and length bound the curve.
use crate::bez::*;
use crate::core::*;
use crate::explore::Scenario;
use crate::real::Sx;
use crate::scen::c14::{bernstein, bernstein_d};
use num_traits::Float;

/// control points with only `axis` symbolic (the other coordinates are 0: they do not enter the per-axis code)
fn axis_pts<T: Sx>(n: usize, dim: usize, axis: usize) -> Vec<Vec<T>> {
    (0..n).map(|i| (0..dim).map(|j| if j == axis { var::<T>(&format!("p{}", i)) } else { k(0) }).collect()).collect()
}
fn abs_le<T: Sx>(x: T, b: T) -> Fm {
    and(vec![le(x, b), le(-x, b)])
}
fn abs_gt<T: Sx>(x: T, b: T) -> Fm {
    or(vec![gt(x, b), gt(-x, b)])
}
/// (a, b, c) of the cubic's derivative a t^2 + b t + c, and its discriminant, as the code defines them
fn cubic_abc<T: Sx>(p: &[T]) -> (T, T, T, T) {
    let a = k::<T>(3) * (p[3] - k::<T>(3) * p[2] + k::<T>(3) * p[1] - p[0]);
    let b = k::<T>(6) * (p[2] - k::<T>(2) * p[1] + p[0]);
    let c = k::<T>(3) * (p[1] - p[0]);
    (a, b, c, b * b - k::<T>(4) * a * c)
}
fn inflections<T: Sx, B: Bz<T>>(axis: usize) {
    set_ite_mode(true);
    check_defined(); // every divisor on every path is non-zero for all control points (the epsilon tests guard them)
    let p = axis_pts::<T>(B::DEG + 1, B::DIM, axis);
    let c = B::of(&p);
    let ts = c.inflections(axis);
    let eps = T::epsilon();
    let col: Vec<T> = p.iter().map(|q| q[axis]).collect();
    for (i, t) in ts.iter().enumerate() {
        goal(&format!("t{} in [0,1]", i), and(vec![le(k(0), *t), le(*t, k(1))]));
        let d = bernstein_d(&p, *t)[axis];
        if B::DEG == 2 {
            goal(&format!("x'(t{}) = 0", i), eq(d, k(0)));
        } else {
            // exact zero on the main branches; within the code's own epsilon tests on the degenerate ones
            let (a, _, _, _) = cubic_abc(&col);
            goal(&format!("x'(t{}) = 0 up to the epsilon tests", i), or(vec![eq(d, k(0)), abs_le(d, eps * k(256)), abs_le(d * a * k(4), eps * k(256))]));
        }
    }
    if ts.is_empty() {
        note("no inflection reported on this path");
    }
}
/// completeness: outside the epsilon-neighbourhoods every zero of the derivative in (0,1) is reported
fn inflections_complete<T: Sx, B: Bz<T>>(axis: usize, exact_linear: bool) {
    set_ite_mode(true);
    let p = axis_pts::<T>(B::DEG + 1, B::DIM, axis);
    let col: Vec<T> = p.iter().map(|q| q[axis]).collect();
    nondegenerate::<T, B>(&col, exact_linear);
    let c = B::of(&p);
    let ts = c.inflections(axis);
    let z = var::<T>("z");
    assume(gt(z, k(0)));
    assume(lt(z, k(1)));
    assume(eq(bernstein_d(&p, z)[axis], k(0)));
    goal("every zero of the derivative in (0,1) is reported", or(ts.iter().map(|t| eq(*t, z)).collect()));
}
/// non-degeneracy: outside the epsilon-neighbourhoods in which the code deliberately approximates
fn nondegenerate<T: Sx, B: Bz<T>>(col: &[T], exact_linear: bool) {
    let eps = T::epsilon() * k(256); // 256 times the code's own tests: a retuned threshold is not an alarm
    if B::DEG == 2 {
        assume(abs_gt(col[0] - (col[1] + col[1]) + col[2], eps));
    } else {
        let (a, b, _c, disc) = cubic_abc(col);
        if exact_linear {
            assume(eq(a, k(0)));
            assume(abs_gt(b, eps));
        } else {
            assume(abs_gt(a, eps));
            assume(or(vec![lt(disc, k(0)), gt(disc, eps)]));
        }
    }
}
/// Fermat-reduced optimality: the returned parameter is in [0,1] and its coordinate is no worse than at
/// both ends and at every reported inflection. Together with soundness + completeness of the reported
/// inflections (separate scenarios) and Fermat's theorem (a differentiable function on [0,1] attains its
/// extrema at the ends or at interior zeros of the derivative — trusted mathematics) this is optimality.
/// `direct` additionally states optimality itself: x(t) <= x(u) for all u in [0,1].
fn extremum<T: Sx, B: Bz<T>>(axis: usize, max: bool, exact_linear: bool, direct: bool) {
    set_ite_mode(true);
    set_max_decisions(64);
    let p = axis_pts::<T>(B::DEG + 1, B::DIM, axis);
    let col: Vec<T> = p.iter().map(|q| q[axis]).collect();
    nondegenerate::<T, B>(&col, exact_linear);
    let c = B::of(&p);
    let t = if max { c.max_t(axis) } else { c.min_t(axis) };
    goal("t in [0,1]", and(vec![le(k(0), t), le(t, k(1))]));
    // coordinates through the curve's own evaluate() (its agreement with the Bernstein form is C14's subject),
    // so that these are the very terms the code compared on this path
    let xt = c.eval(t)[axis];
    let better = |y: T| if max { ge(xt, y) } else { le(xt, y) };
    goal("no worse than the start", better(col[0]));
    goal("no worse than the end", better(col[B::DEG]));
    for (i, tau) in c.inflections(axis).iter().enumerate() {
        goal(&format!("no worse than at inflection {}", i), better(c.eval(*tau)[axis]));
    }
    if direct {
        let u = var::<T>("u");
        let xu = bernstein(&p, u)[axis];
        goal("no point of the curve on [0,1] is beyond it", imp(and(vec![le(k(0), u), le(u, k(1))]), better(xu)));
    }
}
fn bounds_pair<T: Sx, B: Bz<T>>(axis: usize) {
    set_ite_mode(true);
    set_max_decisions(64);
    let p = axis_pts::<T>(B::DEG + 1, B::DIM, axis);
    let c = B::of(&p);
    let (lo, hi) = c.bounds_t(axis);
    goal("*_bounds = (min_*, max_*)", and(vec![eq(lo, c.min_t(axis)), eq(hi, c.max_t(axis))]));
}
fn bbox<T: Sx, B: Bz<T>>(axis: usize, three: bool) {
    set_ite_mode(true);
    set_max_decisions(64);
    let p = axis_pts::<T>(B::DEG + 1, B::DIM, axis);
    let col: Vec<T> = p.iter().map(|q| q[axis]).collect();
    nondegenerate::<T, B>(&col, false);
    let c = B::of(&p);
    let (mn, mx) = if three { c.aabb_().unwrap() } else { c.aabr_() };
    if axis >= mn.len() {
        return;
    }
    if B::DEG == 2 {
        let u = var::<T>("u");
        let xu = bernstein(&p, u)[axis];
        goal("contains every point of the curve on [0,1]", imp(and(vec![le(k(0), u), le(u, k(1))]), and(vec![le(mn[axis], xu), le(xu, mx[axis])])));
    } else {
        note("cubic: containment follows from the corners being the curve's coordinates at min_*/max_* (goal below) and the optimality of those parameters (c15/min_*, c15/max_* scenarios)");
    }
    // touches the curve on each side: the corners are curve coordinates at the extremal parameters
    let (tl, th) = (c.min_t(axis), c.max_t(axis));
    goal("touches the curve on each side", and(vec![eq(mn[axis], c.eval(tl)[axis]), eq(mx[axis], c.eval(th)[axis]), le(k(0), tl), le(tl, k(1)), le(k(0), th), le(th, k(1))]));
    for j in 0..mn.len() {
        if j != axis {
            goal(&format!("flat axis {}", j), and(vec![eq(mn[j], k(0)), eq(mx[j], k(0))]));
        }
    }
}
/// Non-interference: the per-axis functions read their own axis only. The curve is run twice, with the same
/// coordinates on `axis` and unrelated symbols on the other axes; the results must be the same terms. Together with
/// the per-axis scenarios (other axes = 0) this covers every axis of every curve type in the quick tier: a macro
/// invocation wired to the wrong field makes the second run depend on symbols the first never saw.
/// `which`: 0 = *_inflection(s), 1 = min_*, 2 = max_*.
fn axis_only<T: Sx, B: Bz<T>>(axis: usize, which: usize) {
    set_ite_mode(true);
    let p1 = crate::scen::c14::sym_pts::<T>("p", B::DEG + 1, B::DIM);
    let p2: Vec<Vec<T>> = p1.iter().enumerate().map(|(i, q)| (0..B::DIM).map(|j| if j == axis { q[j] } else { var::<T>(&format!("o{}{}", i, j)) }).collect()).collect();
    let run = |p: &[Vec<T>]| -> Vec<T> { let c = B::of(p); match which { 0 => c.inflections(axis), 1 => vec![c.min_t(axis)], _ => vec![c.max_t(axis)] } };
    let r1 = run(&p1);
    // the second run must follow the first one's path: a branch on a condition the first run never asked is
    // interference already (and would otherwise fork 46 x 46 paths)
    freeze_decisions(true);
    let r2 = catch(|| run(&p2));
    freeze_decisions(false);
    match r2 {
        Ok(r2) => {
            goal("same number of results whatever the other axes hold", lit(r1.len() == r2.len()));
            for i in 0..r1.len().min(r2.len()) {
                goal(&format!("result {} does not depend on the other axes", i), eq(r1[i], r2[i]));
            }
        }
        // (named like the result goal so that the native replay, which has no notion of frozen decisions, evaluates
        // the comparison itself on the counterexample)
        Err(_) => goal("result 0 does not depend on the other axes", lit(false)),
    }
}
/// Cut for one triangle inequality |u + v| <= |u| + |v| between the radicals `rs = sqrt(rad_s)`, `ru = sqrt(u.u)`,
/// `rv = sqrt(v.v)` (all built by the harness from `u`, `v`): Lagrange's identity and the sum-of-squares fact are
/// solver-checked lemmas (polynomial), then the inequality is decided with u.u, v.v, u.v and the radicand of the sum
/// abstracted to fresh variables (6 variables, degree 2). The proved inequality becomes a hypothesis of `into`.
fn triangle_cut<T: Sx>(tag: &str, into: &str, u: &[T], v: &[T], ru: T, rv: T, rs: T, rad_s: T) {
    let dot = |a: &[T], b: &[T]| a.iter().zip(b).fold(k::<T>(0), |s, (x, y)| s + *x * *y);
    let (aa, bb, dd) = (dot(u, u), dot(v, v), dot(u, v));
    let mut sos = k::<T>(0);
    let mut ws = vec![];
    for i in 0..u.len() {
        for j in i + 1..u.len() {
            let w = u[i] * v[j] - u[j] * v[i];
            ws.push(w);
            sos = sos + w * w;
        }
    }
    let (g_tri, g_sos) = (format!("{}tri/", tag), format!("{}sos/", tag));
    abstract_terms(&g_sos, &ws);
    lemma(&g_tri, &format!("{}lagrange |u|^2|v|^2-(u.v)^2 = sum of squared minors", tag), eq(aa * bb - dd * dd, sos));
    lemma(&g_tri, &format!("{}sum of squares >= 0", g_sos), ge(sos, k(0)));
    lemma(&g_tri, &format!("{}|u+v|^2 = |u|^2+|v|^2+2u.v", tag), eq(rad_s, aa + bb + k::<T>(2) * dd));
    abstract_terms(&g_tri, &[aa, bb, dd, rad_s, sos]);
    lemma(into, &format!("{}|u+v| <= |u|+|v|", g_tri), le(rs, ru + rv));
}
fn length<T: Sx, B: Bz<T>>(n: u16) {
    let p = crate::scen::c14::sym_pts::<T>("p", B::DEG + 1, B::DIM);
    let c = B::of(&p);
    let l = c.length(n);
    let norm2 = |a: &[T]| a.iter().fold(k::<T>(0), |s, x| s + *x * *x);
    let sub = |a: &[T], b: &[T]| -> Vec<T> { a.iter().zip(b).map(|(x, y)| *x - *y).collect() };
    let dist = |a: &[T], b: &[T]| norm2(&sub(a, b)).sqrt();
    let chord = dist(&p[B::DEG], &p[0]);
    let poly = (0..B::DEG).fold(k::<T>(0), |s, i| s + dist(&p[i + 1], &p[i]));
    // the samples the documentation promises (step_count + 1 equal parameter steps), at equal parameter steps; "len/" goals may use: the code's sum is the sum of the harness's segment radicals (L0, a solver-checked
    // lemma: equal radicands, hence equal roots) and one triangle inequality per step (cuts above)
    // (points taken through the curve's own `evaluate` — C14's subject — so that the radicands are the very terms
    // the code built and L0 is decided by congruence rather than by expanding 2(n+1) polynomials)
    let samples = |m: i64| -> Vec<Vec<T>> { (0..=m).map(|i| c.eval(T::q(i, m))).collect() };
    let m = n as i64 + 1;
    let pts = samples(m);
    let seg: Vec<T> = (1..=m as usize).map(|i| dist(&pts[i], &pts[i - 1])).collect();
    lemma("len/", "L0 length = sum of the sample-to-sample distances", eq(l, seg.iter().fold(k::<T>(0), |s, x| s + *x)));
    // chord: |P_k - P_0| <= |P_{k-1} - P_0| + |P_k - P_{k-1}| for k = 2..m
    let from0: Vec<T> = (0..=m as usize).map(|i| if i == 0 { k(0) } else { dist(&pts[i], &pts[0]) }).collect();
    for i in 2..=m as usize {
        let (u, v) = (sub(&pts[i - 1], &pts[0]), sub(&pts[i], &pts[i - 1]));
        triangle_cut(&format!("chord{}:", i), "len/", &u, &v, from0[i - 1], seg[i - 1], from0[i], norm2(&sub(&pts[i], &pts[0])));
    }
    lemma("len/", "L1 the last sample is the end point", eq(from0[m as usize], chord));
    goal("len/at least the chord", ge(l, chord));
    if n == 0 {
        // one segment: the chord itself, which the control polygon bounds by B::DEG - 1 triangle inequalities
        let from0p: Vec<T> = (0..=B::DEG).map(|i| if i == 0 { k(0) } else { dist(&p[i], &p[0]) }).collect();
        for i in 2..=B::DEG {
            let (u, v) = (sub(&p[i - 1], &p[0]), sub(&p[i], &p[i - 1]));
            triangle_cut(&format!("poly{}:", i), "len/", &u, &v, from0p[i - 1], dist(&p[i], &p[i - 1]), from0p[i], norm2(&sub(&p[i], &p[0])));
        }
    }
    goal("len/at most the control polygon", le(l, poly));
    if n <= 1 {
        let lf = c.length(2 * n + 1);
        let fine = samples(2 * m);
        let fseg: Vec<T> = (1..=2 * m as usize).map(|i| dist(&fine[i], &fine[i - 1])).collect();
        lemma("len/", "L0 refined length = sum of the refined distances", eq(lf, fseg.iter().fold(k::<T>(0), |s, x| s + *x)));
        for i in 1..=m as usize {
            // coarse segment i is split at the refined sample 2i-1
            let (u, v) = (sub(&fine[2 * i - 1], &fine[2 * i - 2]), sub(&fine[2 * i], &fine[2 * i - 1]));
            let coarse = dist(&fine[2 * i], &fine[2 * i - 2]);
            triangle_cut(&format!("refine{}:", i), "len/", &u, &v, fseg[2 * i - 2], fseg[2 * i - 1], coarse, norm2(&sub(&fine[2 * i], &fine[2 * i - 2])));
            lemma("len/", &format!("L2 coarse segment {} spans two refined ones", i), eq(coarse, seg[i - 1]));
        }
        goal("len/refinement by doubling does not decrease", ge(lf, l));
    }
}
/// bounded closest-point search: `steps` coarse samples, at most `max_decisions` refinement decisions
fn search<T: Sx, B: Bz<T>>(steps: u16, maxdec: usize) {
    set_max_decisions(maxdec);
    let p = crate::scen::c14::sym_pts::<T>("p", B::DEG + 1, B::DIM);
    let q: Vec<T> = (0..B::DIM).map(|j| var::<T>(&format!("q{}", j))).collect();
    let c = B::of(&p);
    // epsilon = 1/8: at most log2(1/(2*steps) / (1/8)) + 1 halvings
    let (t, pt) = c.search_steps(&q, steps, T::q(1, 8));
    let d2 = |a: &[T]| (0..a.len()).fold(k::<T>(0), |s, i| s + (a[i] - q[i]) * (a[i] - q[i]));
    goal("returned point = evaluate(returned parameter)", and((0..B::DIM).map(|j| eq(pt[j], bernstein(&p, t)[j])).collect()));
    goal("no farther than the end point", le(d2(&pt), d2(&p[B::DEG])));
    for i in 0..steps {
        let ti = T::q(i as i64, steps as i64);
        goal(&format!("no farther than coarse sample {}", i), le(d2(&pt), d2(&bernstein(&p, ti))));
    }
}

/// `binary_search_point` called directly with a caller-supplied broad phase (none, or one interior sample): the end
/// point is always a candidate, whatever `coarse` yields.
fn search_direct<T: Sx, B: Bz<T>>(which: usize, maxdec: usize) {
    set_max_decisions(maxdec);
    let p = crate::scen::c14::sym_pts::<T>("p", B::DEG + 1, B::DIM);
    let q: Vec<T> = (0..B::DIM).map(|j| var::<T>(&format!("q{}", j))).collect();
    let c = B::of(&p);
    let coarse: Vec<(T, Vec<T>)> = if which == 0 { vec![] } else { vec![(T::q(1, 2), bernstein(&p, T::q(1, 2)))] };
    let (t, pt) = c.search(&q, coarse.clone(), T::q(1, 4), T::q(1, 4)); // one halving: the broad phase is the subject here
    let d2 = |a: &[T]| (0..a.len()).fold(k::<T>(0), |s, i| s + (a[i] - q[i]) * (a[i] - q[i]));
    goal("returned point = evaluate(returned parameter)", and((0..B::DIM).map(|j| eq(pt[j], bernstein(&p, t)[j])).collect()));
    goal("no farther than the end point", le(d2(&pt), d2(&p[B::DEG])));
    for (i, (_, s)) in coarse.iter().enumerate() {
        goal(&format!("no farther than coarse sample {}", i), le(d2(&pt), d2(s)));
    }
}

pub fn register(v: &mut Vec<Scenario>) {
    macro_rules! per { ($($B:ident $dim:expr, $deg:expr);+) => { $(
        for axis in 0..$dim {
            let an = ["x", "y", "z"][axis];
            // quick tier: every quadratic instantiation, and for cubics one axis per curve type (the per-axis
            // code is one macro body instantiated per axis); thorough: everything
            let heavy: u8 = if $deg == 3 && !((stringify!($B) == "CubicBezier2" && axis == 0) || (stringify!($B) == "CubicBezier3" && axis == 2)) { 1 } else { 0 };
            let heavier: u8 = if $deg == 3 { 1 } else { 0 };
            scen!(v, "C15", 0, format!("c15/inflections/{}/{}", stringify!($B), an), ["*_inflection(s)"], inflections::<$B<T_>>(axis));
            scen!(v, "C15", 0, format!("c15/inflections_complete/{}/{}", stringify!($B), an), ["*_inflection(s)"], inflections_complete::<$B<T_>>(axis, false));
            if $deg == 3 { scen!(v, "C15", 0, format!("c15/inflections_complete_linear/{}/{}", stringify!($B), an), ["*_inflections"], inflections_complete::<$B<T_>>(axis, true)); }
            for max in [false, true] {
                scen!(v, "C15", heavy, format!("c15/{}_{}/{}", if max { "max" } else { "min" }, an, stringify!($B)), ["min_*", "max_*", "*_inflection(s)", "evaluate"], extremum::<$B<T_>>(axis, max, false, $deg == 2));
                if $deg == 3 {
                    scen!(v, "C15", heavy, format!("c15/{}_{}_linear_derivative/{}", if max { "max" } else { "min" }, an, stringify!($B)), ["min_*", "max_*", "*_inflections", "evaluate"], extremum::<$B<T_>>(axis, max, true, true));
                    scen!(v, "C15", 1, format!("c15/{}_{}_direct/{}", if max { "max" } else { "min" }, an, stringify!($B)), ["min_*", "max_*", "*_inflections", "evaluate"], extremum::<$B<T_>>(axis, max, false, true));
                }
            }
            // (needed only where the full per-axis scenarios are thorough-only: the other cubic axes)
            if heavy == 1 { for which in 0..3usize {
                scen!(v, "C15", 0, format!("c15/axis_only/{}/{}/{}", stringify!($B), an, ["inflections", "min", "max"][which]), ["*_inflection(s)", "min_*", "max_*"], axis_only::<$B<T_>>(axis, which));
            } }
            scen!(v, "C15", heavier, format!("c15/bounds_pair/{}/{}", stringify!($B), an), ["*_bounds"], bounds_pair::<$B<T_>>(axis));
            if axis < 2 { scen!(v, "C15", heavier, format!("c15/aabr/{}/{}", stringify!($B), an), ["aabr", "*_bounds", "evaluate"], bbox::<$B<T_>>(axis, false)); }
            if $dim == 3 { scen!(v, "C15", heavier, format!("c15/aabb/{}/{}", stringify!($B), an), ["aabb", "*_bounds", "evaluate"], bbox::<$B<T_>>(axis, true)); }
        }
        for n in [0u16, 1, 3] {
            scen!(v, "C15", if $dim == 2 && $deg == 2 && n == 0 { 0 } else { 1 }, format!("c15/length/{}/n{}", stringify!($B), n), ["length_by_discretization"], length::<$B<T_>>(n));
        }
        for steps in [1u16, 2] {
            scen!(v, "C15", if $dim == 2 && $deg == 2 && steps == 1 { 0 } else { 1 }, format!("c15/search/{}/steps{}", stringify!($B), steps), ["binary_search_point_by_steps", "binary_search_point"], search::<$B<T_>>(steps, 9 + steps as usize));
        }
        for which in 0..2usize {
            scen!(v, "C15", if $dim == 2 && $deg == 2 { 0 } else { 1 }, format!("c15/search_direct/{}/{}", stringify!($B), ["no_coarse_sample", "one_interior_sample"][which]), ["binary_search_point"], search_direct::<$B<T_>>(which, 8));
        }
        for steps in [1u16, 2, 3] {
            scen!(v, "C15", 1, format!("c15/searchT/{}/steps{}", stringify!($B), steps), ["binary_search_point_by_steps", "binary_search_point"], search::<$B<T_>>(steps, 11 + steps as usize));
        }
    )+ } }
    per!(QuadraticBezier2 2, 2; QuadraticBezier3 3, 2; CubicBezier2 2, 3; CubicBezier3 3, 3);
}
