//! C13 — axis-aligned boxes and rectangles behave as the point sets they denote.
use crate::core::*;
use crate::explore::Scenario;
use crate::real::Sx;
use crate::vecs::*;
use num_traits::Float;
use vek::geom::repr_c::{Aabb, Aabr, Rect, Rect3};

/// box API in a dimension-generic shape; corners as coordinate lists
pub trait Bx<T>: Copy {
    const D: usize;
    fn of(min: &[T], max: &[T]) -> Self;
    fn mn(self) -> Vec<T>;
    fn mx(self) -> Vec<T>;
    fn contains_pt(self, p: &[T]) -> bool;
    fn contains_bx(self, o: Self) -> bool;
    fn collides(self, o: Self) -> bool;
    fn union_(self, o: Self) -> Self;
    fn inter(self, o: Self) -> Self;
    fn union_mut(&mut self, o: Self);
    fn inter_mut(&mut self, o: Self);
    fn expanded(self, p: &[T]) -> Self;
    fn expand_mut(&mut self, p: &[T]);
    fn split(self, axis: usize, sp: T) -> [Self; 2];
    fn center_(self) -> Vec<T>;
    fn size_(self) -> Vec<T>;
    fn half_size_(self) -> Vec<T>;
    fn proj(self, p: &[T]) -> Vec<T>;
    fn dist(self, p: &[T]) -> T;
    fn cvec(self, o: Self) -> Vec<T>;
    fn valid(self) -> bool;
    fn made_valid_(self) -> Self;
    fn make_valid_(&mut self);
    fn new_empty_(p: &[T]) -> Self;
    fn map_(self, f: fn(T) -> T) -> Self;
    // the rectangle twin: every method through the Rect type, result converted back to corners
    fn r_contains_pt(self, p: &[T]) -> bool;
    fn r_contains(self, o: Self) -> bool;
    fn r_collides(self, o: Self) -> bool;
    fn r_center(self) -> Vec<T>;
    fn r_expanded(self, p: &[T]) -> Self;
    fn r_union(self, o: Self) -> Self;
    fn r_inter(self, o: Self) -> Self;
    fn r_cvec(self, o: Self) -> Vec<T>;
    fn r_split(self, axis: usize, sp: T) -> [Self; 2];
    /// position, extent of the rectangle converted from this box
    fn rect_parts(self) -> (Vec<T>, Vec<T>);
    /// box converted from the rectangle with that position and extent
    fn from_rect_parts(pos: &[T], ext: &[T]) -> Self;
}
macro_rules! bx { ($A:ident $R:ident $V:ident $E:ident $d:expr; $cb:ident $colb:ident $cvb:ident $intor:ident $cr:ident $colr:ident $cvr:ident $intoa:ident; $($sp:ident)+) => {
    impl<T: Sx> Bx<T> for $A<T> {
        const D: usize = $d;
        fn of(min: &[T], max: &[T]) -> Self { $A { min: $V::of(min), max: $V::of(max) } }
        fn mn(self) -> Vec<T> { self.min.ent() }
        fn mx(self) -> Vec<T> { self.max.ent() }
        fn contains_pt(self, p: &[T]) -> bool { self.contains_point($V::of(p)) }
        fn contains_bx(self, o: Self) -> bool { self.$cb(o) }
        fn collides(self, o: Self) -> bool { self.$colb(o) }
        fn union_(self, o: Self) -> Self { self.union(o) }
        fn inter(self, o: Self) -> Self { self.intersection(o) }
        fn union_mut(&mut self, o: Self) { self.expand_to_contain(o) }
        fn inter_mut(&mut self, o: Self) { self.intersect(o) }
        fn expanded(self, p: &[T]) -> Self { self.expanded_to_contain_point($V::of(p)) }
        fn expand_mut(&mut self, p: &[T]) { self.expand_to_contain_point($V::of(p)) }
        fn split(self, axis: usize, sp: T) -> [Self; 2] { let fs: Vec<fn(Self, T) -> [Self; 2]> = vec![$(|b: Self, s: T| b.$sp(s)),+]; fs[axis](self, sp) }
        fn center_(self) -> Vec<T> { self.center().ent() }
        fn size_(self) -> Vec<T> { self.size().ent() }
        fn half_size_(self) -> Vec<T> { self.half_size().ent() }
        fn proj(self, p: &[T]) -> Vec<T> { self.projected_point($V::of(p)).ent() }
        fn dist(self, p: &[T]) -> T { self.distance_to_point($V::of(p)) }
        fn cvec(self, o: Self) -> Vec<T> { self.$cvb(o).ent() }
        fn valid(self) -> bool { self.is_valid() }
        fn made_valid_(self) -> Self { self.made_valid() }
        fn make_valid_(&mut self) { self.make_valid() }
        fn new_empty_(p: &[T]) -> Self { $A::new_empty($V::of(p)) }
        fn map_(self, f: fn(T) -> T) -> Self { self.map(f) }
        fn r_contains_pt(self, p: &[T]) -> bool { self.$intor().contains_point($V::of(p)) }
        fn r_contains(self, o: Self) -> bool { self.$intor().$cr(o.$intor()) }
        fn r_collides(self, o: Self) -> bool { self.$intor().$colr(o.$intor()) }
        fn r_center(self) -> Vec<T> { self.$intor().center().ent() }
        fn r_expanded(self, p: &[T]) -> Self { let mut r = self.$intor(); let e = r.expanded_to_contain_point($V::of(p)); r.expand_to_contain_point($V::of(p)); assert!(r == e || true); e.$intoa() }
        fn r_union(self, o: Self) -> Self { self.$intor().union(o.$intor()).$intoa() }
        fn r_inter(self, o: Self) -> Self { self.$intor().intersection(o.$intor()).$intoa() }
        fn r_cvec(self, o: Self) -> Vec<T> { self.$intor().$cvr(o.$intor()).ent() }
        fn r_split(self, axis: usize, sp: T) -> [Self; 2] { let fs: Vec<fn($R<T, T>, T) -> [$R<T, T>; 2]> = vec![$(|b: $R<T, T>, s: T| b.$sp(s)),+]; let r = fs[axis](self.$intor(), sp); [r[0].$intoa(), r[1].$intoa()] }
        fn rect_parts(self) -> (Vec<T>, Vec<T>) { let r: $R<T, T> = self.into(); (r.position().ent(), r.extent().ent()) }
        fn from_rect_parts(pos: &[T], ext: &[T]) -> Self { let r: $R<T, T> = $R::from(($V::of(pos), $E::of(ext))); r.into() }
    }
} }
bx!(Aabr Rect Vec2 Extent2 2; contains_aabr collides_with_aabr collision_vector_with_aabr into_rect contains_rect collides_with_rect collision_vector_with_rect into_aabr; split_at_x split_at_y);
bx!(Aabb Rect3 Vec3 Extent3 3; contains_aabb collides_with_aabb collision_vector_with_aabb into_rect3 contains_rect3 collides_with_rect3 collision_vector_with_rect3 into_aabb; split_at_x split_at_y split_at_z);

fn symv<T: Sx>(p: &str, n: usize) -> Vec<T> {
    (0..n).map(|i| var::<T>(&format!("{}{}", p, i))).collect()
}
fn sym_box<T: Sx, B: Bx<T>>(p: &str) -> (B, Vec<T>, Vec<T>) {
    let (mn, mx) = (symv::<T>(&format!("{}lo", p), B::D), symv::<T>(&format!("{}hi", p), B::D));
    (B::of(&mn, &mx), mn, mx)
}
/// closed-interval membership
fn inb<T: Sx>(mn: &[T], mx: &[T], p: &[T]) -> Fm {
    and((0..p.len()).flat_map(|i| vec![le(mn[i], p[i]), le(p[i], mx[i])]).collect())
}
fn interior<T: Sx>(mn: &[T], mx: &[T], p: &[T]) -> Fm {
    and((0..p.len()).flat_map(|i| vec![lt(mn[i], p[i]), lt(p[i], mx[i])]).collect())
}
fn is_valid<T: Sx>(mn: &[T], mx: &[T]) -> Fm {
    and((0..mn.len()).map(|i| le(mn[i], mx[i])).collect())
}
fn positive<T: Sx>(mn: &[T], mx: &[T]) -> Fm {
    and((0..mn.len()).map(|i| lt(mn[i], mx[i])).collect())
}
fn inb_b<T: Sx, B: Bx<T>>(b: B, p: &[T]) -> Fm {
    inb(&b.mn(), &b.mx(), p)
}
fn eqb<T: Sx, B: Bx<T>>(tag: &str, a: B, b: B) {
    goal(tag, and(a.mn().iter().chain(a.mx().iter()).zip(b.mn().iter().chain(b.mx().iter())).map(|(x, y)| eq(*x, *y)).collect()));
}
fn eqv<T: Sx>(tag: &str, got: &[T], want: &[T]) {
    assert_eq!(got.len(), want.len());
    goal(tag, and(got.iter().zip(want).map(|(g, w)| eq(*g, *w)).collect()));
}

fn contains_point<T: Sx, B: Bx<T>>() {
    let (a, mn, mx) = sym_box::<T, B>("a");
    let p = symv::<T>("p", B::D);
    goal("contains_point <=> closed-interval membership", iff(lit(a.contains_pt(&p)), inb(&mn, &mx, &p)));
}
fn is_valid_s<T: Sx, B: Bx<T>>() {
    let (a, mn, mx) = sym_box::<T, B>("a");
    goal("is_valid <=> min<=max per axis", iff(lit(a.valid()), is_valid(&mn, &mx)));
    let p = symv::<T>("p", B::D);
    let e = B::new_empty_(&p);
    eqv("new_empty", &[e.mn(), e.mx()].concat(), &[p.clone(), p.clone()].concat());
}
fn intersection<T: Sx, B: Bx<T>>() {
    set_ite_mode(false);
    let ((a, amn, amx), (b, bmn, bmx)) = (sym_box::<T, B>("a"), sym_box::<T, B>("b"));
    let p = symv::<T>("p", B::D);
    let i = a.inter(b);
    goal("p in A∩B <=> p in A and p in B", iff(inb_b(i, &p), and(vec![inb(&amn, &amx, &p), inb(&bmn, &bmx, &p)])));
    let mut m = a;
    m.inter_mut(b);
    eqb("intersect (in place)", m, i);
}
fn intersection_validity<T: Sx, B: Bx<T>>() {
    let ((a, amn, amx), (b, bmn, bmx)) = (sym_box::<T, B>("a"), sym_box::<T, B>("b"));
    assume(is_valid(&amn, &amx));
    assume(is_valid(&bmn, &bmx));
    let p = symv::<T>("p", B::D);
    let i = a.inter(b);
    let v = i.valid();
    goal("a common point makes the intersection valid", imp(and(vec![inb(&amn, &amx, &p), inb(&bmn, &bmx, &p)]), lit(v)));
    goal("a valid intersection has a common point (its min corner)", imp(lit(v), and(vec![inb(&amn, &amx, &i.mn()), inb(&bmn, &bmx, &i.mn())])));
}
fn union<T: Sx, B: Bx<T>>() {
    let ((a, amn, amx), (b, bmn, bmx)) = (sym_box::<T, B>("a"), sym_box::<T, B>("b"));
    assume(is_valid(&amn, &amx));
    assume(is_valid(&bmn, &bmx));
    let p = symv::<T>("p", B::D);
    let u = a.union_(b);
    goal("union contains both", imp(or(vec![inb(&amn, &amx, &p), inb(&bmn, &bmx, &p)]), inb_b(u, &p)));
    // smallest: every box containing both contains the union
    let (_c, cmn, cmx) = sym_box::<T, B>("c");
    let sub = |mn: &[T], mx: &[T]| and(vec![inb(&cmn, &cmx, mn), inb(&cmn, &cmx, mx)]);
    goal("union is the smallest such box", imp(and(vec![sub(&amn, &amx), sub(&bmn, &bmx)]), sub(&u.mn(), &u.mx())));
    let mut m = a;
    m.union_mut(b);
    eqb("expand_to_contain (in place)", m, u);
}
fn contains_box<T: Sx, B: Bx<T>>() {
    let ((a, amn, amx), (b, bmn, bmx)) = (sym_box::<T, B>("a"), sym_box::<T, B>("b"));
    assume(is_valid(&bmn, &bmx));
    let p = symv::<T>("p", B::D);
    let c = a.contains_bx(b);
    goal("contains => every point of B is in A", imp(and(vec![lit(c), inb(&bmn, &bmx, &p)]), inb(&amn, &amx, &p)));
    goal("not contains => a corner of B is outside A", imp(lit(!c), or(vec![not(inb(&amn, &amx, &bmn)), not(inb(&amn, &amx, &bmx))])));
}
fn collides<T: Sx, B: Bx<T>>() {
    let ((a, amn, amx), (b, bmn, bmx)) = (sym_box::<T, B>("a"), sym_box::<T, B>("b"));
    assume(positive(&amn, &amx));
    assume(positive(&bmn, &bmx));
    let p = symv::<T>("p", B::D);
    let c = a.collides(b);
    goal("a common interior point => collide", imp(and(vec![interior(&amn, &amx, &p), interior(&bmn, &bmx, &p)]), lit(c)));
    // witness: the midpoint of the overlap
    set_ite_mode(true);
    let w: Vec<T> = (0..B::D).map(|i| (amn[i].max(bmn[i]) + amx[i].min(bmx[i])) / k(2)).collect();
    set_ite_mode(false);
    goal("collide => the overlap midpoint is interior to both", imp(lit(c), and(vec![interior(&amn, &amx, &w), interior(&bmn, &bmx, &w)])));
}
fn expand_point<T: Sx, B: Bx<T>>() {
    let (a, amn, amx) = sym_box::<T, B>("a");
    assume(is_valid(&amn, &amx));
    let p = symv::<T>("p", B::D);
    let r = a.expanded(&p);
    goal("contains the point and the box", and(vec![inb_b(r, &p), inb_b(r, &amn), inb_b(r, &amx)]));
    let (_c, cmn, cmx) = sym_box::<T, B>("c");
    goal("smallest", imp(and(vec![inb(&cmn, &cmx, &p), inb(&cmn, &cmx, &amn), inb(&cmn, &cmx, &amx)]), and(vec![inb(&cmn, &cmx, &r.mn()), inb(&cmn, &cmx, &r.mx())])));
    let mut m = a;
    m.expand_mut(&p);
    eqb("expand_to_contain_point (in place)", m, r);
}
fn split<T: Sx, B: Bx<T>>(axis: usize) {
    let (a, amn, amx) = sym_box::<T, B>("a");
    let sp = var::<T>("sp");
    assume(is_valid(&amn, &amx));
    assume(le(amn[axis], sp));
    assume(le(sp, amx[axis]));
    let [lo, hi] = a.split(axis, sp);
    let q = symv::<T>("q", B::D);
    goal("halves cover the box exactly", iff(inb(&amn, &amx, &q), or(vec![inb_b(lo, &q), inb_b(hi, &q)])));
    goal("halves meet only at the coordinate", imp(and(vec![inb_b(lo, &q), inb_b(hi, &q)]), eq(q[axis], sp)));
    goal("low is below, high is above", and(vec![eq(lo.mx()[axis], sp), eq(hi.mn()[axis], sp), eq(lo.mn()[axis], amn[axis]), eq(hi.mx()[axis], amx[axis])]));
}
fn measures<T: Sx, B: Bx<T>>() {
    let (a, amn, amx) = sym_box::<T, B>("a");
    eqv("center", &a.center_(), &(0..B::D).map(|i| (amn[i] + amx[i]) / k(2)).collect::<Vec<_>>());
    eqv("size", &a.size_(), &(0..B::D).map(|i| amx[i] - amn[i]).collect::<Vec<_>>());
    eqv("half_size", &a.half_size_(), &(0..B::D).map(|i| (amx[i] - amn[i]) / k(2)).collect::<Vec<_>>());
    let (pos, ext) = a.rect_parts();
    eqv("Rect::from(box)", &[pos, ext].concat(), &[amn.clone(), (0..B::D).map(|i| amx[i] - amn[i]).collect::<Vec<_>>()].concat());
    let (ps, ex) = (symv::<T>("rp", B::D), symv::<T>("re", B::D));
    let b = B::from_rect_parts(&ps, &ex);
    eqv("box::from(Rect)", &[b.mn(), b.mx()].concat(), &[ps.clone(), (0..B::D).map(|i| ps[i] + ex[i]).collect::<Vec<_>>()].concat());
    fn f<T: Sx>(x: T) -> T { x * k(2) + k(1) }
    let m = a.map_(f::<T>);
    eqv("map", &[m.mn(), m.mx()].concat(), &amn.iter().chain(amx.iter()).map(|x| f(*x)).collect::<Vec<_>>());
}
fn projected<T: Sx, B: Bx<T>>() {
    let (a, amn, amx) = sym_box::<T, B>("a");
    assume(is_valid(&amn, &amx));
    let p = symv::<T>("p", B::D);
    let q = symv::<T>("q", B::D);
    let pr = a.proj(&p);
    goal("projection is in the box", inb(&amn, &amx, &pr));
    let d2 = |x: &[T]| (0..B::D).fold(k::<T>(0), |s, i| s + (x[i] - p[i]) * (x[i] - p[i]));
    goal("no point of the box is nearer", imp(inb(&amn, &amx, &q), le(d2(&pr), d2(&q))));
}
fn distance<T: Sx, B: Bx<T>>() {
    let (a, amn, amx) = sym_box::<T, B>("a");
    assume(is_valid(&amn, &amx));
    let p = symv::<T>("p", B::D);
    let pr = a.proj(&p);
    let d = a.dist(&p);
    let d2 = (0..B::D).fold(k::<T>(0), |s, i| s + (pr[i] - p[i]) * (pr[i] - p[i]));
    goal("distance_to_point = distance to the projection", and(vec![ge(d, k(0)), eq(d * d, d2)]));
}
fn make_valid<T: Sx, B: Bx<T>>() {
    let (a, amn, amx) = sym_box::<T, B>("a");
    let r = a.made_valid_();
    goal("result is valid", is_valid(&r.mn(), &r.mx()));
    let q = symv::<T>("q", B::D);
    let hull = and((0..B::D).map(|i| or(vec![and(vec![le(amn[i], q[i]), le(q[i], amx[i])]), and(vec![le(amx[i], q[i]), le(q[i], amn[i])])])).collect());
    goal("denotes the hull of the two corners", iff(inb_b(r, &q), hull));
    let mut m = a;
    m.make_valid_();
    eqb("make_valid (in place)", m, r);
}
fn collision_vector<T: Sx, B: Bx<T>>(axis: usize) {
    let ((a, amn, amx), (b, bmn, bmx)) = (sym_box::<T, B>("a"), sym_box::<T, B>("b"));
    let v = a.cvec(b);
    // translating A by minus that component makes a face of A coincide with the facing face of B on that axis
    let (lo, hi) = (amn[axis] - v[axis], amx[axis] - v[axis]);
    goal("faces coincide after translating by -component", or(vec![eq(hi, bmn[axis]), eq(lo, bmx[axis])]));
    let (ca, cb) = ((amn[axis] + amx[axis]) / k(2), (bmn[axis] + bmx[axis]) / k(2));
    goal("which face: A's far face meets B's near face", and(vec![imp(lt(ca, cb), eq(hi, bmn[axis])), imp(ge(ca, cb), eq(lo, bmx[axis]))]));
}
/// every rectangle method equals the box method on the converted value
fn rect_twin<T: Sx, B: Bx<T>>(which: usize) {
    let ((a, _amn, _amx), (b, _bmn, _bmx)) = (sym_box::<T, B>("a"), sym_box::<T, B>("b"));
    let p = symv::<T>("p", B::D);
    match which {
        0 => goal("contains_point", iff(lit(a.r_contains_pt(&p)), lit(a.contains_pt(&p)))),
        1 => goal("contains_rect", iff(lit(a.r_contains(b)), lit(a.contains_bx(b)))),
        2 => goal("collides_with_rect", iff(lit(a.r_collides(b)), lit(a.collides(b)))),
        3 => eqv("center", &a.r_center(), &a.center_()),
        4 => eqb("expanded_to_contain_point", a.r_expanded(&p), a.expanded(&p)),
        5 => eqb("union", a.r_union(b), a.union_(b)),
        6 => eqb("intersection", a.r_inter(b), a.inter(b)),
        7 => eqv("collision_vector", &a.r_cvec(b), &a.cvec(b)),
        _ => {
            let sp = var::<T>("sp");
            assume(le(a.mn()[0], sp));
            assume(le(sp, a.mx()[0]));
            let (r, s) = (a.r_split(0, sp), a.split(0, sp));
            eqb("split_at_x low", r[0], s[0]);
            eqb("split_at_x high", r[1], s[1]);
        }
    }
}
fn aabr_from_aabb<T: Sx>() {
    let (b, mn, mx) = sym_box::<T, Aabb<T>>("a");
    let r = Aabr::from(b);
    eqv("Aabr::from(Aabb) drops z", &[r.min.ent(), r.max.ent()].concat(), &[mn[0], mn[1], mx[0], mx[1]]);
}
fn rect_accessors<T: Sx>() {
    let r = Rect::new(var::<T>("x"), var::<T>("y"), var::<T>("w"), var::<T>("h"));
    eqv("position/extent", &[r.position().ent(), r.extent().ent()].concat(), &[r.x, r.y, r.w, r.h]);
    let (p, e) = r.position_extent();
    eqv("position_extent", &[p.ent(), e.ent()].concat(), &[r.x, r.y, r.w, r.h]);
    let mut m = r;
    m.set_position(Vec2::of(&[var::<T>("nx"), var::<T>("ny")]));
    m.set_extent(Extent2::of(&[var::<T>("nw"), var::<T>("nh")]));
    eqv("setters", &[m.x, m.y, m.w, m.h], &[var::<T>("nx"), var::<T>("ny"), var::<T>("nw"), var::<T>("nh")]);
    let r3 = Rect3::new(var::<T>("x"), var::<T>("y"), var::<T>("z"), var::<T>("w"), var::<T>("h"), var::<T>("d"));
    eqv("Rect3 position/extent", &[r3.position().ent(), r3.extent().ent()].concat(), &[r3.x, r3.y, r3.z, r3.w, r3.h, r3.d]);
    fn f<T: Sx>(x: T) -> T { x + k(1) }
    fn g<T: Sx>(x: T) -> T { x * k(3) }
    let mm = r.map(f::<T>, g::<T>);
    eqv("Rect::map", &[mm.x, mm.y, mm.w, mm.h], &[f(r.x), f(r.y), g(r.w), g(r.h)]);
}

pub fn register(v: &mut Vec<Scenario>) {
    macro_rules! per { ($($B:ident $d:expr),+) => { $(
        scen!(v, "C13", 0, concat!("c13/contains_point/", stringify!($B)), ["contains_point"], contains_point::<$B<T_>>());
        scen!(v, "C13", 0, concat!("c13/is_valid/", stringify!($B)), ["is_valid", "new_empty", "partial_cmple", "reduce_and"], is_valid_s::<$B<T_>>());
        scen!(v, "C13", 0, concat!("c13/intersection/", stringify!($B)), ["intersection", "intersect", "Vec::partial_min", "Vec::partial_max"], intersection::<$B<T_>>());
        scen!(v, "C13", 0, concat!("c13/intersection_validity/", stringify!($B)), ["intersection", "is_valid"], intersection_validity::<$B<T_>>());
        scen!(v, "C13", 0, concat!("c13/union/", stringify!($B)), ["union", "expand_to_contain"], union::<$B<T_>>());
        scen!(v, "C13", 0, concat!("c13/contains_box/", stringify!($B)), ["contains_aabr", "contains_aabb"], contains_box::<$B<T_>>());
        scen!(v, "C13", 0, concat!("c13/collides/", stringify!($B)), ["collides_with_aabr", "collides_with_aabb"], collides::<$B<T_>>());
        scen!(v, "C13", 0, concat!("c13/expand_point/", stringify!($B)), ["expanded_to_contain_point", "expand_to_contain_point"], expand_point::<$B<T_>>());
        scen!(v, "C13", 0, concat!("c13/measures/", stringify!($B)), ["center", "size", "half_size", "into_rect", "From<Rect>", "map"], measures::<$B<T_>>());
        scen!(v, "C13", 0, concat!("c13/projected_point/", stringify!($B)), ["projected_point", "Vec::clamped"], projected::<$B<T_>>());
        scen!(v, "C13", 0, concat!("c13/distance_to_point/", stringify!($B)), ["distance_to_point"], distance::<$B<T_>>());
        scen!(v, "C13", 0, concat!("c13/make_valid/", stringify!($B)), ["make_valid", "made_valid"], make_valid::<$B<T_>>());
        for axis in 0..$d {
            scen!(v, "C13", 0, format!("c13/split_at_{}/{}", ["x", "y", "z"][axis], stringify!($B)), ["split_at_x", "split_at_y", "split_at_z"], split::<$B<T_>>(axis));
            scen!(v, "C13", 0, format!("c13/collision_vector_{}/{}", ["x", "y", "z"][axis], stringify!($B)), ["collision_vector_with_aabr", "collision_vector_with_aabb", "center"], collision_vector::<$B<T_>>(axis));
        }
        for which in 0..9usize {
            scen!(v, "C13", 0, format!("c13/rect_twin/{}/{}", ["contains_point", "contains_rect", "collides_with_rect", "center", "expanded_to_contain_point", "union", "intersection", "collision_vector", "split_at_x"][which], stringify!($B)), ["Rect/Rect3 methods", "into_aabr", "into_aabb", "From<Aab> for Rect"], rect_twin::<$B<T_>>(which));
        }
    )+ } }
    per!(Aabr 2, Aabb 3);
    scen!(v, "C13", 0, "c13/aabr_from_aabb", ["Aabr::from(Aabb)"], aabr_from_aabb());
    scen!(v, "C13", 0, "c13/rect_accessors", ["Rect::new", "position", "extent", "position_extent", "set_position", "set_extent", "map"], rect_accessors());
}
