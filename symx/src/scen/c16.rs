//! C16 — disks, spheres, segments, rays: containment, distance and hit queries are exact.
use crate::core::*;
use crate::explore::Scenario;
use crate::mats::leibniz;
use crate::real::Sx;
use crate::vecs::*;
use num_traits::Float;
use vek::geom::repr_c::{Disk, LineSegment2, LineSegment3, Ray, Sphere};

fn symv<T: Sx>(p: &str, n: usize) -> Vec<T> {
    (0..n).map(|i| var::<T>(&format!("{}{}", p, i))).collect()
}
fn eqv<T: Sx>(tag: &str, got: &[T], want: &[T]) {
    assert_eq!(got.len(), want.len());
    goal(tag, and(got.iter().zip(want).map(|(g, w)| eq(*g, *w)).collect()));
}
fn d2<T: Sx>(a: &[T], b: &[T]) -> T {
    (0..a.len()).fold(k::<T>(0), |s, i| s + (a[i] - b[i]) * (a[i] - b[i]))
}
fn dot<T: Sx>(a: &[T], b: &[T]) -> T {
    (0..a.len()).fold(k::<T>(0), |s, i| s + a[i] * b[i])
}
pub trait Ball<T>: Copy {
    const D: usize;
    fn of(c: &[T], r: T) -> Self;
    fn contains(self, p: &[T]) -> bool;
    fn collides(self, o: Self) -> bool;
    fn cvec(self, o: Self) -> Vec<T>;
    fn rect_(self) -> (Vec<T>, Vec<T>);
    fn aab_(self) -> (Vec<T>, Vec<T>);
    fn diameter_(self) -> T;
    fn measures(self) -> Vec<T>;
    fn ctors(c: &[T], r: T) -> Vec<(Vec<T>, T)>;
}
impl<T: Sx> Ball<T> for Disk<T, T> {
    const D: usize = 2;
    fn of(c: &[T], r: T) -> Self { Disk { center: Vec2::of(c), radius: r } }
    fn contains(self, p: &[T]) -> bool { self.contains_point(Vec2::of(p)) }
    fn collides(self, o: Self) -> bool { self.collides_with_disk(o) }
    fn cvec(self, o: Self) -> Vec<T> { self.collision_vector_with_disk(o).ent() }
    fn rect_(self) -> (Vec<T>, Vec<T>) { let r = self.rect(); (r.position().ent(), r.extent().ent()) }
    fn aab_(self) -> (Vec<T>, Vec<T>) { let a = self.aabr(); (a.min.ent(), a.max.ent()) }
    fn diameter_(self) -> T { self.diameter() }
    fn measures(self) -> Vec<T> { vec![self.circumference(), self.area()] }
    fn ctors(c: &[T], r: T) -> Vec<(Vec<T>, T)> { [Disk::new(Vec2::of(c), r), Disk::unit(Vec2::of(c)), Disk::point(Vec2::of(c))].iter().map(|d| (d.center.ent(), d.radius)).collect() }
}
impl<T: Sx> Ball<T> for Sphere<T, T> {
    const D: usize = 3;
    fn of(c: &[T], r: T) -> Self { Sphere { center: Vec3::of(c), radius: r } }
    fn contains(self, p: &[T]) -> bool { self.contains_point(Vec3::of(p)) }
    fn collides(self, o: Self) -> bool { self.collides_with_sphere(o) }
    fn cvec(self, o: Self) -> Vec<T> { self.collision_vector_with_sphere(o).ent() }
    fn rect_(self) -> (Vec<T>, Vec<T>) { let r = self.rect3(); (r.position().ent(), r.extent().ent()) }
    fn aab_(self) -> (Vec<T>, Vec<T>) { let a = self.aabb(); (a.min.ent(), a.max.ent()) }
    fn diameter_(self) -> T { self.diameter() }
    fn measures(self) -> Vec<T> { vec![self.surface_area(), self.volume()] }
    fn ctors(c: &[T], r: T) -> Vec<(Vec<T>, T)> { [Sphere::new(Vec3::of(c), r), Sphere::unit(Vec3::of(c)), Sphere::point(Vec3::of(c))].iter().map(|d| (d.center.ent(), d.radius)).collect() }
}
fn ball_contains<T: Sx, B: Ball<T>>() {
    let (c, r, p) = (symv::<T>("c", B::D), var::<T>("r"), symv::<T>("p", B::D));
    assume(ge(r, k(0)));
    goal("contains_point <=> |p-c|^2 <= r^2", iff(lit(B::of(&c, r).contains(&p)), le(d2(&p, &c), r * r)));
}
fn ball_collides<T: Sx, B: Ball<T>>() {
    let (c1, r1, c2, r2) = (symv::<T>("c", B::D), var::<T>("r"), symv::<T>("e", B::D), var::<T>("s"));
    assume(ge(r1, k(0)));
    assume(ge(r2, k(0)));
    goal("collide <=> |c1-c2|^2 <= (r1+r2)^2", iff(lit(B::of(&c1, r1).collides(B::of(&c2, r2))), le(d2(&c1, &c2), (r1 + r2) * (r1 + r2))));
}
fn ball_bounds<T: Sx, B: Ball<T>>() {
    let (c, r) = (symv::<T>("c", B::D), var::<T>("r"));
    let b = B::of(&c, r);
    let (pos, ext) = b.rect_();
    eqv("rect = centre - r, extent 2r", &[pos, ext].concat(), &[c.iter().map(|x| *x - r).collect::<Vec<_>>(), vec![r + r; B::D]].concat());
    let (mn, mx) = b.aab_();
    eqv("aab = centre -+ r", &[mn, mx].concat(), &[c.iter().map(|x| *x - r).collect::<Vec<_>>(), c.iter().map(|x| *x + r).collect::<Vec<_>>()].concat());
    goal("diameter", eq(b.diameter_(), r * k(2)));
    let pi = T::PI();
    let m = b.measures();
    if B::D == 2 {
        eqv("circumference, area", &m, &[pi * r * k(2), pi * r * r]);
    } else {
        eqv("surface_area, volume", &[m[0], m[1] * k(3)], &[pi * r * r * k(4), pi * r * r * r * k(4)]);
    }
    let cs = B::ctors(&c, r);
    eqv("new/unit/point", &cs.iter().flat_map(|(cc, rr)| { let mut v = cc.clone(); v.push(*rr); v }).collect::<Vec<_>>(), &[c.clone(), vec![r], c.clone(), vec![k(1)], c.clone(), vec![k(0)]].concat());
}
fn ball_collision_vector<T: Sx, B: Ball<T>>() {
    let (c1, r1, c2, r2) = (symv::<T>("c", B::D), var::<T>("r"), symv::<T>("e", B::D), var::<T>("s"));
    assume(ge(r1, k(0)));
    assume(ge(r2, k(0)));
    assume(ne(d2(&c1, &c2), k(0)));
    check_defined();
    let v = B::of(&c1, r1).cvec(B::of(&c2, r2));
    // moving the other shape by the vector leaves the two exactly tangent
    let moved: Vec<T> = (0..B::D).map(|i| c2[i] + v[i]).collect();
    goal("tangent after moving the other shape", eq(d2(&c1, &moved), (r1 + r2) * (r1 + r2)));
    // ... along the line of centres, on the same side
    let w: Vec<T> = (0..B::D).map(|i| c2[i] - c1[i]).collect();
    let m: Vec<T> = (0..B::D).map(|i| moved[i] - c1[i]).collect();
    goal("stays on the line of centres, same side", and(vec![ge(dot(&w, &m), k(0)), eq(dot(&w, &m) * dot(&w, &m), dot(&w, &w) * dot(&m, &m))]));
}
pub trait Seg<T>: Copy {
    const D: usize;
    fn of(a: &[T], b: &[T]) -> Self;
    fn proj(self, p: &[T]) -> Vec<T>;
    fn dist(self, p: &[T]) -> T;
    fn roundtrip(self) -> (Vec<T>, Vec<T>);
}
macro_rules! seg { ($S:ident $V:ident $d:expr) => { impl<T: Sx> Seg<T> for $S<T> {
    const D: usize = $d;
    fn of(a: &[T], b: &[T]) -> Self { $S { start: $V::of(a), end: $V::of(b) } }
    fn proj(self, p: &[T]) -> Vec<T> { self.projected_point($V::of(p)).ent() }
    fn dist(self, p: &[T]) -> T { self.distance_to_point($V::of(p)) }
    fn roundtrip(self) -> (Vec<T>, Vec<T>) { let r = self.into_range(); let s = $S::from(r); (s.start.ent(), s.end.ent()) }
} } }
seg!(LineSegment2 Vec2 2);
seg!(LineSegment3 Vec3 3);
fn segment_projection<T: Sx, S: Seg<T>>() {
    set_ite_mode(true);
    let (a, b, p) = (symv::<T>("a", S::D), symv::<T>("b", S::D), symv::<T>("p", S::D));
    let s = S::of(&a, &b);
    let q = s.proj(&p);
    let len2 = d2(&a, &b);
    let eps = T::epsilon();
    let ab: Vec<T> = (0..S::D).map(|i| b[i] - a[i]).collect();
    let aq: Vec<T> = (0..S::D).map(|i| q[i] - a[i]).collect();
    // the property fixes no tolerance for "degenerate": a zero-length segment must give its only point, every result
    // must lie on the segment, and the nearest-point law is demanded outside 256 EPS of zero length (vek treats
    // len^2 <= EPS as degenerate and answers `start`, which is on the segment but not the nearest point)
    let slack = eps * k(256);
    goal("zero-length segment -> its only point", imp(eq(len2, k(0)), and((0..S::D).map(|i| eq(q[i], a[i])).collect())));
    // on the segment: parallel to it and between the ends
    let mut par = vec![];
    for i in 0..S::D { for j in i + 1..S::D { par.push(eq(aq[i] * ab[j], aq[j] * ab[i])); } }
    goal("lies on the segment", and(vec![and(par), ge(dot(&aq, &ab), k(0)), le(dot(&aq, &ab), len2)]));
    let lam = var::<T>("lam");
    let c: Vec<T> = (0..S::D).map(|i| a[i] + lam * ab[i]).collect();
    goal("no point of the segment is nearer", imp(and(vec![gt(len2, slack), ge(lam, k(0)), le(lam, k(1))]), le(d2(&q, &p), d2(&c, &p))));
}
fn segment_distance<T: Sx, S: Seg<T>>() {
    set_ite_mode(true);
    let (a, b, p) = (symv::<T>("a", S::D), symv::<T>("b", S::D), symv::<T>("p", S::D));
    let s = S::of(&a, &b);
    let (q, d) = (s.proj(&p), s.dist(&p));
    goal("distance_to_point = distance to the projection", and(vec![ge(d, k(0)), eq(d * d, d2(&q, &p))]));
    let (x, y) = s.roundtrip();
    eqv("range conversions", &[x, y].concat(), &[a, b].concat());
}
fn ray_triangle<T: Sx>() {
    let (o, d) = (symv::<T>("o", 3), symv::<T>("d", 3));
    let tri: Vec<Vec<T>> = (0..3).map(|i| symv::<T>(&format!("v{}_", i), 3)).collect();
    let ray = Ray::new(Vec3::of(&o), Vec3::of(&d));
    let res = ray.triangle_intersection([Vec3::of(&tri[0]), Vec3::of(&tri[1]), Vec3::of(&tri[2])]);
    // Cramer: o + t*d = v0 + u*e1 + v*e2   <=>   [e1 e2 -d] (u v t)^T = s
    let e1: Vec<T> = (0..3).map(|i| tri[1][i] - tri[0][i]).collect();
    let e2: Vec<T> = (0..3).map(|i| tri[2][i] - tri[0][i]).collect();
    let s: Vec<T> = (0..3).map(|i| o[i] - tri[0][i]).collect();
    let nd: Vec<T> = d.iter().map(|x| -*x).collect();
    let cols = |c0: &[T], c1: &[T], c2: &[T]| -> Vec<Vec<T>> { (0..3).map(|r| vec![c0[r], c1[r], c2[r]]).collect() };
    let det = leibniz(&cols(&e1, &e2, &nd));
    let (du, dv, dt) = (leibniz(&cols(&s, &e2, &nd)), leibniz(&cols(&e1, &s, &nd)), leibniz(&cols(&e1, &e2, &s)));
    let eps = T::epsilon();
    // u >= 0 <=> du*det >= 0 ; v >= 0 <=> dv*det >= 0 ; u+v <= 1 <=> (du+dv)*det <= det^2      (det != 0)
    let inside = and(vec![ge(du * det, k(0)), ge(dv * det, k(0)), le((du + dv) * det, det * det)]);
    // "non-parallelly": the property fixes no tolerance, so the goals do not pin vek's epsilon test — a hit needs a
    // non-zero determinant, and a miss of a crossing inside the triangle is excused only within 256 EPS of parallel
    let nonparallel = ne(det, k(0));
    let slack = eps * k(256);
    match res {
        Some(t) => {
            goal("Some => non-parallel and inside or on the boundary", and(vec![nonparallel, inside]));
            goal("Some(t): t is the line parameter of the crossing", eq(t * det, dt));
            let hit: Vec<T> = (0..3).map(|i| o[i] + t * d[i]).collect();
            // the crossing point, in the triangle's own coordinates: det*(hit - v0) = du*e1 + dv*e2
            goal("origin + t*direction is the crossing point", and((0..3).map(|i| eq((hit[i] - tri[0][i]) * det, du * e1[i] + dv * e2[i])).collect()));
        }
        None => {
            goal("None => nearly parallel or outside", or(vec![and(vec![gt(det, -slack), lt(det, slack)]), not(inside)]));
        }
    }
}

pub fn register(v: &mut Vec<Scenario>) {
    macro_rules! balls { ($($B:ident)+) => { $(
        scen!(v, "C16", 0, concat!("c16/contains_point/", stringify!($B)), ["contains_point", "distance"], ball_contains::<$B<T_, T_>>());
        scen!(v, "C16", 0, concat!("c16/collides/", stringify!($B)), ["collides_with_disk", "collides_with_sphere"], ball_collides::<$B<T_, T_>>());
        scen!(v, "C16", 0, concat!("c16/bounds_measures/", stringify!($B)), ["rect", "rect3", "aabr", "aabb", "diameter", "circumference", "area", "surface_area", "volume", "new", "unit", "point"], ball_bounds::<$B<T_, T_>>());
        scen!(v, "C16", 0, concat!("c16/collision_vector/", stringify!($B)), ["collision_vector_with_disk", "collision_vector_with_sphere"], ball_collision_vector::<$B<T_, T_>>());
    )+ } }
    balls!(Disk Sphere);
    macro_rules! segs { ($($S:ident)+) => { $(
        scen!(v, "C16", 0, concat!("c16/projected_point/", stringify!($S)), ["projected_point"], segment_projection::<$S<T_>>());
        scen!(v, "C16", 0, concat!("c16/distance_to_point/", stringify!($S)), ["distance_to_point", "into_range", "From<Range>"], segment_distance::<$S<T_>>());
    )+ } }
    segs!(LineSegment2 LineSegment3);
    scen!(v, "C16", 0, "c16/ray_triangle", ["Ray::triangle_intersection", "Ray::new"], ray_triangle());
}
