//! Scenario registry. One module per property.
use crate::explore::Scenario;

#[macro_export]
macro_rules! scen {
    ($reg:expr, $prop:literal, $tier:expr, $name:expr, [$($f:literal),*], $func:ident $(::<$($G:ty),*>)? ( $($arg:expr),* )) => {
        $reg.push($crate::explore::Scenario {
            name: $name.to_string(), prop: $prop, tier: $tier, funcs: vec![$($f),*],
            sym: Box::new(move || { #[allow(dead_code)] type T_ = $crate::real::SymR; $func::<T_ $($(, $G)*)?>($($arg),*) }),
            f64_: Some(Box::new(move || { #[allow(dead_code)] type T_ = f64; $func::<T_ $($(, $G)*)?>($($arg),*) })),
            cn: Some(Box::new(move || { #[allow(dead_code)] type T_ = $crate::real::Cn; $func::<T_ $($(, $G)*)?>($($arg),*) })),
            extra: vec![], max_paths: 4096, timeout: None,
        });
    };
}

/// Opaque-scalar scenario bodies are written once over a type alias `S` and included twice:
/// `S = SymU` (symbolic run) and `S = Cu` (native replay in a concrete random model).
macro_rules! ubody {
    ($m:ident, $file:literal) => {
        pub mod $m {
            #[allow(deprecated)]
            pub mod sym {
                #[allow(dead_code)]
                pub type S = crate::opq::SymU;
                include!($file);
            }
            #[allow(deprecated)]
            pub mod conc {
                #[allow(dead_code)]
                pub type S = crate::opq::Cu;
                include!($file);
            }
            pub fn register(v: &mut Vec<crate::explore::Scenario>) {
                for ((name, prop, tier, funcs, fs), (name2, _, _, _, fc)) in sym::list().into_iter().zip(conc::list()) {
                    assert_eq!(name, name2);
                    v.push(crate::explore::Scenario { name, prop, tier, funcs, sym: fs, f64_: None, cn: Some(fc), extra: vec![], max_paths: 8192, timeout: None });
                }
            }
        }
    };
}
ubody!(c02u, "u_c02.rs");
ubody!(c03u, "u_c03.rs");
ubody!(c19u, "u_c19.rs");
ubody!(c20u, "u_c20.rs");
pub mod c01;
pub mod c02;
pub mod c04;
pub mod c05;
pub mod c06;
pub mod c07;
pub mod c08;
pub mod c09;
pub mod c10;
pub mod c11;
pub mod c12;
pub mod c13;
pub mod c14;
pub mod c15;
pub mod c16;
pub mod c17;
pub mod c17i;
pub mod c19;

pub fn all() -> Vec<Scenario> {
    let mut v = vec![];
    c01::register(&mut v);
    c02u::register(&mut v);
    c02::register(&mut v);
    c03u::register(&mut v);
    c04::register(&mut v);
    c05::register(&mut v);
    c06::register(&mut v);
    c07::register(&mut v);
    c08::register(&mut v);
    c09::register(&mut v);
    c10::register(&mut v);
    c11::register(&mut v);
    c12::register(&mut v);
    c13::register(&mut v);
    c14::register(&mut v);
    c15::register(&mut v);
    c16::register(&mut v);
    c17::register(&mut v);
    c17i::register(&mut v);
    c17i::register_c13(&mut v);
    c17i::register_c02(&mut v);
    c17i::register_c11(&mut v);
    c17i::register_c16(&mut v);
    c19u::register(&mut v);
    c19::register(&mut v);
    c20u::register(&mut v);
    v
}
