//! C07 — affine builders and Transform act on points as defined and chain in call order.
use crate::core::*;
use crate::explore::Scenario;
use crate::mats::*;
use crate::real::Sx;
use num_traits::Float;
use std::ops::*;
use vek::{Quaternion, Transform};

/// the harness's own definition of each step as a map on a coordinate list
fn rot_axis<T: Sx>(axis: usize, a: T, p: &[T]) -> Vec<T> {
    let (s, c) = (a.sin(), a.cos());
    let (i, j) = ((axis + 1) % 3, (axis + 2) % 3);
    let mut o = p.to_vec();
    o[i] = c * p[i] - s * p[j];
    o[j] = s * p[i] + c * p[j];
    o
}
/// Rodrigues' formula about the unit vector u
fn rot_3d<T: Sx>(a: T, u: &[T], p: &[T]) -> Vec<T> {
    let (s, c) = (a.sin(), a.cos());
    let dot = u[0] * p[0] + u[1] * p[1] + u[2] * p[2];
    let cr = [u[1] * p[2] - u[2] * p[1], u[2] * p[0] - u[0] * p[2], u[0] * p[1] - u[1] * p[0]];
    let mut o = p.to_vec();
    for i in 0..3 {
        o[i] = p[i] * c + cr[i] * s + u[i] * dot * (k::<T>(1) - c);
    }
    o
}
fn unit_axis<T: Sx>(tag: &str) -> (Vec3<T>, Vec<T>) {
    let a = sym_vec::<T>(&format!("u{}_", tag), 3);
    let n2 = a[0] * a[0] + a[1] * a[1] + a[2] * a[2];
    assume(ne(n2, k(0)));
    let r = n2.sqrt();
    (v3(&a), vec![a[0] / r, a[1] / r, a[2] / r])
}

// ---- Mat4 --------------------------------------------------------------------------------------
pub trait Aff4<T>: MatOps<T> + Mul<Self, Output = Self> {
    fn ctor(step: usize, tag: &str) -> (Self, Box<dyn Fn(&[T]) -> Vec<T>>);
    fn ed(self, step: usize, tag: &str) -> (Self, Box<dyn Fn(&[T]) -> Vec<T>>);
    fn inplace(&mut self, step: usize, tag: &str);
    fn mulv(self, v: Vec4<T>) -> Vec4<T>;
    fn mul_pt(self, p: Vec3<T>) -> Vec3<T>;
    fn mul_dir(self, p: Vec3<T>) -> Vec3<T>;
    fn from_transform(t: Transform<T, T, T>) -> Self;
}
pub const STEPS4: [&str; 7] = ["translated_3d", "translated_2d", "scaled_3d", "rotated_x", "rotated_y", "rotated_z", "rotated_3d"];
macro_rules! aff4 { ($($M:ident)+) => { $( impl<T: Sx> Aff4<T> for $M<T> {
    fn ctor(step: usize, tag: &str) -> (Self, Box<dyn Fn(&[T]) -> Vec<T>>) {
        let v = sym_vec::<T>(&format!("{}{}_", ["t", "d", "s", "ax", "ay", "az", "a3"][step], tag), 3);
        let a = v[0];
        match step {
            0 => ($M::translation_3d(v3(&v)), Box::new(move |p| vec![p[0] + v[0] * p[3], p[1] + v[1] * p[3], p[2] + v[2] * p[3], p[3]])),
            1 => ($M::translation_2d(v2(&v)), Box::new(move |p| vec![p[0] + v[0] * p[3], p[1] + v[1] * p[3], p[2], p[3]])),
            2 => ($M::scaling_3d(v3(&v)), Box::new(move |p| vec![p[0] * v[0], p[1] * v[1], p[2] * v[2], p[3]])),
            3 | 4 | 5 => ($M::rotation_x(a).pick(step - 3, a), Box::new(move |p| { let mut o = rot_axis(step - 3, a, &p[..3]); o.push(p[3]); o })),
            _ => { let (ax, u) = unit_axis::<T>(tag); ($M::rotation_3d(a, ax), Box::new(move |p| { let mut o = rot_3d(a, &u, &p[..3]); o.push(p[3]); o })) }
        }
    }
    fn ed(self, step: usize, tag: &str) -> (Self, Box<dyn Fn(&[T]) -> Vec<T>>) {
        let v = sym_vec::<T>(&format!("{}{}_", ["t", "d", "s", "ax", "ay", "az", "a3"][step], tag), 3);
        let a = v[0];
        match step {
            0 => (self.translated_3d(v3(&v)), Box::new(move |p| vec![p[0] + v[0] * p[3], p[1] + v[1] * p[3], p[2] + v[2] * p[3], p[3]])),
            1 => (self.translated_2d(v2(&v)), Box::new(move |p| vec![p[0] + v[0] * p[3], p[1] + v[1] * p[3], p[2], p[3]])),
            2 => (self.scaled_3d(v3(&v)), Box::new(move |p| vec![p[0] * v[0], p[1] * v[1], p[2] * v[2], p[3]])),
            3 => (self.rotated_x(a), Box::new(move |p| { let mut o = rot_axis(0, a, &p[..3]); o.push(p[3]); o })),
            4 => (self.rotated_y(a), Box::new(move |p| { let mut o = rot_axis(1, a, &p[..3]); o.push(p[3]); o })),
            5 => (self.rotated_z(a), Box::new(move |p| { let mut o = rot_axis(2, a, &p[..3]); o.push(p[3]); o })),
            _ => { let (ax, u) = unit_axis::<T>(tag); (self.rotated_3d(a, ax), Box::new(move |p| { let mut o = rot_3d(a, &u, &p[..3]); o.push(p[3]); o })) }
        }
    }
    fn inplace(&mut self, step: usize, tag: &str) {
        let v = sym_vec::<T>(&format!("{}{}_", ["t", "d", "s", "ax", "ay", "az", "a3"][step], tag), 3);
        let a = v[0];
        match step {
            0 => self.translate_3d(v3(&v)), 1 => self.translate_2d(v2(&v)), 2 => self.scale_3d(v3(&v)),
            3 => self.rotate_x(a), 4 => self.rotate_y(a), 5 => self.rotate_z(a),
            _ => { let (ax, _) = unit_axis::<T>(tag); self.rotate_3d(a, ax) }
        }
    }
    fn mulv(self, v: Vec4<T>) -> Vec4<T> { self * v }
    fn mul_pt(self, p: Vec3<T>) -> Vec3<T> { self.mul_point(p) }
    fn mul_dir(self, p: Vec3<T>) -> Vec3<T> { self.mul_direction(p) }
    fn from_transform(t: Transform<T, T, T>) -> Self { $M::from(t) }
} )+ } }
trait Pick<T>: Sized { fn pick(self, axis: usize, a: T) -> Self; }
macro_rules! pick { ($($M:ident)+) => { $( impl<T: Sx> Pick<T> for $M<T> { fn pick(self, axis: usize, a: T) -> Self { match axis { 0 => self, 1 => $M::rotation_y(a), _ => $M::rotation_z(a) } } } )+ } }
pick!(Rows4 Cols4 Rows3 Cols3);
aff4!(Rows4 Cols4);

fn ctor4<T: Sx, M: Aff4<T>>(step: usize) {
    let (m, f) = M::ctor(step, "0");
    let p = sym_vec::<T>("p", 3);
    let w = var::<T>("w");
    goals_vec("M*(p,w)", &VL::ent(&m.mulv(v4(&[p[0], p[1], p[2], w]))), &f(&[p[0], p[1], p[2], w]));
    goals_vec("mul_point (w=1)", &VL::ent(&m.mul_pt(v3(&p))), &f(&[p[0], p[1], p[2], k(1)])[..3]);
    goals_vec("mul_direction (w=0)", &VL::ent(&m.mul_dir(v3(&p))), &f(&[p[0], p[1], p[2], k(0)])[..3]);
    // builder = constructor * self ; in place = returning
    let m0 = M::of(&sym_mat::<T>("m", 4));
    let (e, _) = m0.ed(step, "0");
    goals_mat("*_ed = ctor*self", &e.ent(), &(m * m0).ent());
    let mut x = m0;
    x.inplace(step, "0");
    goals_mat("in place = returning", &x.ent(), &e.ent());
}
/// chain encoded in base 8 (digit = step + 1, least significant first)
fn chain4<T: Sx, M: Aff4<T>>(code: u32) {
    let mut m = M::of(&ident::<T>(4));
    let p0 = sym_vec::<T>("p", 3);
    let mut p = vec![p0[0], p0[1], p0[2], k::<T>(1)];
    let (mut c, mut i) = (code, 0);
    while c > 0 {
        let step = (c % 8 - 1) as usize;
        let (m2, f) = m.ed(step, &format!("{}", i));
        m = m2;
        p = f(&p);
        c /= 8;
        i += 1;
    }
    goals_vec("chain applies steps in call order", &VL::ent(&m.mulv(v4(&[p0[0], p0[1], p0[2], k(1)]))), &p);
}

// ---- Mat3 --------------------------------------------------------------------------------------
pub trait Aff3<T>: MatOps<T> + Mul<Self, Output = Self> {
    fn ed(self, step: usize, tag: &str, ctor: bool) -> (Self, Self, Box<dyn Fn(&[T]) -> Vec<T>>);
    fn inplace(&mut self, step: usize, tag: &str);
    fn mulv(self, v: Vec3<T>) -> Vec3<T>;
    fn mul_pt(self, p: Vec2<T>) -> Vec2<T>;
    fn mul_dir(self, p: Vec2<T>) -> Vec2<T>;
}
pub const STEPS3: [&str; 6] = ["translated_2d", "scaled_3d", "rotated_x", "rotated_y", "rotated_z", "rotated_3d"];
macro_rules! aff3 { ($($M:ident)+) => { $( impl<T: Sx> Aff3<T> for $M<T> {
    /// returns (self.step_ed(..), the constructor matrix, the step's map)
    fn ed(self, step: usize, tag: &str, _ctor: bool) -> (Self, Self, Box<dyn Fn(&[T]) -> Vec<T>>) {
        let v = sym_vec::<T>(&format!("{}{}_", ["d", "s", "ax", "ay", "az", "a3"][step], tag), 3);
        let a = v[0];
        match step {
            0 => (self.translated_2d(v2(&v)), $M::translation_2d(v2(&v)), Box::new(move |p| vec![p[0] + v[0] * p[2], p[1] + v[1] * p[2], p[2]])),
            1 => (self.scaled_3d(v3(&v)), $M::scaling_3d(v3(&v)), Box::new(move |p| vec![p[0] * v[0], p[1] * v[1], p[2] * v[2]])),
            2 => (self.rotated_x(a), $M::rotation_x(a), Box::new(move |p| rot_axis(0, a, p))),
            3 => (self.rotated_y(a), $M::rotation_y(a), Box::new(move |p| rot_axis(1, a, p))),
            4 => (self.rotated_z(a), $M::rotation_z(a), Box::new(move |p| rot_axis(2, a, p))),
            _ => { let (ax, u) = unit_axis::<T>(tag); (self.rotated_3d(a, ax), $M::rotation_3d(a, ax), Box::new(move |p| rot_3d(a, &u, p))) }
        }
    }
    fn inplace(&mut self, step: usize, tag: &str) {
        let v = sym_vec::<T>(&format!("{}{}_", ["d", "s", "ax", "ay", "az", "a3"][step], tag), 3);
        let a = v[0];
        match step {
            0 => self.translate_2d(v2(&v)), 1 => self.scale_3d(v3(&v)), 2 => self.rotate_x(a), 3 => self.rotate_y(a), 4 => self.rotate_z(a),
            _ => { let (ax, _) = unit_axis::<T>(tag); self.rotate_3d(a, ax) }
        }
    }
    fn mulv(self, v: Vec3<T>) -> Vec3<T> { self * v }
    fn mul_pt(self, p: Vec2<T>) -> Vec2<T> { self.mul_point_2d(p) }
    fn mul_dir(self, p: Vec2<T>) -> Vec2<T> { self.mul_direction_2d(p) }
} )+ } }
aff3!(Rows3 Cols3);
fn ctor3<T: Sx, M: Aff3<T>>(step: usize) {
    let m0 = M::of(&sym_mat::<T>("m", 3));
    let (e, m, f) = m0.ed(step, "0", true);
    let p = sym_vec::<T>("p", 3);
    goals_vec("M*v", &VL::ent(&m.mulv(v3(&p))), &f(&p));
    goals_vec("mul_point_2d (w=1)", &VL::ent(&m.mul_pt(v2(&p))), &f(&[p[0], p[1], k(1)])[..2]);
    goals_vec("mul_direction_2d (w=0)", &VL::ent(&m.mul_dir(v2(&p))), &f(&[p[0], p[1], k(0)])[..2]);
    goals_mat("*_ed = ctor*self", &e.ent(), &(m * m0).ent());
    let mut x = m0;
    x.inplace(step, "0");
    goals_mat("in place = returning", &x.ent(), &e.ent());
}
fn chain3<T: Sx, M: Aff3<T>>(code: u32) {
    let mut m = M::of(&ident::<T>(3));
    let p0 = sym_vec::<T>("p", 3);
    let mut p = p0.clone();
    let (mut c, mut i) = (code, 0);
    while c > 0 {
        let step = (c % 8 - 1) as usize;
        let (m2, _, f) = m.ed(step, &format!("{}", i), false);
        m = m2;
        p = f(&p);
        c /= 8;
        i += 1;
    }
    goals_vec("chain applies steps in call order", &VL::ent(&m.mulv(v3(&p0))), &p);
}

// ---- Mat2 --------------------------------------------------------------------------------------
pub trait Aff2<T>: MatOps<T> + Mul<Self, Output = Self> {
    fn ed(self, step: usize, tag: &str) -> (Self, Self, Box<dyn Fn(&[T]) -> Vec<T>>);
    fn inplace(&mut self, step: usize, tag: &str);
    fn mulv(self, v: Vec2<T>) -> Vec2<T>;
}
pub const STEPS2: [&str; 4] = ["scaled_2d", "sheared_x", "sheared_y", "rotated_z"];
macro_rules! aff2 { ($($M:ident)+) => { $( impl<T: Sx> Aff2<T> for $M<T> {
    fn ed(self, step: usize, tag: &str) -> (Self, Self, Box<dyn Fn(&[T]) -> Vec<T>>) {
        let v = sym_vec::<T>(&format!("{}{}_", ["s", "kx", "ky", "az"][step], tag), 2);
        let a = v[0];
        match step {
            0 => (self.scaled_2d(v2(&v)), $M::scaling_2d(v2(&v)), Box::new(move |p| vec![p[0] * v[0], p[1] * v[1]])),
            1 => (self.sheared_x(a), $M::shearing_x(a), Box::new(move |p| vec![p[0] + a * p[1], p[1]])),
            2 => (self.sheared_y(a), $M::shearing_y(a), Box::new(move |p| vec![p[0], p[1] + a * p[0]])),
            _ => (self.rotated_z(a), $M::rotation_z(a), Box::new(move |p| { let (s, c) = (a.sin(), a.cos()); vec![c * p[0] - s * p[1], s * p[0] + c * p[1]] })),
        }
    }
    fn inplace(&mut self, step: usize, tag: &str) {
        let v = sym_vec::<T>(&format!("{}{}_", ["s", "kx", "ky", "az"][step], tag), 2);
        let a = v[0];
        match step { 0 => self.scale_2d(v2(&v)), 1 => self.shear_x(a), 2 => self.shear_y(a), _ => self.rotate_z(a) }
    }
    fn mulv(self, v: Vec2<T>) -> Vec2<T> { self * v }
} )+ } }
aff2!(Rows2 Cols2);
fn ctor2<T: Sx, M: Aff2<T>>(step: usize) {
    let m0 = M::of(&sym_mat::<T>("m", 2));
    let (e, m, f) = m0.ed(step, "0");
    let p = sym_vec::<T>("p", 2);
    goals_vec("M*v", &VL::ent(&m.mulv(v2(&p))), &f(&p));
    goals_mat("*_ed = ctor*self", &e.ent(), &(m * m0).ent());
    let mut x = m0;
    x.inplace(step, "0");
    goals_mat("in place = returning", &x.ent(), &e.ent());
}
fn chain2<T: Sx, M: Aff2<T>>(code: u32) {
    let mut m = M::of(&ident::<T>(2));
    let p0 = sym_vec::<T>("p", 2);
    let mut p = p0.clone();
    let (mut c, mut i) = (code, 0);
    while c > 0 {
        let step = (c % 8 - 1) as usize;
        let (m2, _, f) = m.ed(step, &format!("{}", i));
        m = m2;
        p = f(&p);
        c /= 8;
        i += 1;
    }
    goals_vec("chain applies steps in call order", &VL::ent(&m.mulv(v2(&p0))), &p);
}

// ---- Transform ---------------------------------------------------------------------------------
fn transform<T: Sx, M: Aff4<T>>(uniform: bool) {
    let q = sym_vec::<T>("q", 4);
    let (r, n) = rot_of_quat(q[0], q[1], q[2], q[3]);
    assume(ne(n, k(0)));
    let rn = n.sqrt();
    let orientation = Quaternion::from_xyzw(q[0] / rn, q[1] / rn, q[2] / rn, q[3] / rn);
    let pos = sym_vec::<T>("t", 3);
    let sc = if uniform { let s = var::<T>("s"); vec![s, s, s] } else { sym_vec::<T>("s", 3) };
    let m = M::from_transform(Transform { position: v3(&pos), orientation, scale: v3(&sc) });
    let p = sym_vec::<T>("p", 3);
    // p -> position + orientation * (scale . p)
    let sp = [sc[0] * p[0], sc[1] * p[1], sc[2] * p[2]];
    let want: Vec<T> = (0..3).map(|i| pos[i] + r[i][0] * sp[0] + r[i][1] * sp[1] + r[i][2] * sp[2]).collect();
    let got = m.mulv(v4(&[p[0], p[1], p[2], k(1)]));
    goals_vec("M*p=TRS", &VL::ent(&got), &[want[0], want[1], want[2], k(1)]);
}
fn transform_default<T: Sx, M: Aff4<T>>() {
    let m = M::from_transform(Transform::default());
    goals_mat("default is the identity map", &m.ent(), &ident(4));
}

fn codes(nsteps: u32, len: u32) -> Vec<u32> {
    let mut v = vec![];
    let total = nsteps.pow(len);
    for x in 0..total {
        let (mut c, mut y, mut mul) = (0, x, 1);
        for _ in 0..len { c += (y % nsteps + 1) * mul; y /= nsteps; mul *= 8; }
        v.push(c);
    }
    v
}
fn code_name(code: u32, names: &[&str]) -> String {
    let mut c = code;
    let mut v = vec![];
    while c > 0 { v.push(names[(c % 8 - 1) as usize]); c /= 8; }
    v.join(".")
}
fn sample(v: Vec<u32>, n: usize, seed: u64) -> Vec<u32> {
    // deterministic seeded sample (VERIF_SEED) of the chains beyond the exhaustive length
    let mut s = seed.wrapping_mul(0x9E3779B97F4A7C15) | 1;
    let mut v = v;
    let mut out = vec![];
    while out.len() < n && !v.is_empty() {
        s ^= s << 13; s ^= s >> 7; s ^= s << 17;
        out.push(v.swap_remove((s % v.len() as u64) as usize));
    }
    out
}

pub fn register(v: &mut Vec<Scenario>) {
    let seed: u64 = std::env::var("VERIF_SEED").ok().and_then(|s| s.parse().ok()).unwrap_or(0);
    macro_rules! m4 { ($($M:ident)+) => { $(
        for step in 0..7usize { scen!(v, "C07", 0, format!("c07/ctor/{}/{}", STEPS4[step], stringify!($M)), ["Mat4::translation_*", "scaling_3d", "rotation_*", "mul_point", "mul_direction", "*_ed", "in-place"], ctor4::<$M<T_>>(step)); }
        for code in codes(7, 1).into_iter().chain(codes(7, 2)) { scen!(v, "C07", 0, format!("c07/chain/{}/{}", stringify!($M), code_name(code, &STEPS4)), ["Mat4 builder chain"], chain4::<$M<T_>>(code)); }
        for code in sample(codes(7, 3), 24, seed) { scen!(v, "C07", 0, format!("c07/chain/{}/{}", stringify!($M), code_name(code, &STEPS4)), ["Mat4 builder chain"], chain4::<$M<T_>>(code)); }
        for code in codes(7, 3) { scen!(v, "C07", 1, format!("c07/chainT/{}/{}", stringify!($M), code_name(code, &STEPS4)), ["Mat4 builder chain"], chain4::<$M<T_>>(code)); }
        for code in sample(codes(7, 4), 60, seed + 1) { scen!(v, "C07", 1, format!("c07/chainT/{}/{}", stringify!($M), code_name(code, &STEPS4)), ["Mat4 builder chain"], chain4::<$M<T_>>(code)); }
        scen!(v, "C07", 0, concat!("c07/transform/general_scale/", stringify!($M)), ["Mat4::from(Transform)", "Mat4::from(Quaternion)", "scaled_3d", "translated_3d"], transform::<$M<T_>>(false));
        scen!(v, "C07", 0, concat!("c07/transform/uniform_scale/", stringify!($M)), ["Mat4::from(Transform)", "Mat4::from(Quaternion)", "scaled_3d", "translated_3d"], transform::<$M<T_>>(true));
        scen!(v, "C07", 0, concat!("c07/transform/default/", stringify!($M)), ["Transform::default", "Mat4::from(Transform)"], transform_default::<$M<T_>>());
    )+ } }
    m4!(Rows4 Cols4);
    macro_rules! m3 { ($($M:ident)+) => { $(
        for step in 0..6usize { scen!(v, "C07", 0, format!("c07/ctor/{}/{}", STEPS3[step], stringify!($M)), ["Mat3::translation_2d", "scaling_3d", "rotation_*", "mul_point_2d", "mul_direction_2d", "*_ed", "in-place"], ctor3::<$M<T_>>(step)); }
        for code in codes(6, 1).into_iter().chain(codes(6, 2)) { scen!(v, "C07", 0, format!("c07/chain/{}/{}", stringify!($M), code_name(code, &STEPS3)), ["Mat3 builder chain"], chain3::<$M<T_>>(code)); }
        for code in sample(codes(6, 3), 16, seed) { scen!(v, "C07", 0, format!("c07/chain/{}/{}", stringify!($M), code_name(code, &STEPS3)), ["Mat3 builder chain"], chain3::<$M<T_>>(code)); }
        for code in codes(6, 3) { scen!(v, "C07", 1, format!("c07/chainT/{}/{}", stringify!($M), code_name(code, &STEPS3)), ["Mat3 builder chain"], chain3::<$M<T_>>(code)); }
    )+ } }
    m3!(Rows3 Cols3);
    macro_rules! m2 { ($($M:ident)+) => { $(
        for step in 0..4usize { scen!(v, "C07", 0, format!("c07/ctor/{}/{}", STEPS2[step], stringify!($M)), ["Mat2::scaling_2d", "shearing_x", "shearing_y", "rotation_z", "*_ed", "in-place"], ctor2::<$M<T_>>(step)); }
        for code in codes(4, 1).into_iter().chain(codes(4, 2)).chain(codes(4, 3)) { scen!(v, "C07", 0, format!("c07/chain/{}/{}", stringify!($M), code_name(code, &STEPS2)), ["Mat2 builder chain"], chain2::<$M<T_>>(code)); }
        for code in codes(4, 4) { scen!(v, "C07", 1, format!("c07/chainT/{}/{}", stringify!($M), code_name(code, &STEPS2)), ["Mat2 builder chain"], chain2::<$M<T_>>(code)); }
    )+ } }
    m2!(Rows2 Cols2);
}
