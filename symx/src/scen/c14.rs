//! C14 — Bézier evaluate, derivative, split and conversions obey the Bernstein identities.
use crate::bez::*;
use crate::core::*;
use crate::explore::Scenario;
use crate::mats::{self, ML};
use crate::real::Sx;
use crate::vecs::*;
use num_traits::Float;

pub fn sym_pts<T: Sx>(p: &str, n: usize, dim: usize) -> Vec<Vec<T>> {
    (0..n).map(|i| (0..dim).map(|j| var::<T>(&format!("{}{}{}", p, i, ["x", "y", "z"][j]))).collect()).collect()
}
fn binom(n: usize, i: usize) -> i64 {
    [[1, 0, 0, 0], [1, 1, 0, 0], [1, 2, 1, 0], [1, 3, 3, 1]][n][i]
}
fn pw<T: Sx>(x: T, n: usize) -> T {
    (0..n).fold(k::<T>(1), |a, _| a * x)
}
/// Bernstein polynomial of the control points
pub fn bernstein<T: Sx>(p: &[Vec<T>], t: T) -> Vec<T> {
    let n = p.len() - 1;
    (0..p[0].len()).map(|c| (0..=n).fold(k::<T>(0), |s, i| s + k::<T>(binom(n, i)) * pw(k::<T>(1) - t, n - i) * pw(t, i) * p[i][c])).collect()
}
/// its formal derivative: n * sum B_{i,n-1}(t) (P_{i+1} - P_i)
pub fn bernstein_d<T: Sx>(p: &[Vec<T>], t: T) -> Vec<T> {
    let n = p.len() - 1;
    let d: Vec<Vec<T>> = (0..n).map(|i| (0..p[0].len()).map(|c| (p[i + 1][c] - p[i][c]) * k(n as i64)).collect()).collect();
    bernstein(&d, t)
}
fn eqv<T: Sx>(tag: &str, got: &[T], want: &[T]) {
    assert_eq!(got.len(), want.len());
    goal(tag, and(got.iter().zip(want).map(|(g, w)| eq(*g, *w)).collect()));
}
fn eqp<T: Sx>(tag: &str, got: &[Vec<T>], want: &[Vec<T>]) {
    eqv(tag, &got.concat(), &want.concat());
}

fn evaluate<T: Sx, B: Bz<T>>() {
    let p = sym_pts::<T>("p", B::DEG + 1, B::DIM);
    let c = B::of(&p);
    let t = var::<T>("t");
    eqv("evaluate = Bernstein", &c.eval(t), &bernstein(&p, t));
    eqv("evaluate(0) = start", &c.eval(k(0)), &p[0]);
    eqv("evaluate(1) = end", &c.eval(k(1)), &p[B::DEG]);
    eqv("evaluate_derivative = d/dt evaluate", &c.deriv(t), &bernstein_d(&p, t));
    // coefficient-matrix form: (1, t, t^2, ..) * M * P
    let m = B::matrix_();
    let n = B::DEG + 1;
    let pm: Vec<T> = (0..B::DIM).map(|cc| (0..n).fold(k::<T>(0), |s, j| s + pw(t, j) * (0..n).fold(k::<T>(0), |s2, i| s2 + m[j][i] * p[i][cc]))).collect();
    eqv("matrix form", &pm, &bernstein(&p, t));
}
fn split<T: Sx, B: Bz<T>>() {
    let p = sym_pts::<T>("p", B::DEG + 1, B::DIM);
    let c = B::of(&p);
    let (t, u) = (var::<T>("t"), var::<T>("u"));
    let [f, s] = c.split_(t);
    eqv("first half re-parametrizes [0,t]", &f.eval(u), &bernstein(&p, t * u));
    eqv("second half re-parametrizes [t,1]", &s.eval(u), &bernstein(&p, t + (k::<T>(1) - t) * u));
    eqv("halves meet at evaluate(t)", &[f.pts()[B::DEG].clone(), s.pts()[0].clone()].concat(), &[bernstein(&p, t), bernstein(&p, t)].concat());
    eqv("outer ends kept", &[f.pts()[0].clone(), s.pts()[B::DEG].clone()].concat(), &[p[0].clone(), p[B::DEG].clone()].concat());
}
fn reverse_flip<T: Sx, B: Bz<T>>() {
    let p = sym_pts::<T>("p", B::DEG + 1, B::DIM);
    let c = B::of(&p);
    let t = var::<T>("t");
    eqv("reversed evaluates at 1-t", &c.reversed_().eval(t), &bernstein(&p, k::<T>(1) - t));
    let mut r = c;
    r.reverse_();
    eqp("reverse (in place)", &r.pts(), &c.reversed_().pts());
    for axis in 0..B::DIM {
        let want: Vec<T> = bernstein(&p, t).iter().enumerate().map(|(i, x)| if i == axis { -*x } else { *x }).collect();
        eqv(&format!("flipped axis {}", axis), &c.flipped(axis).eval(t), &want);
        let mut f = c;
        f.flip(axis);
        eqp(&format!("flip axis {} (in place)", axis), &f.pts(), &c.flipped(axis).pts());
    }
    eqp("into_vector order", &c.via_vector(), &p);
    eqp("into_tuple order", &c.via_tuple(), &p);
    eqp("into_array order", &c.via_array(), &p);
    eqp("from vector", &B::from_vector(&p).pts(), &p);
}
fn from_segment<T: Sx, B: Bz<T>>() {
    let (a, b) = ((0..B::DIM).map(|j| var::<T>(&format!("a{}", j))).collect::<Vec<_>>(), (0..B::DIM).map(|j| var::<T>(&format!("b{}", j))).collect::<Vec<_>>());
    let t = var::<T>("t");
    let want: Vec<T> = (0..B::DIM).map(|j| a[j] + t * (b[j] - a[j])).collect();
    eqv("From<LineSegment>", &B::from_segment(&a, &b).eval(t), &want);
    eqv("From<Range>", &B::from_range(&a, &b).eval(t), &want);
}
fn tangent<T: Sx, B: Bz<T>>() {
    let p = sym_pts::<T>("p", B::DEG + 1, B::DIM);
    let c = B::of(&p);
    let t = var::<T>("t");
    let d = bernstein_d(&p, t);
    let d2 = d.iter().fold(k::<T>(0), |s, x| s + *x * *x);
    assume(ne(d2, k(0)));
    let n = c.tangent(t);
    goal("unit", eq(n.iter().fold(k::<T>(0), |s, x| s + *x * *x), k(1)));
    let m = d2.sqrt();
    eqv("parallel to the derivative", &n.iter().map(|x| *x * m).collect::<Vec<_>>(), &d);
}
fn elevation<T: Sx>(dim3: bool) {
    let t = var::<T>("t");
    if dim3 {
        let p = sym_pts::<T>("p", 3, 3);
        let q = QuadraticBezier3::of(&p);
        eqv("into_cubic", &q.into_cubic().eval(t), &bernstein(&p, t));
        eqv("From<Quadratic>", &CubicBezier3::from(q).eval(t), &bernstein(&p, t));
        let (q2, c2) = (q.into_2d(), CubicBezier3::from(q).into_2d());
        eqp("quadratic into_2d drops z", &q2.pts(), &p.iter().map(|x| x[..2].to_vec()).collect::<Vec<_>>());
        eqv("cubic into_2d", &c2.eval(t), &bernstein(&p, t)[..2]);
    } else {
        let p = sym_pts::<T>("p", 3, 2);
        let q = QuadraticBezier2::of(&p);
        eqv("into_cubic", &q.into_cubic().eval(t), &bernstein(&p, t));
        eqv("From<Quadratic>", &CubicBezier2::from(q).eval(t), &bernstein(&p, t));
        let p3: Vec<Vec<T>> = p.iter().map(|x| vec![x[0], x[1], k(0)]).collect();
        eqp("quadratic into_3d appends z=0", &q.into_3d().pts(), &p3);
        eqv("cubic into_3d", &CubicBezier2::from(q).into_3d().eval(t), &bernstein(&p3, t));
    }
}
/// curve of transformed control points = transformed curve
fn mat_mul<T: Sx>(which: usize) {
    let t = var::<T>("t");
    macro_rules! lin { ($B:ident, $dim:expr, $M:ident, $n:expr) => {{
        let p = sym_pts::<T>("p", <$B<T> as Bz<T>>::DEG + 1, $dim);
        let a = mats::sym_mat::<T>("m", $n);
        let c = <$B<T> as Bz<T>>::of(&p);
        let got = (<mats::$M<T> as ML<T>>::of(&a) * c).eval(t);
        let e = bernstein(&p, t);
        let want: Vec<T> = if $n == $dim {
            mats::matvec(&a, &e)
        } else {
            // homogeneous form: the point is extended with w = 1 and the first `dim` rows are kept
            let mut h = e.clone();
            h.push(k(1));
            mats::matvec(&a, &h)[..$dim].to_vec()
        };
        eqv(concat!(stringify!($M), "*", stringify!($B)), &got, &want);
    }} }
    match which {
        0 => { lin!(QuadraticBezier2, 2, Rows2, 2); lin!(QuadraticBezier2, 2, Cols2, 2); lin!(CubicBezier2, 2, Rows2, 2); lin!(CubicBezier2, 2, Cols2, 2); }
        1 => { lin!(QuadraticBezier2, 2, Rows3, 3); lin!(QuadraticBezier2, 2, Cols3, 3); lin!(CubicBezier2, 2, Rows3, 3); lin!(CubicBezier2, 2, Cols3, 3); }
        2 => { lin!(QuadraticBezier3, 3, Rows3, 3); lin!(QuadraticBezier3, 3, Cols3, 3); lin!(CubicBezier3, 3, Rows3, 3); lin!(CubicBezier3, 3, Cols3, 3); }
        _ => { lin!(QuadraticBezier3, 3, Rows4, 4); lin!(QuadraticBezier3, 3, Cols4, 4); lin!(CubicBezier3, 3, Rows4, 4); lin!(CubicBezier3, 3, Cols4, 4); }
    }
}
fn quarter_circle<T: Sx>() {
    let c = CubicBezier2::<T>::unit_quarter_circle();
    let t = var::<T>("t");
    assume(ge(t, k(0)));
    assume(le(t, k(1)));
    let p = c.eval(t);
    let r2 = p[0] * p[0] + p[1] * p[1];
    // within 0.03% of radius 1: (1-3e-4)^2 <= |c(t)|^2 <= (1+3e-4)^2
    goal("radius within 0.03%", and(vec![le(T::q(9997 * 9997, 100000000), r2), le(r2, T::q(10003 * 10003, 100000000))]));
    eqv("starts at (1,0), ends at (0,1)", &[c.eval(k(0)), c.eval(k(1))].concat(), &[k(1), k(0), k(0), k(1)]);
}
fn unit_circle<T: Sx>() {
    let q = CubicBezier2::<T>::unit_quarter_circle().pts();
    let cs = CubicBezier2::<T>::unit_circle();
    let refl = |sx: i64, sy: i64| -> Vec<Vec<T>> { q.iter().map(|p| vec![p[0] * k(sx), p[1] * k(sy)]).collect() };
    eqp("quadrant I", &cs[0].pts(), &refl(1, 1));
    eqp("quadrant II", &cs[1].pts(), &refl(-1, 1));
    eqp("quadrant III", &cs[2].pts(), &refl(-1, -1));
    eqp("quadrant IV", &cs[3].pts(), &refl(1, -1));
}

pub fn register(v: &mut Vec<Scenario>) {
    macro_rules! per { ($($B:ident)+) => { $(
        scen!(v, "C14", 0, concat!("c14/evaluate/", stringify!($B)), ["evaluate", "evaluate_derivative", "matrix"], evaluate::<$B<T_>>());
        scen!(v, "C14", 0, concat!("c14/split/", stringify!($B)), ["split"], split::<$B<T_>>());
        scen!(v, "C14", 0, concat!("c14/reverse_flip/", stringify!($B)), ["reversed", "reverse", "flipped_*", "flip_*", "into_vec*", "into_tuple", "into_array", "From<Vec<Point>>"], reverse_flip::<$B<T_>>());
        scen!(v, "C14", 0, concat!("c14/from_segment/", stringify!($B)), ["From<LineSegment>", "From<Range>"], from_segment::<$B<T_>>());
        scen!(v, "C14", 0, concat!("c14/tangent/", stringify!($B)), ["normalized_tangent"], tangent::<$B<T_>>());
    )+ } }
    per!(QuadraticBezier2 QuadraticBezier3 CubicBezier2 CubicBezier3);
    scen!(v, "C14", 0, "c14/elevation/2d", ["into_cubic", "From<Quadratic>", "into_3d"], elevation(false));
    scen!(v, "C14", 0, "c14/elevation/3d", ["into_cubic", "From<Quadratic>", "into_2d"], elevation(true));
    for w in 0..4usize {
        scen!(v, "C14", 0, format!("c14/mat_mul/{}", ["Mat2x2D", "Mat3x2D", "Mat3x3D", "Mat4x3D"][w]), ["Mul<Bezier> for Mat2/Mat3/Mat4"], mat_mul(w));
    }
    let mut qc = vec![];
    scen!(qc, "C14", 0, "c14/unit_quarter_circle", ["CubicBezier2::unit_quarter_circle", "evaluate"], quarter_circle());
    qc[0].timeout = Some((120, 300));
    v.append(&mut qc);
    scen!(v, "C14", 0, "c14/unit_circle", ["CubicBezier2::unit_circle"], unit_circle());
}
