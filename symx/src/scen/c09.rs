//! C09 — view and change-of-basis matrices are rigid and place eye, target, axes right.
#![allow(deprecated)]
use crate::core::*;
use crate::explore::Scenario;
use crate::mats::*;
use crate::real::Sx;
use std::ops::*;

pub trait View<T>: MatOps<T> + Mul<Self, Output = Self> {
    fn la(name: &str, e: Vec3<T>, t: Vec3<T>, u: Vec3<T>) -> Self;
    fn basis(name: &str, o: Vec3<T>, i: Vec3<T>, j: Vec3<T>, k: Vec3<T>) -> Self;
    fn mulv(self, v: Vec4<T>) -> Vec4<T>;
}
macro_rules! view { ($($M:ident)+) => { $( impl<T: Sx> View<T> for $M<T> {
    fn la(name: &str, e: Vec3<T>, t: Vec3<T>, u: Vec3<T>) -> Self {
        match name {
            "look_at_lh" => $M::look_at_lh(e, t, u), "look_at_rh" => $M::look_at_rh(e, t, u), "look_at" => $M::look_at(e, t, u),
            "model_look_at_lh" => $M::model_look_at_lh(e, t, u), "model_look_at_rh" => $M::model_look_at_rh(e, t, u), "model_look_at" => $M::model_look_at(e, t, u),
            _ => panic!("{}", name),
        }
    }
    fn basis(name: &str, o: Vec3<T>, i: Vec3<T>, j: Vec3<T>, k: Vec3<T>) -> Self {
        match name { "basis_to_local" => $M::basis_to_local(o, i, j, k), "local_to_basis" => $M::local_to_basis(o, i, j, k), _ => panic!("{}", name) }
    }
    fn mulv(self, v: Vec4<T>) -> Vec4<T> { self * v }
} )+ } }
view!(Rows4 Cols4);

fn camera<T: Sx>() -> (Vec3<T>, Vec3<T>, Vec3<T>) {
    let (e, t, u) = (v3(&sym_vec::<T>("e", 3)), v3(&sym_vec::<T>("t", 3)), v3(&sym_vec::<T>("u", 3)));
    let d = [t.x - e.x, t.y - e.y, t.z - e.z];
    assume(ne(d[0] * d[0] + d[1] * d[1] + d[2] * d[2], k(0)));
    let c = [d[1] * u.z - d[2] * u.y, d[2] * u.x - d[0] * u.z, d[0] * u.y - d[1] * u.x];
    assume(ne(c[0] * c[0] + c[1] * c[1] + c[2] * c[2], k(0)));
    (e, t, u)
}
fn look_at<T: Sx, M: View<T>>(name: &'static str) {
    let (e, t, u) = camera::<T>();
    check_defined();
    let m = M::la(name, e, t, u);
    let a = m.ent();
    for i in 0..3 {
        for j in i..3 {
            goal(&format!("rows orthonormal {}{}", i, j), eq((0..3).fold(k::<T>(0), |s, c| s + a[i][c] * a[j][c]), k((i == j) as i64)));
        }
    }
    let r: Vec<Vec<T>> = (0..3).map(|i| (0..3).map(|j| a[i][j]).collect()).collect();
    goal("det=+1", eq(leibniz(&r), k(1)));
    for j in 0..4 {
        goal(&format!("bottom row[{}]", j), eq(a[3][j], k((j == 3) as i64)));
    }
    let pe = m.mulv(v4(&[e.x, e.y, e.z, k(1)]));
    goal("eye->origin", and(vec![eq(pe.x, k(0)), eq(pe.y, k(0)), eq(pe.z, k(0)), eq(pe.w, k(1))]));
    let pt = m.mulv(v4(&[t.x, t.y, t.z, k(1)]));
    let dist = ((t.x - e.x) * (t.x - e.x) + (t.y - e.y) * (t.y - e.y) + (t.z - e.z) * (t.z - e.z)).sqrt();
    let fwd = if name.ends_with("_rh") { -dist } else { dist };
    goal("target on forward axis", and(vec![eq(pt.x, k(0)), eq(pt.y, k(0)), eq(pt.z, fwd)]));
    let pu = m.mulv(v4(&[u.x, u.y, u.z, k(0)]));
    goal("up in the upper vertical half-plane", and(vec![eq(pu.x, k(0)), gt(pu.y, k(0))]));
}
fn model_look_at<T: Sx, M: View<T>>(view: &'static str) {
    let (e, t, u) = camera::<T>();
    let v = M::la(view, e, t, u);
    let m = M::la(&format!("model_{}", view), e, t, u);
    // 3x3 block directly; the translation column by a cut: with the two rotation blocks abstracted,
    // (model*view)[i][3] = eye_i - sum_j (model*view)[i][j] eye_j is a low-degree identity
    let (p, me, ve) = ((m * v).ent(), m.ent(), v.ent());
    let mut abs = vec![];
    for i in 0..4 {
        for j in 0..4 {
            let name = if j == 3 && i < 3 { format!("cutT/model*view=I[{}][3]", i) } else { format!("model*view=I[{}][{}]", i, j) };
            if i < 3 && j < 3 {
                lemma("cutT/", &name, eq(p[i][j], k((i == j) as i64)));
                abs.push(me[i][j]);
                abs.push(ve[i][j]);
            } else {
                goal(&name, eq(p[i][j], k((i == j) as i64)));
            }
        }
    }
    abstract_terms("cutT/", &abs);
    goals_mat("view*model=I", &(v * m).ent(), &ident(4));
    let o = m.mulv(v4(&[k(0), k(0), k(0), k(1)]));
    goals_vec("model*origin=eye", &VL::ent(&o), &[e.x, e.y, e.z, k(1)]);
}
fn deprecated_alias<T: Sx, M: View<T>>() {
    let (e, t, u) = camera::<T>();
    goals_mat("look_at=look_at_lh", &M::la("look_at", e, t, u).ent(), &M::la("look_at_lh", e, t, u).ent());
    goals_mat("model_look_at=model_look_at_lh", &M::la("model_look_at", e, t, u).ent(), &M::la("model_look_at_lh", e, t, u).ent());
}
fn local_to_basis<T: Sx, M: View<T>>() {
    let (o, i, j, kk) = (v3(&sym_vec::<T>("o", 3)), v3(&sym_vec::<T>("i", 3)), v3(&sym_vec::<T>("j", 3)), v3(&sym_vec::<T>("k", 3)));
    let m = M::basis("local_to_basis", o, i, j, kk);
    let pt = |x: i64, y: i64, z: i64| VL::ent(&m.mulv(v4(&[k(x), k(y), k(z), k(1)])));
    goals_vec("origin", &pt(0, 0, 0), &[o.x, o.y, o.z, k(1)]);
    goals_vec("e_x", &pt(1, 0, 0), &[o.x + i.x, o.y + i.y, o.z + i.z, k(1)]);
    goals_vec("e_y", &pt(0, 1, 0), &[o.x + j.x, o.y + j.y, o.z + j.z, k(1)]);
    goals_vec("e_z", &pt(0, 0, 1), &[o.x + kk.x, o.y + kk.y, o.z + kk.z, k(1)]);
}
fn basis_roundtrip_param<T: Sx, M: View<T>>() {
    let (r, n) = rot_of_quat::<T>(var("qx"), var("qy"), var("qz"), var("qw"));
    assume(ne(n, k(0)));
    let o = v3(&sym_vec::<T>("o", 3));
    let col = |c: usize| v3(&[r[0][c], r[1][c], r[2][c]]);
    let (i, j, kk) = (col(0), col(1), col(2));
    let l2b = M::basis("local_to_basis", o, i, j, kk);
    let b2l = M::basis("basis_to_local", o, i, j, kk);
    goals_mat("b2l*l2b=I", &(b2l * l2b).ent(), &ident(4));
    goals_mat("l2b*b2l=I", &(l2b * b2l).ent(), &ident(4));
}
fn basis_roundtrip_hyp<T: Sx, M: View<T>>() {
    let (o, i, j, kk) = (v3(&sym_vec::<T>("o", 3)), v3(&sym_vec::<T>("i", 3)), v3(&sym_vec::<T>("j", 3)), v3(&sym_vec::<T>("k", 3)));
    let b = [i, j, kk];
    for x in 0..3 {
        for y in x..3 {
            assume(eq(b[x].x * b[y].x + b[x].y * b[y].y + b[x].z * b[y].z, k((x == y) as i64)));
        }
    }
    let l2b = M::basis("local_to_basis", o, i, j, kk);
    let b2l = M::basis("basis_to_local", o, i, j, kk);
    goals_mat("b2l*l2b=I", &(b2l * l2b).ent(), &ident(4));
}

pub fn register(v: &mut Vec<Scenario>) {
    macro_rules! per { ($($M:ident)+) => { $(
        for name in ["look_at_lh", "look_at_rh"] {
            scen!(v, "C09", 0, format!("c09/{}/{}", name, stringify!($M)), ["Mat4::look_at_lh", "Mat4::look_at_rh", "Vec3::normalized", "Vec3::cross", "Vec3::dot"], look_at::<$M<T_>>(name));
            scen!(v, "C09", 0, format!("c09/model_{}/{}", name, stringify!($M)), ["Mat4::model_look_at_lh", "Mat4::model_look_at_rh", "Mat4::look_at_*", "Mul"], model_look_at::<$M<T_>>(name));
        }
        scen!(v, "C09", 0, concat!("c09/deprecated_alias/", stringify!($M)), ["Mat4::look_at", "Mat4::model_look_at"], deprecated_alias::<$M<T_>>());
        scen!(v, "C09", 0, concat!("c09/local_to_basis/", stringify!($M)), ["Mat4::local_to_basis"], local_to_basis::<$M<T_>>());
        scen!(v, "C09", 0, concat!("c09/basis_roundtrip_param/", stringify!($M)), ["Mat4::basis_to_local", "Mat4::local_to_basis"], basis_roundtrip_param::<$M<T_>>());
        scen!(v, "C09", 0, concat!("c09/basis_roundtrip_hyp/", stringify!($M)), ["Mat4::basis_to_local", "Mat4::local_to_basis"], basis_roundtrip_hyp::<$M<T_>>());
    )+ } }
    per!(Rows4 Cols4);
}
