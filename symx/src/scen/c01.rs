//! C01 — matrix products are the linear-algebra product in both storage layouts.
use crate::core::*;
use crate::explore::Scenario;
use crate::mats::*;
use crate::real::Sx;
use crate::scen;
use std::ops::*;


/// A * B for every layout pair for which vek has a Mul impl.
fn mat_mat<T: Sx, A: ML<T> + Mul<B, Output = C> + Copy, B: ML<T> + Copy, C: ML<T>>() {
    let (a, b) = (sym_mat::<T>("a", A::N), sym_mat::<T>("b", A::N));
    let p = A::of(&a) * B::of(&b);
    goals_mat("AB", &p.ent(), &matmul(&a, &b));
}
/// M * v (column vector) and v * M (row vector)
fn mat_vec<T: Sx, M: ML<T> + Mul<M::V, Output = M::V> + Copy>()
where
    M::V: Mul<M, Output = M::V> + Copy,
{
    let (a, v) = (sym_mat::<T>("a", M::N), sym_vec::<T>("v", M::N));
    let n = M::N;
    let mv = M::of(&a) * <M::V as VL<T>>::of(&v);
    let want: Vec<T> = (0..n).map(|i| (0..n).fold(k::<T>(0), |s, l| s + a[i][l] * v[l])).collect();
    goals_vec("Mv", &mv.ent(), &want);
    let vm = <M::V as VL<T>>::of(&v) * M::of(&a);
    let want: Vec<T> = (0..n).map(|j| (0..n).fold(k::<T>(0), |s, l| s + v[l] * a[l][j])).collect();
    goals_vec("vM", &vm.ent(), &want);
}
/// identity / zero / One / Zero / MulAssign / scalar and element-wise operators
fn mat_elementwise<T: Sx, M>()
where
    M: ML<T> + Copy + Mul<M, Output = M> + Mul<T, Output = M> + Add<M, Output = M> + Sub<M, Output = M> + Div<M, Output = M> + Neg<Output = M>,
    M: Add<T, Output = M> + Sub<T, Output = M> + Div<T, Output = M> + MulAssign<M> + MulAssign<T> + AddAssign<M> + AddAssign<T> + SubAssign<M> + SubAssign<T> + DivAssign<M> + DivAssign<T>,
    M: num_traits::One + num_traits::Zero + MatId<T>,
{
    let n = M::N;
    let (a, b) = (sym_mat::<T>("a", n), sym_mat::<T>("b", n));
    let s = var::<T>("s");
    let (ma, mb) = (M::of(&a), M::of(&b));
    let idm: Vec<Vec<T>> = (0..n).map(|i| (0..n).map(|j| k::<T>((i == j) as i64)).collect()).collect();
    let zm: Vec<Vec<T>> = (0..n).map(|_| (0..n).map(|_| k::<T>(0)).collect()).collect();
    goals_mat("identity", &M::identity_().ent(), &idm);
    goals_mat("One::one", &<M as num_traits::One>::one().ent(), &idm);
    goals_mat("zero", &M::zero_().ent(), &zm);
    goals_mat("Zero::zero", &<M as num_traits::Zero>::zero().ent(), &zm);
    goals_mat("A*I", &(ma * M::identity_()).ent(), &a);
    goals_mat("I*A", &(M::identity_() * ma).ent(), &a);
    let ew = |f: &dyn Fn(T, T) -> T| -> Vec<Vec<T>> { (0..n).map(|i| (0..n).map(|j| f(a[i][j], b[i][j])).collect()).collect() };
    let sc = |f: &dyn Fn(T) -> T| -> Vec<Vec<T>> { (0..n).map(|i| (0..n).map(|j| f(a[i][j])).collect()).collect() };
    goals_mat("A+B", &(ma + mb).ent(), &ew(&|x, y| x + y));
    goals_mat("A-B", &(ma - mb).ent(), &ew(&|x, y| x - y));
    goals_mat("A/B", &(ma / mb).ent(), &ew(&|x, y| x / y));
    goals_mat("mul_memberwise", &ma.mul_memberwise_(mb).ent(), &ew(&|x, y| x * y));
    goals_mat("-A", &(-ma).ent(), &sc(&|x| -x));
    goals_mat("A*s", &(ma * s).ent(), &sc(&|x| x * s));
    goals_mat("A+s", &(ma + s).ent(), &sc(&|x| x + s));
    goals_mat("A-s", &(ma - s).ent(), &sc(&|x| x - s));
    goals_mat("A/s", &(ma / s).ent(), &sc(&|x| x / s));
    let mut m = ma; m *= mb; goals_mat("A*=B", &m.ent(), &matmul(&a, &b));
    let mut m = ma; m *= s; goals_mat("A*=s", &m.ent(), &sc(&|x| x * s));
    let mut m = ma; m += mb; goals_mat("A+=B", &m.ent(), &ew(&|x, y| x + y));
    let mut m = ma; m += s; goals_mat("A+=s", &m.ent(), &sc(&|x| x + s));
    let mut m = ma; m -= mb; goals_mat("A-=B", &m.ent(), &ew(&|x, y| x - y));
    let mut m = ma; m -= s; goals_mat("A-=s", &m.ent(), &sc(&|x| x - s));
    let mut m = ma; m /= mb; goals_mat("A/=B", &m.ent(), &ew(&|x, y| x / y));
    let mut m = ma; m /= s; goals_mat("A/=s", &m.ent(), &sc(&|x| x / s));
}
/// inherent functions that are not trait methods
pub trait MatId<T>: Sized {
    fn identity_() -> Self;
    fn zero_() -> Self;
    fn mul_memberwise_(self, o: Self) -> Self;
}
macro_rules! matid { ($($M:ident)+) => { $(
    impl<T: num_traits::Zero + num_traits::One + Mul<Output = T>> MatId<T> for $M<T> {
        fn identity_() -> Self { $M::identity() }
        fn zero_() -> Self { $M::zero() }
        fn mul_memberwise_(self, o: Self) -> Self { self.mul_memberwise(o) }
    }
)+ } }
matid!(Rows2 Rows3 Rows4 Cols2 Cols3 Cols4);

/// Vec4-as-2x2 helpers against the 2x2 expressions, rows and cols flavours.
fn vec4_mat2<T: Sx>() {
    let (a, b) = (sym_vec::<T>("a", 4), sym_vec::<T>("b", 4));
    let (va, vb) = (v4(&a), v4(&b));
    let m = |v: &[T], rows: bool| -> Vec<Vec<T>> { if rows { vec![vec![v[0], v[1]], vec![v[2], v[3]]] } else { vec![vec![v[0], v[2]], vec![v[1], v[3]]] } };
    let flat = |m: &[Vec<T>], rows: bool| -> Vec<T> { if rows { vec![m[0][0], m[0][1], m[1][0], m[1][1]] } else { vec![m[0][0], m[1][0], m[0][1], m[1][1]] } };
    let adj = |m: &[Vec<T>]| -> Vec<Vec<T>> { vec![vec![m[1][1], -m[0][1]], vec![-m[1][0], m[0][0]]] };
    for rows in [true, false] {
        let (ma, mb) = (m(&a, rows), m(&b, rows));
        let (mul, adj_mul, mul_adj) = if rows { (va.mat2_rows_mul(vb), va.mat2_rows_adj_mul(vb), va.mat2_rows_mul_adj(vb)) } else { (va.mat2_cols_mul(vb), va.mat2_cols_adj_mul(vb), va.mat2_cols_mul_adj(vb)) };
        let tag = if rows { "rows" } else { "cols" };
        goals_vec(&format!("mat2_{}_mul", tag), &VL::ent(&mul), &flat(&matmul(&ma, &mb), rows));
        goals_vec(&format!("mat2_{}_adj_mul", tag), &VL::ent(&adj_mul), &flat(&matmul(&adj(&ma), &mb), rows));
        goals_vec(&format!("mat2_{}_mul_adj", tag), &VL::ent(&mul_adj), &flat(&matmul(&ma, &adj(&mb)), rows));
    }
}

macro_rules! per_size {
    ($v:expr, $R:ident $C:ident $n:literal) => {
        scen!($v, "C01", 0, concat!("c01/mul/", stringify!($R), "*", stringify!($R)), ["Mat::mul(Mat) row-major"], mat_mat::<$R<T_>, $R<T_>, $R<T_>>());
        scen!($v, "C01", 0, concat!("c01/mul/", stringify!($C), "*", stringify!($C)), ["Mat::mul(Mat) column-major"], mat_mat::<$C<T_>, $C<T_>, $C<T_>>());
        scen!($v, "C01", 0, concat!("c01/mul/", stringify!($R), "*", stringify!($C)), ["Mat::mul(Transpose) rows*cols"], mat_mat::<$R<T_>, $C<T_>, $C<T_>>());
        scen!($v, "C01", 0, concat!("c01/mul/", stringify!($C), "*", stringify!($R)), ["Mat::mul(Transpose) cols*rows"], mat_mat::<$C<T_>, $R<T_>, $R<T_>>());
        scen!($v, "C01", 0, concat!("c01/vec/", stringify!($R)), ["Mat*Vec", "Vec*Mat"], mat_vec::<$R<T_>>());
        scen!($v, "C01", 0, concat!("c01/vec/", stringify!($C)), ["Mat*Vec", "Vec*Mat"], mat_vec::<$C<T_>>());
        scen!($v, "C01", 0, concat!("c01/elementwise/", stringify!($R)), ["identity", "zero", "One", "Zero", "Mat∘Mat", "Mat∘scalar", "OpAssign", "mul_memberwise"], mat_elementwise::<$R<T_>>());
        scen!($v, "C01", 0, concat!("c01/elementwise/", stringify!($C)), ["identity", "zero", "One", "Zero", "Mat∘Mat", "Mat∘scalar", "OpAssign", "mul_memberwise"], mat_elementwise::<$C<T_>>());
    };
}

pub fn register(v: &mut Vec<Scenario>) {
    per_size!(v, Rows2 Cols2 2);
    per_size!(v, Rows3 Cols3 3);
    per_size!(v, Rows4 Cols4 4);
    scen!(v, "C01", 0, "c01/vec4_mat2", ["Vec4::mat2_rows_mul", "mat2_rows_adj_mul", "mat2_rows_mul_adj", "mat2_cols_mul", "mat2_cols_adj_mul", "mat2_cols_mul_adj"], vec4_mat2());
}
