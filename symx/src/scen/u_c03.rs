// C03 — element (i,j) means row i, column j in every matrix API, whatever the layout.
// Included twice (S = SymU / S = Cu). Row-major and column-major values run side by side.
use crate::core::*;
use crate::mats::*;
use crate::opq::OpqPrim;

type Entry = (String, &'static str, u8, Vec<&'static str>, Box<dyn Fn() + Send + Sync>);
type Abs = Vec<Vec<S>>;

fn app(name: &str, args: &[S]) -> S {
    <S as OpqPrim>::app(name, args)
}
fn zero() -> S {
    <S as num_traits::Zero>::zero()
}
fn one() -> S {
    <S as num_traits::One>::one()
}
fn elems(n: usize) -> Abs {
    (0..n).map(|i| (0..n).map(|j| var::<S>(&format!("e{}{}", i, j))).collect()).collect()
}
fn tr(a: &Abs) -> Abs {
    let n = a.len();
    (0..n).map(|i| (0..n).map(|j| a[j][i]).collect()).collect()
}
pub const STEPS: [&str; 12] = ["transposed", "transpose", "layout_roundtrip", "row_array", "col_array", "row_arrays", "col_arrays", "map", "map2", "as_", "diagonal", "index_write"];

/// everything the programs use, per concrete matrix type
pub trait MX: ML<S> + Copy {
    fn new_(a: &Abs) -> Self;
    fn idx(&self, i: usize, j: usize) -> S;
    fn step(self, s: usize) -> Self;
    fn row_slice(&self) -> Option<Vec<S>>;
    fn col_slice(&self) -> Option<Vec<S>>;
    fn gl_t(&self) -> bool;
    fn gl_const() -> bool;
    /// does reading / writing element (i, j) panic?
    fn idx_panics(&self, i: usize, j: usize) -> (bool, bool);
    fn show(&self) -> String;
    fn show_spec(&self) -> String;
    fn dflt() -> Self;
    fn diag_trace(self) -> (Vec<S>, S);
    fn bdiag(x: S) -> Self;
    /// map_rows (row-major) / map_cols (column-major) with a per-line function that knows which line it is called on
    fn map_lines(self) -> Self;
    /// write `x` through the mutable flat view at position 1
    fn slice_write(self, x: S) -> Self;
    fn counts(&self) -> [usize; 4];
}
macro_rules! mx { ($M:ident $O:ident $n:tt rows=$rows:tt ($($i:tt)+) new($p:ident; $($a:expr),+)) => { impl MX for $M<S> {
    fn new_($p: &Abs) -> Self { $M::new($($a),+) }
    fn idx(&self, i: usize, j: usize) -> S { self[(i, j)] }
    fn step(self, s: usize) -> Self {
        match s {
            0 => self.transposed(),
            1 => { let mut m = self; m.transpose(); m }
            2 => $M::from($O::from(self)),
            3 => $M::from_row_array(self.into_row_array()),
            4 => $M::from_col_array(self.into_col_array()),
            5 => $M::from_row_arrays(self.into_row_arrays()),
            6 => $M::from_col_arrays(self.into_col_arrays()),
            7 => self.map(|x| app("f", &[x])),
            8 => self.map2(self.transposed(), |x, y| app("g", &[x, y])),
            9 => self.as_::<S>(),
            10 => $M::with_diagonal(self.diagonal()),
            _ => { let mut m = self; m[(0, 1)] = app("w", &[m[(1, 0)]]); m }
        }
    }
    fn row_slice(&self) -> Option<Vec<S>> { mx!(@rs $rows self) }
    fn col_slice(&self) -> Option<Vec<S>> { mx!(@cs $rows self) }
    fn gl_t(&self) -> bool { self.gl_should_transpose() }
    fn gl_const() -> bool { Self::GL_SHOULD_TRANSPOSE }
    fn idx_panics(&self, i: usize, j: usize) -> (bool, bool) {
        let m = *self;
        let rd = catch(|| m[(i, j)]).is_err();
        let wr = catch(|| { let mut w = m; w[(i, j)] = zero(); w }).is_err();
        (rd, wr)
    }
    fn show(&self) -> String { format!("{}", self) }
    fn show_spec(&self) -> String { format!("{:+9.3}", self) }
    fn dflt() -> Self { $M::default() }
    fn diag_trace(self) -> (Vec<S>, S) { (VL::ent(&self.diagonal()), self.trace()) }
    fn bdiag(x: S) -> Self { $M::broadcast_diagonal(x) }
    fn map_lines(self) -> Self { let mut k = 0; mx!(@ml $rows self k) }
    fn slice_write(self, x: S) -> Self { let mut m = self; mx!(@sw $rows m x); m }
    fn counts(&self) -> [usize; 4] { [self.row_count(), self.col_count(), Self::ROW_COUNT, Self::COL_COUNT] }
} };
    (@ml true $s:ident $k:ident) => { $s.map_rows(|l| { $k += 1; let nm = format!("h{}", $k); l.map(|x| app(&nm, &[x])) }) };
    (@ml false $s:ident $k:ident) => { $s.map_cols(|l| { $k += 1; let nm = format!("h{}", $k); l.map(|x| app(&nm, &[x])) }) };
    (@sw true $m:ident $x:ident) => { $m.as_mut_row_slice()[1] = $x };
    (@sw false $m:ident $x:ident) => { $m.as_mut_col_slice()[1] = $x };
    (@rs true $s:ident) => { Some($s.as_row_slice().to_vec()) };
    (@rs false $s:ident) => { None };
    (@cs true $s:ident) => { None };
    (@cs false $s:ident) => { Some($s.as_col_slice().to_vec()) };
}
mx!(Rows2 Cols2 2 rows=true (0 1) new(a; a[0][0], a[0][1], a[1][0], a[1][1]));
mx!(Cols2 Rows2 2 rows=false (0 1) new(a; a[0][0], a[0][1], a[1][0], a[1][1]));
mx!(Rows3 Cols3 3 rows=true (0 1 2) new(a; a[0][0], a[0][1], a[0][2], a[1][0], a[1][1], a[1][2], a[2][0], a[2][1], a[2][2]));
mx!(Cols3 Rows3 3 rows=false (0 1 2) new(a; a[0][0], a[0][1], a[0][2], a[1][0], a[1][1], a[1][2], a[2][0], a[2][1], a[2][2]));
mx!(Rows4 Cols4 4 rows=true (0 1 2 3) new(a; a[0][0], a[0][1], a[0][2], a[0][3], a[1][0], a[1][1], a[1][2], a[1][3], a[2][0], a[2][1], a[2][2], a[2][3], a[3][0], a[3][1], a[3][2], a[3][3]));
mx!(Cols4 Rows4 4 rows=false (0 1 2 3) new(a; a[0][0], a[0][1], a[0][2], a[0][3], a[1][0], a[1][1], a[1][2], a[1][3], a[2][0], a[2][1], a[2][2], a[2][3], a[3][0], a[3][1], a[3][2], a[3][3]));

/// what each step does to the abstract matrix
fn abs_step(a: &Abs, s: usize) -> Abs {
    let n = a.len();
    match s {
        0 | 1 => tr(a),
        2..=6 => a.clone(),
        7 => a.iter().map(|r| r.iter().map(|x| app("f", &[*x])).collect()).collect(),
        8 => (0..n).map(|i| (0..n).map(|j| app("g", &[a[i][j], a[j][i]])).collect()).collect(),
        9 => a.iter().map(|r| r.iter().map(|x| app("as_", &[*x])).collect()).collect(),
        10 => (0..n).map(|i| (0..n).map(|j| if i == j { a[i][j] } else { zero() }).collect()).collect(),
        _ => { let mut b = a.clone(); b[0][1] = app("w", &[a[1][0]]); b }
    }
}
fn agree<M: MX>(tag: &str, m: &M, a: &Abs) {
    let n = a.len();
    let fields = m.ent();
    let mut fs = vec![];
    for i in 0..n {
        for j in 0..n {
            fs.push(eq(m.idx(i, j), a[i][j]));
            fs.push(eq(fields[i][j], a[i][j]));
        }
    }
    goal(tag, and(fs));
}
/// program encoded base 13 (digit = step+1)
fn program<R: MX, C: MX>(code: u32) {
    let n = R::N;
    let mut a = elems(n);
    // distinct elements: nothing lets (i,j) be confused with (j,i)
    let flat: Vec<S> = a.iter().flatten().cloned().collect();
    for x in 0..flat.len() { for y in x + 1..flat.len() { assume(ne(flat[x], flat[y])); } }
    let (mut r, mut c) = (R::new_(&a), C::new_(&a));
    agree("new: rows", &r, &a);
    agree("new: cols", &c, &a);
    let (mut code, mut k_) = (code, 0);
    while code > 0 {
        let s = (code % 13 - 1) as usize;
        r = r.step(s);
        c = c.step(s);
        a = abs_step(&a, s);
        agree(&format!("step{} {}: rows", k_, STEPS[s]), &r, &a);
        agree(&format!("step{} {}: cols", k_, STEPS[s]), &c, &a);
        code /= 13;
        k_ += 1;
    }
}
fn views<R: MX, C: MX>() {
    let n = R::N;
    let a = elems(n);
    let (r, c) = (R::new_(&a), C::new_(&a));
    let row_order: Vec<S> = a.iter().flatten().cloned().collect();
    let col_order: Vec<S> = tr(&a).iter().flatten().cloned().collect();
    let (rs, cs) = (r.row_slice().unwrap(), c.col_slice().unwrap());
    goal("as_row_slice lists rows", and(rs.iter().zip(&row_order).map(|(x, y)| eq(*x, *y)).collect()));
    goal("as_col_slice lists columns", and(cs.iter().zip(&col_order).map(|(x, y)| eq(*x, *y)).collect()));
    // read with the transpose flag reported for OpenGL (column-major reader), both denote the same matrix
    let gl = |flat: &[S], transpose: bool| -> Abs { (0..n).map(|i| (0..n).map(|j| if transpose { flat[i * n + j] } else { flat[j * n + i] }).collect()).collect() };
    let (gr, gc) = (gl(&rs, r.gl_t()), gl(&cs, c.gl_t()));
    goal("slice + gl_should_transpose denote the matrix", and((0..n).flat_map(|i| (0..n).flat_map(|j| vec![eq(gr[i][j], a[i][j]), eq(gc[i][j], a[i][j])]).collect::<Vec<_>>()).collect()));
    // the associated constant says the same as the method, in both layouts
    goal("GL_SHOULD_TRANSPOSE constant = gl_should_transpose()", lit(R::gl_const() == r.gl_t() && C::gl_const() == c.gl_t()));
    // (i, j) outside the matrix is refused in both layouts, on reads and on writes, whichever coordinate is out of range
    let mut bounds_ok = true;
    for (i, j) in [(n, 0), (0, n), (n, n - 1), (n - 1, n), (n + 1, 0), (0, n + 1)] {
        let ((rr, rw), (cr, cw)) = (r.idx_panics(i, j), c.idx_panics(i, j));
        bounds_ok &= rr && rw && cr && cw;
    }
    goal("an out-of-range (i, j) panics in both layouts (read and write)", lit(bounds_ok));
    // Display does not depend on the layout and lists the elements row by row (the property says nothing about
    // punctuation or about formatting parameters, so only the order of the element tokens and the equality of the
    // two layouts' outputs are demanded; element tokens are the `<name...>` groups the opaque scalar prints)
    let toks = |s: &str| -> Vec<String> { s.split('<').skip(1).map(|t| t.split(|c| c == '|' || c == '>').next().unwrap_or("").to_string()).collect() };
    let want: Vec<String> = a.iter().flatten().map(|x| toks(&format!("{}", x)).concat()).collect();
    let (sr, sc) = (r.show(), c.show());
    goal("Display is layout-independent", lit(sr == sc));
    goal("Display lists the elements row by row", lit(toks(&sr) == want && toks(&sc) == want));
    // ... also when formatting parameters are given
    let (pr, pc) = (r.show_spec(), c.show_spec());
    goal("Display with width/precision/sign is layout-independent", lit(pr == pc));
    goal("Display with width/precision/sign lists the elements row by row", lit(toks(&pr) == want && toks(&pc) == want));
    let idm: Abs = (0..n).map(|i| (0..n).map(|j| if i == j { one() } else { zero() }).collect()).collect();
    agree("Default = identity: rows", &R::dflt(), &idm);
    agree("Default = identity: cols", &C::dflt(), &idm);
    let (dr, trr) = r.diag_trace();
    let (dc, trc) = c.diag_trace();
    let d: Vec<S> = (0..n).map(|i| a[i][i]).collect();
    goal("diagonal", and(dr.iter().zip(&d).chain(dc.iter().zip(&d)).map(|(x, y)| eq(*x, *y)).collect()));
    let tsum = d[1..].iter().fold(d[0], |acc, x| app("add", &[acc, *x]));
    goal("trace = sum of the diagonal", and(vec![eq(trr, tsum), eq(trc, tsum)]));
    let x = var::<S>("x");
    let bd: Abs = (0..n).map(|i| (0..n).map(|j| if i == j { x } else { zero() }).collect()).collect();
    agree("broadcast_diagonal: rows", &R::bdiag(x), &bd);
    agree("broadcast_diagonal: cols", &C::bdiag(x), &bd);
    // map_rows hands the rows over in order (k-th call = row k), map_cols the columns
    let by_row: Abs = (0..n).map(|i| (0..n).map(|j| app(&format!("h{}", i + 1), &[a[i][j]])).collect()).collect();
    let by_col: Abs = (0..n).map(|i| (0..n).map(|j| app(&format!("h{}", j + 1), &[a[i][j]])).collect()).collect();
    agree("map_rows: k-th call gets row k, result row k", &r.map_lines(), &by_row);
    agree("map_cols: k-th call gets column k, result column k", &c.map_lines(), &by_col);
    // a write through the mutable flat view lands on the element the view's name says
    let (mut wr, mut wc) = (a.clone(), a.clone());
    wr[0][1] = x;
    wc[1][0] = x;
    agree("as_mut_row_slice()[1] is element (0,1)", &r.slice_write(x), &wr);
    agree("as_mut_col_slice()[1] is element (1,0)", &c.slice_write(x), &wc);
    goal("row_count/col_count/ROW_COUNT/COL_COUNT", lit(r.counts() == [n; 4] && c.counts() == [n; 4]));
}
/// conversions between sizes keep the common block and pad with the identity
fn resize() {
    let a4 = elems(4);
    let blk = |a: &Abs, n: usize| -> Abs { (0..n).map(|i| (0..n).map(|j| a[i][j]).collect()).collect() };
    let pad = |a: &Abs, n: usize| -> Abs { (0..n).map(|i| (0..n).map(|j| if i < a.len() && j < a.len() { a[i][j] } else if i == j { one() } else { zero() }).collect()).collect() };
    macro_rules! both { ($tag:expr, $r:expr, $c:expr, $want:expr) => {{ let w = $want; agree(concat!($tag, ": rows"), &$r, &w); agree(concat!($tag, ": cols"), &$c, &w); }} }
    let (r4, c4) = (Rows4::<S>::new_(&a4), Cols4::<S>::new_(&a4));
    both!("Mat3::from(Mat4)", Rows3::from(r4), Cols3::from(c4), blk(&a4, 3));
    both!("Mat2::from(Mat4)", Rows2::from(r4), Cols2::from(c4), blk(&a4, 2));
    let a3 = blk(&a4, 3);
    let (r3, c3) = (Rows3::<S>::new_(&a3), Cols3::<S>::new_(&a3));
    both!("Mat2::from(Mat3)", Rows2::from(r3), Cols2::from(c3), blk(&a4, 2));
    both!("Mat4::from(Mat3)", Rows4::from(r3), Cols4::from(c3), pad(&a3, 4));
    let a2 = blk(&a4, 2);
    let (r2, c2) = (Rows2::<S>::new_(&a2), Cols2::<S>::new_(&a2));
    both!("Mat3::from(Mat2)", Rows3::from(r2), Cols3::from(c2), pad(&a2, 3));
    both!("Mat4::from(Mat2)", Rows4::from(r2), Cols4::from(c2), pad(&a2, 4));
}
fn codes(len: u32) -> Vec<u32> {
    let total = 12u32.pow(len);
    (0..total).map(|x| { let (mut c, mut y, mut mul) = (0, x, 1); for _ in 0..len { c += (y % 12 + 1) * mul; y /= 12; mul *= 13; } c }).collect()
}
fn code_name(code: u32) -> String {
    let mut c = code;
    let mut v = vec![];
    while c > 0 { v.push(STEPS[(c % 13 - 1) as usize]); c /= 13; }
    v.join(".")
}

pub fn list() -> Vec<Entry> {
    let mut v: Vec<Entry> = vec![];
    let seed: u64 = std::env::var("VERIF_SEED").ok().and_then(|s| s.parse().ok()).unwrap_or(0);
    macro_rules! per { ($R:ident $C:ident $n:expr) => {
        let funcs = vec!["Mat::new", "Index<(usize,usize)>", "transposed", "transpose", "From<Transpose>", "into/from_row_array(s)", "into/from_col_array(s)", "map", "map2", "as_", "diagonal", "with_diagonal", "IndexMut"];
        for code in codes(1).into_iter().chain(codes(2)) {
            v.push((format!("c03/program/{}/{}", $n, code_name(code)), "C03", 0, funcs.clone(), Box::new(move || program::<$R<S>, $C<S>>(code))));
        }
        // thorough: every program of length 3 (a seeded third of them per run would not be exhaustive; all are run)
        for code in codes(3) {
            v.push((format!("c03/programT/{}/{}", $n, code_name(code)), "C03", 1, funcs.clone(), Box::new(move || program::<$R<S>, $C<S>>(code))));
        }
        v.push((format!("c03/views/{}", $n), "C03", 0, vec!["as_row_slice", "as_col_slice", "gl_should_transpose", "Display", "Default", "diagonal", "trace", "broadcast_diagonal", "map_rows", "map_cols", "as_mut_row_slice", "as_mut_col_slice", "row_count", "col_count"], Box::new(|| views::<$R<S>, $C<S>>())));
    } }
    let _ = seed;
    per!(Rows2 Cols2 2);
    per!(Rows3 Cols3 3);
    per!(Rows4 Cols4 4);
    v.push(("c03/resize".to_string(), "C03", 0, vec!["Mat2<->Mat3<->Mat4 From impls"], Box::new(resize)));
    v
}
