//! C06 — determinants are correct and the inverse functions really invert.
use crate::core::*;
use crate::explore::Scenario;
use crate::mats::*;
use crate::real::Sx;
use std::ops::*;

fn det_leibniz<T: Sx, M: MatOps<T>>()
where
    M::Other: MatOps<T>,
{
    let a = sym_mat::<T>("m", M::N);
    let m = M::of(&a);
    let want = leibniz(&a);
    goal("det=leibniz", eq(m.det(), want));
    goal("det(transposed)", eq(m.transposed_().det(), want));
    let mut t = m;
    t.transpose_();
    goal("det(transpose in place)", eq(t.det(), want));
    goal("det(other layout)", eq(m.to_other().det(), want));
}
fn det_product<T: Sx, M: MatOps<T> + Mul<M, Output = M>>() {
    let (a, b) = (sym_mat::<T>("a", M::N), sym_mat::<T>("b", M::N));
    goal("det(AB)=detA*detB", eq((M::of(&a) * M::of(&b)).det(), M::of(&a).det() * M::of(&b).det()));
}
trait Inv4<T>: MatOps<T> + Mul<Self, Output = Self> {
    fn inverted_(self) -> Self;
    fn invert_(&mut self);
    fn inv_rigid(self) -> Self;
    fn inv_rigid_mut(&mut self);
    fn inv_affine(self) -> Self;
    fn inv_affine_mut(&mut self);
}
macro_rules! inv4 { ($($M:ident)+) => { $( impl<T: Sx> Inv4<T> for $M<T> {
    fn inverted_(self) -> Self { self.inverted() }
    fn invert_(&mut self) { self.invert() }
    fn inv_rigid(self) -> Self { self.inverted_affine_transform_no_scale() }
    fn inv_rigid_mut(&mut self) { self.invert_affine_transform_no_scale() }
    fn inv_affine(self) -> Self { self.inverted_affine_transform() }
    fn inv_affine_mut(&mut self) { self.invert_affine_transform() }
} )+ } }
inv4!(Rows4 Cols4);

fn inverse_general<T: Sx, M: Inv4<T>>() {
    let a = sym_mat::<T>("m", 4);
    assume(ne(leibniz(&a), k(0)));
    check_defined();
    let m = M::of(&a);
    let inv = m.inverted_();
    goals_mat("M*inv", &(m * inv).ent(), &ident(4));
    goals_mat("inv*M", &(inv * m).ent(), &ident(4));
    let mut n = m;
    n.invert_();
    goals_mat("invert()=inverted()", &n.ent(), &inv.ent());
}
fn rigid<T: Sx>() -> (Vec<Vec<T>>, T) {
    let (r, n) = rot_of_quat::<T>(var("qx"), var("qy"), var("qz"), var("qw"));
    let t = sym_vec::<T>("t", 3);
    let mut m = ident::<T>(4);
    for i in 0..3 {
        for j in 0..3 {
            m[i][j] = r[i][j];
        }
        m[i][3] = t[i];
    }
    (m, n)
}
fn inverse_rigid<T: Sx, M: Inv4<T>>() {
    let (a, n) = rigid::<T>();
    assume(ne(n, k(0)));
    let m = M::of(&a);
    let inv = m.inv_rigid();
    goals_mat("M*inv", &(m * inv).ent(), &ident(4));
    goals_mat("inv*M", &(inv * m).ent(), &ident(4));
    goals_mat("=inverted()", &inv.ent(), &m.inverted_().ent());
    let mut x = m;
    x.inv_rigid_mut();
    goals_mat("in-place", &x.ent(), &inv.ent());
}
fn inverse_affine<T: Sx, M: Inv4<T>>() {
    let (mut a, n) = rigid::<T>();
    let s = sym_vec::<T>("s", 3);
    assume(ne(n, k(0)));
    let eps = T::epsilon();
    for i in 0..3 {
        assume(gt(s[i] * s[i], eps * k(256))); // "scales not negligibly small": clear of the code's |x| > EPS select, whatever its exact threshold
    }
    // M = T * R * S : column j of the rotation block is scaled by s_j
    for i in 0..3 {
        for j in 0..3 {
            a[i][j] = a[i][j] * s[j];
        }
    }
    let m = M::of(&a);
    let inv = m.inv_affine();
    let (p, ie) = ((m * inv).ent(), inv.ent());
    // the 3x3 block of M*inv = I is proved directly; the translation column follows from it by a cut:
    // with the entries of M's and inv's 3x3 blocks abstracted to fresh variables,
    // (M*inv)[i][3] = t_i - sum_j (M*inv)[i][j] t_j is a low-degree identity.
    for i in 0..4 {
        for j in 0..4 {
            let name = if j == 3 && i < 3 { format!("cutT/M*inv[{}][3]", i) } else { format!("M*inv[{}][{}]", i, j) };
            if i < 3 && j < 3 {
                lemma("cutT/", &name, eq(p[i][j], k((i == j) as i64)));
            } else {
                goal(&name, eq(p[i][j], k((i == j) as i64)));
            }
        }
    }
    let mut abs = vec![];
    for i in 0..3 {
        for j in 0..3 {
            abs.push(ie[i][j]);
            abs.push(a[i][j]);
        }
    }
    abstract_terms("cutT/", &abs);
    goals_mat("inv*M", &(inv * m).ent(), &ident(4));
    goals_mat("=inverted()", &inv.ent(), &m.inverted_().ent());
    let mut x = m;
    x.inv_affine_mut();
    goals_mat("in-place", &x.ent(), &inv.ent());
}

pub fn register(v: &mut Vec<Scenario>) {
    macro_rules! dets { ($($M:ident)+) => { $(
        scen!(v, "C06", 0, concat!("c06/det/", stringify!($M)), ["determinant", "transposed", "transpose", "From<Transpose>"], det_leibniz::<$M<T_>>());
    )+ } }
    dets!(Rows2 Cols2 Rows3 Cols3 Rows4 Cols4);
    scen!(v, "C06", 0, "c06/detprod/Rows2", ["determinant", "Mul"], det_product::<Rows2<T_>>());
    scen!(v, "C06", 0, "c06/detprod/Cols2", ["determinant", "Mul"], det_product::<Cols2<T_>>());
    scen!(v, "C06", 0, "c06/detprod/Rows3", ["determinant", "Mul"], det_product::<Rows3<T_>>());
    scen!(v, "C06", 0, "c06/detprod/Cols3", ["determinant", "Mul"], det_product::<Cols3<T_>>());
    scen!(v, "C06", 1, "c06/detprod/Rows4", ["determinant", "Mul"], det_product::<Rows4<T_>>());
    scen!(v, "C06", 1, "c06/detprod/Cols4", ["determinant", "Mul"], det_product::<Cols4<T_>>());
    scen!(v, "C06", 0, "c06/inverted/Rows4", ["Mat4::inverted", "Mat4::invert", "Vec4 shuffles", "Vec4::mat2_*", "hadd"], inverse_general::<Rows4<T_>>());
    scen!(v, "C06", 0, "c06/inverted/Cols4", ["Mat4::inverted", "Mat4::invert", "Vec4 shuffles", "Vec4::mat2_*", "hadd"], inverse_general::<Cols4<T_>>());
    scen!(v, "C06", 0, "c06/inverted_rigid/Rows4", ["inverted_affine_transform_no_scale", "invert_affine_transform_no_scale"], inverse_rigid::<Rows4<T_>>());
    scen!(v, "C06", 0, "c06/inverted_rigid/Cols4", ["inverted_affine_transform_no_scale", "invert_affine_transform_no_scale"], inverse_rigid::<Cols4<T_>>());
    scen!(v, "C06", 0, "c06/inverted_affine/Rows4", ["inverted_affine_transform", "invert_affine_transform"], inverse_affine::<Rows4<T_>>());
    scen!(v, "C06", 0, "c06/inverted_affine/Cols4", ["inverted_affine_transform", "invert_affine_transform"], inverse_affine::<Cols4<T_>>());
}
