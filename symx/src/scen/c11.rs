//! C11 — spatial vector functions satisfy their geometric definitions.
#![allow(deprecated)]
use crate::core::*;
use crate::explore::Scenario;
use crate::real::Sx;
use crate::vecs::*;
use num_traits::Float;
use vek::ops::Slerp;

pub trait Spat<T>: VK<T> + Copy {
    fn dot_(self, o: Self) -> T;
    fn mag2(self) -> T;
    fn mag(self) -> T;
    fn dist2(self, o: Self) -> T;
    fn dist(self, o: Self) -> T;
    fn normalized_(self) -> Self;
    fn normalize_(&mut self);
    fn norm_mag(self) -> (Self, T);
    fn norm_mag_mut(&mut self) -> T;
    fn try_norm(self) -> Option<Self>;
    fn is_norm(self) -> bool;
    fn is_zeroish(self) -> bool;
    fn is_close(self, x: T) -> bool;
    fn angle(self, o: Self) -> T;
    fn angle_deg(self, o: Self) -> T;
    fn reflected_(self, n: Self) -> Self;
    fn refracted_(self, n: Self, eta: T) -> Self;
    fn face_fwd(self, i: Self, r: Self) -> Self;
}
macro_rules! spat { ($($V:ident)+) => { $( impl<T: Sx> Spat<T> for $V<T> {
    fn dot_(self, o: Self) -> T { self.dot(o) }
    fn mag2(self) -> T { self.magnitude_squared() }
    fn mag(self) -> T { self.magnitude() }
    fn dist2(self, o: Self) -> T { self.distance_squared(o) }
    fn dist(self, o: Self) -> T { self.distance(o) }
    fn normalized_(self) -> Self { self.normalized() }
    fn normalize_(&mut self) { self.normalize() }
    fn norm_mag(self) -> (Self, T) { self.normalized_and_get_magnitude() }
    fn norm_mag_mut(&mut self) -> T { self.normalize_and_get_magnitude() }
    fn try_norm(self) -> Option<Self> { self.try_normalized() }
    fn is_norm(self) -> bool { self.is_normalized() }
    fn is_zeroish(self) -> bool { self.is_approx_zero() }
    fn is_close(self, x: T) -> bool { self.is_magnitude_close_to(x) }
    fn angle(self, o: Self) -> T { self.angle_between(o) }
    fn angle_deg(self, o: Self) -> T { self.angle_between_degrees(o) }
    fn reflected_(self, n: Self) -> Self { self.reflected(n) }
    fn refracted_(self, n: Self, eta: T) -> Self { self.refracted(n, eta) }
    fn face_fwd(self, i: Self, r: Self) -> Self { self.face_forward(i, r) }
} )+ } }
spat!(Vec2 Vec3 Vec4 Vec8 Vec16 Vec32 Vec64 Extent2 Extent3);

fn symv<T: Sx>(p: &str, n: usize) -> Vec<T> {
    (0..n).map(|i| var::<T>(&format!("{}{}", p, i))).collect()
}
fn dotl<T: Sx>(a: &[T], b: &[T]) -> T {
    a.iter().zip(b).fold(k::<T>(0), |s, (x, y)| s + *x * *y)
}
fn eqv<T: Sx>(tag: &str, got: &[T], want: &[T]) {
    assert_eq!(got.len(), want.len());
    goal(tag, and(got.iter().zip(want).map(|(g, w)| eq(*g, *w)).collect()));
}
/// relative_eq(a, b, e, e) of approx, in formula form
#[allow(dead_code)]
fn rel_eq_fm<T: Sx>(a: T, b: T, e: T) -> Fm {
    let d = a - b;
    let within = |x: T, bound: T| and(vec![le(x, bound), le(-x, bound)]);
    or(vec![eq(a, b), within(d, e), and(vec![ge(a * a, b * b), within(d, a * e), ge(a, k(0))]), and(vec![ge(a * a, b * b), within(d, -a * e), lt(a, k(0))]), and(vec![lt(a * a, b * b), within(d, b * e), ge(b, k(0))]), and(vec![lt(a * a, b * b), within(d, -b * e), lt(b, k(0))])])
}

fn metric<T: Sx, V: Spat<T>>() {
    let (a, b) = (symv::<T>("a", V::N), symv::<T>("b", V::N));
    let (va, vb) = (V::of(&a), V::of(&b));
    goal("dot", eq(va.dot_(vb), dotl(&a, &b)));
    goal("dot symmetric", eq(va.dot_(vb), vb.dot_(va)));
    let s = var::<T>("s");
    let c = symv::<T>("c", V::N);
    let lin: Vec<T> = (0..V::N).map(|i| a[i] + s * c[i]).collect();
    goal("dot bilinear", eq(V::of(&lin).dot_(vb), va.dot_(vb) + s * V::of(&c).dot_(vb)));
    goal("magnitude_squared", eq(va.mag2(), dotl(&a, &a)));
    goal("magnitude", and(vec![ge(va.mag(), k(0)), eq(va.mag() * va.mag(), dotl(&a, &a))]));
    let d: Vec<T> = (0..V::N).map(|i| a[i] - b[i]).collect();
    goal("distance_squared", eq(va.dist2(vb), dotl(&d, &d)));
    goal("distance", and(vec![ge(va.dist(vb), k(0)), eq(va.dist(vb) * va.dist(vb), dotl(&d, &d))]));
}
fn normalize<T: Sx, V: Spat<T>>() {
    let a = symv::<T>("a", V::N);
    assume(ne(dotl(&a, &a), k(0)));
    check_defined();
    let va = V::of(&a);
    let n = va.normalized_().ent();
    let m = dotl(&a, &a).sqrt();
    goal("unit", eq(dotl(&n, &n), k(1)));
    eqv("parallel", &n.iter().map(|x| *x * m).collect::<Vec<_>>(), &a);
    let (n2, m2) = va.norm_mag();
    eqv("normalized_and_get_magnitude", &n2.ent(), &n);
    goal("…magnitude", and(vec![ge(m2, k(0)), eq(m2 * m2, dotl(&a, &a))]));
    let mut x = va;
    x.normalize_();
    eqv("normalize (in place)", &x.ent(), &n);
    let mut y = va;
    let m3 = y.norm_mag_mut();
    eqv("normalize_and_get_magnitude", &y.ent(), &n);
    goal("…magnitude (in place)", eq(m3, m2));
}
/// one predicate per scenario (path counts multiply otherwise): 0 is_approx_zero, 1 is_normalized,
/// 2 is_magnitude_close_to, 3 try_normalized.
/// The property fixes no tolerance ("refusing only near-zero vectors"), so the goals do not pin vek's thresholds:
/// the exact case must be accepted, and whatever is accepted must be within `SLACK * EPS` (relative to the larger
/// magnitude where the comparison is relative) — 64 times what the current code allows, so a retuned threshold is
/// not an alarm while a wrong operand, a missing square or an inverted test is.
fn approx_preds<T: Sx, V: Spat<T>>(which: usize) {
    let a = symv::<T>("a", V::N);
    let va = V::of(&a);
    let slack = T::epsilon() * k(256);
    let m2 = dotl(&a, &a);
    // both arguments are sums of squares here, so 1 + x + y bounds max(1, |x|, |y|) from above without an absolute value
    let near = |x: T, y: T| { let d = x - y; let big = k::<T>(1) + x + y; and(vec![le(d, slack * big), le(-d, slack * big)]) };
    match which {
        0 => {
            goal("the zero vector is approximately zero", imp(eq(m2, k(0)), lit(va.is_zeroish())));
            goal("is_approx_zero only for near-zero vectors", imp(lit(va.is_zeroish()), le(m2, slack)));
        }
        1 => {
            goal("a unit vector is normalized", imp(eq(m2, k(1)), lit(va.is_norm())));
            goal("is_normalized only near unit length", imp(lit(va.is_norm()), near(m2, k(1))));
        }
        2 => {
            let x = var::<T>("x");
            goal("is_magnitude_close_to accepts the exact magnitude", imp(eq(m2, x * x), lit(va.is_close(x))));
            goal("is_magnitude_close_to only near that magnitude", imp(lit(va.is_close(x)), near(m2, x * x)));
        }
        _ => match va.try_norm() {
            None => goal("try_normalized refuses only near-zero vectors", le(m2, slack)),
            Some(n) => {
                goal("try_normalized never accepts the zero vector", gt(m2, k(0)));
                let n = n.ent();
                goal("try_normalized unit", eq(dotl(&n, &n), k(1)));
                let m = m2.sqrt();
                eqv("try_normalized parallel", &n.iter().map(|x| *x * m).collect::<Vec<_>>(), &a);
            }
        },
    }
}
fn reflect_refract<T: Sx, V: Spat<T>>() {
    let (v, n) = (symv::<T>("v", V::N), symv::<T>("n", V::N));
    let (vv, vn) = (V::of(&v), V::of(&n));
    let r = vv.reflected_(vn).ent();
    let d = dotl(&v, &n);
    eqv("reflected = v - 2(v.n)n", &r, &(0..V::N).map(|i| v[i] - k::<T>(2) * d * n[i]).collect::<Vec<_>>());
    hyp("unit-n/", eq(dotl(&n, &n), k(1))); // a precondition of the unit-n/ goals only (not a lemma)
    goal("unit-n/|r|=|v|", eq(dotl(&r, &r), dotl(&v, &v)));
    goal("unit-n/r.n=-v.n", eq(dotl(&r, &n), -d));
    // refraction: zero vector on total internal reflection, else Snell on the tangential part
    let eta = var::<T>("eta");
    let t = vv.refracted_(vn, eta).ent();
    let kk = k::<T>(1) - eta * eta * (k::<T>(1) - d * d);
    let tang = |x: &[T]| -> Vec<T> { let dn = dotl(x, &n); (0..V::N).map(|i| x[i] - n[i] * dn).collect() };
    let (tr, ti) = (tang(&t), tang(&v));
    goal("unit-n/refracted", or(vec![
        and(vec![lt(kk, k(0)), and(t.iter().map(|x| eq(*x, k(0))).collect())]),
        and(vec![ge(kk, k(0)), and((0..V::N).map(|i| eq(tr[i], ti[i] * eta)).collect()), le(dotl(&t, &n), k(0)), eq(dotl(&t, &n) * dotl(&t, &n), kk)]),
    ]));
    // face_forward flips by the sign of the reference dot product
    let (i_, r_) = (symv::<T>("i", V::N), symv::<T>("g", V::N));
    let ff = vv.face_fwd(V::of(&i_), V::of(&r_)).ent();
    let dd = dotl(&r_, &i_);
    goal("face_forward", or(vec![and(vec![le(dd, k(0)), and((0..V::N).map(|j| eq(ff[j], v[j])).collect())]), and(vec![gt(dd, k(0)), and((0..V::N).map(|j| eq(ff[j], -v[j])).collect())])]));
}
fn angle<T: Sx, V: Spat<T>>() {
    let (a, b) = (symv::<T>("a", V::N), symv::<T>("b", V::N));
    let (va, vb) = (V::of(&a), V::of(&b));
    // the quantities the code itself computes (same hash-consed terms): |a|^2, |b|^2, |a|, |b|, na.nb
    let (p, q, ma, mb) = (va.mag2(), vb.mag2(), va.mag(), vb.mag());
    assume(ne(p, k(0)));
    assume(ne(q, k(0)));
    let c = va.normalized_().dot_(vb.normalized_());
    let d = dotl(&a, &b);
    // lemmas, each proved as an ordinary goal; the main goals then use them with the big sums abstracted
    let mut sos = k::<T>(0);
    let mut ws = vec![];
    for i in 0..V::N {
        for j in i + 1..V::N {
            let w = a[i] * b[j] - a[j] * b[i];
            ws.push(w);
            sos = sos + w * w;
        }
    }
    // a sum of squares is non-negative: decided with the squared terms abstracted (keeps the SOS shape)
    abstract_terms("sos/", &ws);
    let lemmas = vec![("lemma-lagrange", eq(p * q - d * d, sos)), ("sos/lemma-sos>=0", ge(sos, k(0))), ("lemma-cosine", eq(c * ma * mb, d)), ("lemma-p>0", gt(p, k(0))), ("lemma-q>0", gt(q, k(0)))];
    for (n, f) in lemmas {
        lemma("cs/", n, f);
    }
    abstract_terms("cs/", &[p, q, c, d, sos]);
    let ang = va.angle(vb);
    goal("cs/angle in [0,PI]", and(vec![ge(ang, k(0)), le(ang, T::PI())]));
    // cos(angle) * |a||b| = a.b   (exact reals: Cauchy-Schwarz keeps the clamp inactive)
    goal("cs/cos(angle)|a||b|=a.b", eq(ang.cos() * ma * mb, d));
    goal("degrees", eq(va.angle_deg(vb) * T::PI(), ang * k(180)));
}
fn vec2_side<T: Sx>() {
    let (a, b, c) = (symv::<T>("a", 2), symv::<T>("b", 2), symv::<T>("c", 2));
    let cr = (b[0] - a[0]) * (c[1] - a[1]) - (b[1] - a[1]) * (c[0] - a[0]);
    let (va, vb, vc) = (Vec2::of(&a), Vec2::of(&b), Vec2::of(&c));
    goal("determine_side = 2D cross product", eq(vc.determine_side(va, vb), cr));
    goal("signed_triangle_area = cross/2", eq(Vec2::signed_triangle_area(va, vb, vc) * k(2), cr));
    let ar = Vec2::triangle_area(va, vb, vc);
    goal("triangle_area = |cross|/2", and(vec![ge(ar, k(0)), or(vec![eq(ar * k(2), cr), eq(ar * k(2), -cr)])]));
}
fn vec3_cross<T: Sx>() {
    let (a, b, c) = (symv::<T>("a", 3), symv::<T>("b", 3), symv::<T>("c", 3));
    let s = var::<T>("s");
    let (va, vb, vc) = (Vec3::of(&a), Vec3::of(&b), Vec3::of(&c));
    let x = va.cross(vb).ent();
    eqv("cross formula", &x, &[a[1] * b[2] - a[2] * b[1], a[2] * b[0] - a[0] * b[2], a[0] * b[1] - a[1] * b[0]]);
    eqv("anticommutative", &x, &vb.cross(va).ent().iter().map(|t| -*t).collect::<Vec<_>>());
    goal("orthogonal to both", and(vec![eq(dotl(&x, &a), k(0)), eq(dotl(&x, &b), k(0))]));
    goal("|axb|^2=|a|^2|b|^2-(a.b)^2", eq(dotl(&x, &x), dotl(&a, &a) * dotl(&b, &b) - dotl(&a, &b) * dotl(&a, &b)));
    let lin: Vec<T> = (0..3).map(|i| a[i] + s * c[i]).collect();
    let l = Vec3::of(&lin).cross(vb).ent();
    let r = vc.cross(vb).ent();
    eqv("bilinear", &l, &(0..3).map(|i| x[i] + s * r[i]).collect::<Vec<_>>());
}
fn vec4_homog<T: Sx>() {
    let a = symv::<T>("a", 4);
    let va = Vec4::of(&a);
    let e = T::epsilon();
    // no tolerance is fixed by the property: exact w is accepted, and what is accepted is near that w
    let slack = e * k(256);
    let near = |x: T, y: T| { let d = x - y; and(vec![le(d, slack), le(-d, slack)]) };
    goal("w = 1 is a point", imp(eq(a[3], k(1)), lit(va.is_point())));
    goal("is_point only near w = 1", imp(lit(va.is_point()), near(a[3], k(1))));
    goal("w = 0 is a direction", imp(eq(a[3], k(0)), lit(va.is_direction())));
    goal("is_direction only near w = 0", imp(lit(va.is_direction()), near(a[3], k(0))));
    goal("is_homogeneous = point or direction", iff(lit(va.is_homogeneous()), or(vec![lit(va.is_point()), lit(va.is_direction())])));
}
fn vec4_homogenize<T: Sx>() {
    let a = symv::<T>("a", 4);
    assume(ne(a[3], k(0)));
    check_defined();
    let va = Vec4::of(&a);
    let h = va.homogenized().ent();
    goal("w=1", eq(h[3], k(1)));
    eqv("same projective point", &(0..3).map(|i| h[i] * a[3]).collect::<Vec<_>>(), &a[..3]);
    let mut x = va;
    x.homogenize();
    eqv("homogenize (in place)", &x.ent(), &h);
}
/// spherical interpolation of vectors: endpoints and linear length interpolation
fn vec_slerp<T: Sx>(four: bool) {
    let (a, b) = (symv::<T>("a", 3), symv::<T>("b", 3));
    let t = var::<T>("t");
    let (aa, bb, ab) = (dotl(&a, &a), dotl(&b, &b), dotl(&a, &b));
    assume(ne(aa, k(0)));
    assume(ne(bb, k(0)));
    // not parallel (sin alpha != 0)
    assume(ne(aa * bb, ab * ab));
    let run = |x: T| -> Vec<T> {
        let _ = four;
        Vec3::slerp_unclamped(Vec3::of(&a), Vec3::of(&b), x).ent()
    };
    eqv("slerp(0)=from", &run(k(0)), &a);
    eqv("slerp(1)=to", &run(k(1)), &b);
    let r = run(t);
    let (ma, mb) = (aa.sqrt(), bb.sqrt());
    let want = ma + t * (mb - ma);
    goal("cut/|slerp(t)|^2 = lerp(|from|,|to|,t)^2", eq(dotl(&r, &r), want * want));
    // clamped form = unclamped at the clamped factor; Slerp trait = inherent
    let tc = |x: T| if x < k(0) { k(0) } else if x > k(1) { k(1) } else { x };
    let cl = Vec3::slerp(Vec3::of(&a), Vec3::of(&b), t).ent();
    eqv("slerp = slerp_unclamped(clamp01(t))", &cl, &Vec3::slerp_unclamped(Vec3::of(&a), Vec3::of(&b), tc(t)).ent());
    eqv("Slerp trait", &<Vec3<T> as Slerp<T>>::slerp_unclamped(Vec3::of(&a), Vec3::of(&b), t).ent(), &Vec3::slerp_unclamped(Vec3::of(&a), Vec3::of(&b), t).ent());
}

pub fn register(v: &mut Vec<Scenario>) {
    macro_rules! per { ($tier:expr; $($V:ident)+) => { $(
        scen!(v, "C11", $tier, concat!("c11/metric/", stringify!($V)), ["dot", "magnitude_squared", "magnitude", "distance_squared", "distance"], metric::<$V<T_>>());
        scen!(v, "C11", $tier, concat!("c11/normalize/", stringify!($V)), ["normalized", "normalize", "normalized_and_get_magnitude", "normalize_and_get_magnitude"], normalize::<$V<T_>>());
        for which in 0..4usize { scen!(v, "C11", $tier, format!("c11/{}/{}", ["is_approx_zero", "is_normalized", "is_magnitude_close_to", "try_normalized"][which], stringify!($V)), ["is_approx_zero", "is_normalized", "is_magnitude_close_to", "try_normalized"], approx_preds::<$V<T_>>(which)); }
        scen!(v, "C11", if <$V<f64> as VK<f64>>::N >= 8 { 1 } else { $tier }, concat!("c11/reflect_refract/", stringify!($V)), ["reflected", "refracted", "face_forward"], reflect_refract::<$V<T_>>());
        scen!(v, "C11", $tier, concat!("c11/angle/", stringify!($V)), ["angle_between", "angle_between_degrees"], angle::<$V<T_>>());
    )+ } }
    per!(0; Vec2 Vec3 Vec4 Vec8 Extent2 Extent3);
    per!(1; Vec16 Vec32 Vec64);
    scen!(v, "C11", 0, "c11/vec2_side", ["Vec2::determine_side", "signed_triangle_area", "triangle_area"], vec2_side());
    scen!(v, "C11", 0, "c11/vec3_cross", ["Vec3::cross"], vec3_cross());
    scen!(v, "C11", 0, "c11/vec4_homog", ["Vec4::is_point", "is_direction", "is_homogeneous"], vec4_homog());
    scen!(v, "C11", 0, "c11/vec4_homogenize", ["Vec4::homogenized", "homogenize"], vec4_homogenize());
    scen!(v, "C11", 0, "c11/vec3_slerp", ["Vec3::slerp_unclamped", "Vec3::slerp", "Slerp for Vec3"], vec_slerp(false));
}
