//! C08 — projection matrices map the view volume onto the canonical clip volume.
use crate::core::*;
use crate::explore::Scenario;
use crate::mats::*;
use crate::real::Sx;
use num_traits::Float;
use vek::FrustumPlanes;

pub trait Proj<T>: MatOps<T> {
    /// planes = [l, r, b, t, n, f]
    fn planes(name: &str, p: &[T]) -> Self;
    /// a = [fov, aspect | width,height , near, far|eps ...]
    fn persp(name: &str, a: &[T]) -> Self;
    fn mulv(self, v: Vec4<T>) -> Vec4<T>;
}
macro_rules! proj { ($($M:ident)+) => { $( impl<T: Sx> Proj<T> for $M<T> {
    fn planes(name: &str, p: &[T]) -> Self {
        let o = FrustumPlanes { left: p[0], right: p[1], bottom: p[2], top: p[3], near: p[4], far: p[5] };
        match name {
            "orthographic_without_depth_planes" => $M::orthographic_without_depth_planes(o),
            "orthographic_lh_zo" => $M::orthographic_lh_zo(o), "orthographic_lh_no" => $M::orthographic_lh_no(o),
            "orthographic_rh_zo" => $M::orthographic_rh_zo(o), "orthographic_rh_no" => $M::orthographic_rh_no(o),
            "frustum_lh_zo" => $M::frustum_lh_zo(o), "frustum_lh_no" => $M::frustum_lh_no(o),
            "frustum_rh_zo" => $M::frustum_rh_zo(o), "frustum_rh_no" => $M::frustum_rh_no(o),
            _ => panic!("planes ctor {}", name),
        }
    }
    fn persp(name: &str, a: &[T]) -> Self {
        match name {
            "perspective_rh_zo" => $M::perspective_rh_zo(a[0], a[1], a[2], a[3]), "perspective_lh_zo" => $M::perspective_lh_zo(a[0], a[1], a[2], a[3]),
            "perspective_rh_no" => $M::perspective_rh_no(a[0], a[1], a[2], a[3]), "perspective_lh_no" => $M::perspective_lh_no(a[0], a[1], a[2], a[3]),
            "perspective_fov_rh_zo" => $M::perspective_fov_rh_zo(a[0], a[1], a[2], a[3], a[4]), "perspective_fov_lh_zo" => $M::perspective_fov_lh_zo(a[0], a[1], a[2], a[3], a[4]),
            "perspective_fov_rh_no" => $M::perspective_fov_rh_no(a[0], a[1], a[2], a[3], a[4]), "perspective_fov_lh_no" => $M::perspective_fov_lh_no(a[0], a[1], a[2], a[3], a[4]),
            "tweaked_infinite_perspective_rh" => $M::tweaked_infinite_perspective_rh(a[0], a[1], a[2], a[3]), "tweaked_infinite_perspective_lh" => $M::tweaked_infinite_perspective_lh(a[0], a[1], a[2], a[3]),
            "infinite_perspective_rh" => $M::infinite_perspective_rh(a[0], a[1], a[2]), "infinite_perspective_lh" => $M::infinite_perspective_lh(a[0], a[1], a[2]),
            _ => panic!("persp ctor {}", name),
        }
    }
    fn mulv(self, v: Vec4<T>) -> Vec4<T> { self * v }
} )+ } }
proj!(Rows4 Cols4);

fn planes_sym<T: Sx>() -> Vec<T> {
    ["l", "r", "b", "t", "n", "f"].iter().map(|n| var::<T>(n)).collect()
}
/// after the homogeneous divide the point is (sx, sy, depth) — stated without dividing: c.x = sx*c.w …
fn corner_goal<T: Sx>(tag: &str, c: Vec4<T>, sx: i64, sy: i64, depth: i64) {
    goal(tag, and(vec![ne(c.w, k(0)), eq(c.x, k::<T>(sx) * c.w), eq(c.y, k::<T>(sy) * c.w), eq(c.z, k::<T>(depth) * c.w)]));
}
fn ortho<T: Sx, M: Proj<T>>(name: &'static str) {
    let p = planes_sym::<T>();
    assume(ne(p[0], p[1]));
    assume(ne(p[2], p[3]));
    assume(ne(p[4], p[5]));
    check_defined();
    let m = M::planes(name, &p);
    let lh = name.contains("_lh_");
    let near_depth = if name.ends_with("_zo") { 0 } else { -1 };
    let zs = if lh { 1 } else { -1 };
    for (xi, x) in [p[0], p[1]].iter().enumerate() {
        for (yi, y) in [p[2], p[3]].iter().enumerate() {
            let (sx, sy) = (2 * xi as i64 - 1, 2 * yi as i64 - 1);
            if name == "orthographic_without_depth_planes" {
                let z = var::<T>("z");
                let c = m.mulv(v4(&[*x, *y, z, k(1)]));
                goal(&format!("corner{}{}", xi, yi), and(vec![eq(c.x, k(sx)), eq(c.y, k(sy)), eq(c.z, z), eq(c.w, k(1))]));
                continue;
            }
            let cn = m.mulv(v4(&[*x, *y, k::<T>(zs) * p[4], k(1)]));
            corner_goal(&format!("near{}{}", xi, yi), cn, sx, sy, near_depth);
            goal(&format!("near{}{} w=1", xi, yi), eq(cn.w, k(1)));
            let cf = m.mulv(v4(&[*x, *y, k::<T>(zs) * p[5], k(1)]));
            corner_goal(&format!("far{}{}", xi, yi), cf, sx, sy, 1);
        }
    }
}
fn frustum<T: Sx, M: Proj<T>>(name: &'static str) {
    let p = planes_sym::<T>();
    assume(ne(p[0], p[1]));
    assume(ne(p[2], p[3]));
    assume(ne(p[4], p[5]));
    assume(gt(p[4], k(0)));
    assume(gt(p[5], k(0)));
    check_defined();
    let m = M::planes(name, &p);
    let lh = name.contains("_lh_");
    let near_depth = if name.ends_with("_zo") { 0 } else { -1 };
    let zs = k::<T>(if lh { 1 } else { -1 });
    let ratio = p[5] / p[4];
    for (xi, x) in [p[0], p[1]].iter().enumerate() {
        for (yi, y) in [p[2], p[3]].iter().enumerate() {
            let (sx, sy) = (2 * xi as i64 - 1, 2 * yi as i64 - 1);
            let cn = m.mulv(v4(&[*x, *y, zs * p[4], k(1)]));
            corner_goal(&format!("near{}{}", xi, yi), cn, sx, sy, near_depth);
            let cf = m.mulv(v4(&[*x * ratio, *y * ratio, zs * p[5], k(1)]));
            corner_goal(&format!("far{}{}", xi, yi), cf, sx, sy, 1);
        }
    }
    // points in front of the viewer get positive w
    let (x, y, d) = (var::<T>("x"), var::<T>("y"), var::<T>("d"));
    assume(gt(d, k(0)));
    let c = m.mulv(v4(&[x, y, zs * d, k(1)]));
    goal("w>0 in front", gt(c.w, k(0)));
}
/// perspective family: [fov, aspect, near, far] or [fov, width, height, near, far]
fn perspective<T: Sx, M: Proj<T>>(name: &'static str) {
    let fovk = name.contains("_fov_");
    let fov = var::<T>("fov");
    let (n, f) = (var::<T>("n"), var::<T>("f"));
    let (aspect, args) = if fovk {
        let (w, h) = (var::<T>("width"), var::<T>("height"));
        assume(gt(w, k(0)));
        assume(gt(h, k(0)));
        (w / h, vec![fov, w, h, n, f])
    } else {
        let a = var::<T>("aspect");
        assume(gt(a, k(0)));
        (a, vec![fov, a, n, f])
    };
    assume(gt(fov, k(0)));
    assume(lt(fov, T::PI()));
    assume(gt(n, k(0)));
    assume(gt(f, n));
    check_defined();
    let m = M::persp(name, &args);
    let th = (fov / k(2)).tan();
    let lh = name.contains("_lh_");
    let near_depth = if name.ends_with("_zo") { 0 } else { -1 };
    let zs = k::<T>(if lh { 1 } else { -1 });
    for sx in [-1i64, 1] {
        for sy in [-1i64, 1] {
            for (tag, d, depth) in [("near", n, near_depth), ("far", f, 1)] {
                let c = m.mulv(v4(&[k::<T>(sx) * d * th * aspect, k::<T>(sy) * d * th, zs * d, k(1)]));
                corner_goal(&format!("{}{}{}", tag, sx, sy), c, sx, sy, depth);
                goal(&format!("{}{}{} w>0", tag, sx, sy), gt(c.w, k(0)));
            }
        }
    }
    // = frustum of the implied symmetric planes
    let (t, r) = (n * th, n * th * aspect);
    let fr = M::planes(&name.replace("perspective_fov_", "frustum_").replace("perspective_", "frustum_"), &[-r, r, -t, t, n, f]);
    goals_mat("=frustum(symmetric planes)", &m.ent(), &fr.ent());
}
fn infinite<T: Sx, M: Proj<T>>(name: &'static str) {
    let (fov, a, n) = (var::<T>("fov"), var::<T>("aspect"), var::<T>("n"));
    assume(gt(a, k(0)));
    assume(gt(fov, k(0)));
    assume(lt(fov, T::PI()));
    assume(gt(n, k(0)));
    check_defined();
    let tweaked = name.starts_with("tweaked");
    let eps = if tweaked { var::<T>("eps") } else { k(0) };
    let m = if tweaked { M::persp(name, &[fov, a, n, eps]) } else { M::persp(name, &[fov, a, n]) };
    let th = (fov / k(2)).tan();
    let lh = name.ends_with("_lh");
    let zs = k::<T>(if lh { 1 } else { -1 });
    // every view-space distance d>0: x,y of the frustum edge map to +-1, depth(d) = (1-eps) - (2-eps) n/d, w = d
    let d = var::<T>("d");
    assume(gt(d, k(0)));
    for sx in [-1i64, 1] {
        for sy in [-1i64, 1] {
            let c = m.mulv(v4(&[k::<T>(sx) * d * th * a, k::<T>(sy) * d * th, zs * d, k(1)]));
            goal(&format!("edge{}{}", sx, sy), and(vec![eq(c.w, d), eq(c.x, k::<T>(sx) * c.w), eq(c.y, k::<T>(sy) * c.w), eq(c.z * d, ((k::<T>(1) - eps) * d - (k::<T>(2) - eps) * n) * c.w)]));
        }
    }
    if !tweaked {
        let t = M::persp(&format!("tweaked_{}", name), &[fov, a, n, k(0)]);
        goals_mat("=tweaked(eps=0)", &m.ent(), &t.ent());
    }
}
/// a left-handed variant equals the right-handed one composed with a z mirror: column 2 negated
fn lh_is_rh_mirrored<T: Sx, M: Proj<T>>(rh: &'static str) {
    let lh = rh.replace("_rh", "_lh");
    let (a, b): (M, M) = if rh.starts_with("orthographic") || rh.starts_with("frustum") {
        let p = planes_sym::<T>();
        assume(ne(p[0], p[1]));
        assume(ne(p[2], p[3]));
        assume(ne(p[4], p[5]));
        (M::planes(rh, &p), M::planes(&lh, &p))
    } else {
        let nargs = if rh.contains("_fov_") { 5 } else if rh.starts_with("infinite") { 3 } else { 4 };
        let args: Vec<T> = (0..nargs).map(|i| var::<T>(&format!("a{}", i))).collect();
        // the constructors' documented sign preconditions (their debug assertions)
        assume(gt(args[0], k(0)));
        assume(lt(args[0], T::PI()));
        for x in &args[1..nargs.min(if rh.contains("tweaked") { 3 } else { nargs })] {
            assume(gt(*x, k(0)));
        }
        if !rh.contains("infinite") {
            assume(gt(args[nargs - 1], args[nargs - 2]));
        }
        (M::persp(rh, &args), M::persp(&lh, &args))
    };
    let (a, b) = (a.ent(), b.ent());
    for i in 0..4 {
        for j in 0..4 {
            goal(&format!("[{}][{}]", i, j), eq(b[i][j], if j == 2 { -a[i][j] } else { a[i][j] }));
        }
    }
}

pub fn register(v: &mut Vec<Scenario>) {
    macro_rules! per { ($($M:ident)+) => { $(
        for name in ["orthographic_without_depth_planes", "orthographic_lh_zo", "orthographic_lh_no", "orthographic_rh_zo", "orthographic_rh_no"] {
            scen!(v, "C08", 0, format!("c08/{}/{}", name, stringify!($M)), ["Mat4::orthographic_*"], ortho::<$M<T_>>(name));
        }
        for name in ["frustum_lh_zo", "frustum_lh_no", "frustum_rh_zo", "frustum_rh_no"] {
            scen!(v, "C08", 0, format!("c08/{}/{}", name, stringify!($M)), ["Mat4::frustum_*"], frustum::<$M<T_>>(name));
        }
        for name in ["perspective_rh_zo", "perspective_lh_zo", "perspective_rh_no", "perspective_lh_no", "perspective_fov_rh_zo", "perspective_fov_lh_zo", "perspective_fov_rh_no", "perspective_fov_lh_no"] {
            scen!(v, "C08", 0, format!("c08/{}/{}", name, stringify!($M)), ["Mat4::perspective_*", "Mat4::perspective_fov_*", "Mat4::frustum_*"], perspective::<$M<T_>>(name));
        }
        for name in ["tweaked_infinite_perspective_rh", "tweaked_infinite_perspective_lh", "infinite_perspective_rh", "infinite_perspective_lh"] {
            scen!(v, "C08", 0, format!("c08/{}/{}", name, stringify!($M)), ["Mat4::tweaked_infinite_perspective_*", "Mat4::infinite_perspective_*"], infinite::<$M<T_>>(name));
        }
        for name in ["orthographic_rh_zo", "orthographic_rh_no", "frustum_rh_zo", "frustum_rh_no", "perspective_rh_zo", "perspective_rh_no", "perspective_fov_rh_zo", "perspective_fov_rh_no", "tweaked_infinite_perspective_rh", "infinite_perspective_rh"] {
            scen!(v, "C08", 0, format!("c08/lh=rh*zmirror/{}/{}", name, stringify!($M)), ["*_lh", "*_rh"], lh_is_rh_mirrored::<$M<T_>>(name));
        }
    )+ } }
    per!(Rows4 Cols4);
}
