//! C19 (exact-real part) — embedding a smaller matrix and vector commutes with multiplication;
//! inverted_rgb is an involution.
use crate::core::*;
use crate::explore::Scenario;
use crate::mats::*;
use crate::real::Sx;
use crate::vecs::{Rgb, Rgba, VK};

fn embed<T: Sx>(rows: bool) {
    let (a2, a3) = (sym_mat::<T>("m", 2), sym_mat::<T>("n", 3));
    let (p2, p3) = (sym_vec::<T>("v", 2), sym_vec::<T>("w", 3));
    macro_rules! go { ($M2:ident $M3:ident $M4:ident) => {{
        let (m2, m3) = ($M2::of(&a2), $M3::of(&a3));
        let (r2, r3) = (VL::ent(&(m2 * v2(&p2))), VL::ent(&(m3 * v3(&p3))));
        // growing a vector appends zeros; growing a matrix pads with the identity: M' * v' = (M*v)'
        goals_vec("2->3", &VL::ent(&($M3::from(m2) * Vec3::from(v2(&p2)))), &[r2[0], r2[1], k(0)]);
        goals_vec("2->4", &VL::ent(&($M4::from(m2) * Vec4::from(v2(&p2)))), &[r2[0], r2[1], k(0), k(0)]);
        goals_vec("3->4", &VL::ent(&($M4::from(m3) * Vec4::from(v3(&p3)))), &[r3[0], r3[1], r3[2], k(0)]);
        // points (w = 1) and directions (w = 0)
        goals_vec("3->4 point", &VL::ent(&($M4::from(m3) * Vec4::from_point(v3(&p3)))), &[r3[0], r3[1], r3[2], k(1)]);
        goals_vec("2->3 point", &VL::ent(&($M3::from(m2) * Vec3::from_point_2d(v2(&p2)))), &[r2[0], r2[1], k(1)]);
        // growing with supplied scalars: the padding of the matrix is the identity, so the supplied lanes come through
        let (z, w) = (var::<T>("z"), var::<T>("w"));
        goals_vec("2->3 supplied z", &VL::ent(&($M3::from(m2) * Vec3::from((v2(&p2), z)))), &[r2[0], r2[1], z]);
        goals_vec("3->4 supplied w", &VL::ent(&($M4::from(m3) * Vec4::from((v3(&p3), w)))), &[r3[0], r3[1], r3[2], w]);
        goals_vec("2->4 supplied z, w", &VL::ent(&($M4::from(m2) * Vec4::from((Vec3::from((v2(&p2), z)), w)))), &[r2[0], r2[1], z, w]);
        goals_vec("2->4 point", &VL::ent(&($M4::from(m2) * Vec4::from_point(Vec3::from(v2(&p2))))), &[r2[0], r2[1], k(0), k(1)]);
    }} }
    if rows { go!(Rows2 Rows3 Rows4) } else { go!(Cols2 Cols3 Cols4) }
}
fn involution<T: Sx>() {
    let a: Vec<T> = (0..4).map(|i| var::<T>(&format!("c{}", i))).collect();
    // `full()` is 1 for real colour components; the involution needs only full - (full - x) = x
    let rgb = Rgb::of(&a[..3]);
    let rgba = Rgba::of(&a);
    goals_vec("Rgb", &rgb.inverted_rgb().inverted_rgb().ent(), &a[..3]);
    goals_vec("Rgba (alpha preserved)", &rgba.inverted_rgb().inverted_rgb().ent(), &a);
}
pub fn register(v: &mut Vec<Scenario>) {
    scen!(v, "C19", 0, "c19/embed/rows", ["Mat3::from(Mat2)", "Mat4::from(Mat2)", "Mat4::from(Mat3)", "Vec3::from(Vec2)", "Vec4::from(Vec2|Vec3)", "from_point*", "Mul"], embed(true));
    scen!(v, "C19", 0, "c19/embed/cols", ["Mat3::from(Mat2)", "Mat4::from(Mat2)", "Mat4::from(Mat3)", "Vec3::from(Vec2)", "Vec4::from(Vec2|Vec3)", "from_point*", "Mul"], embed(false));
    scen!(v, "C19", 0, "c19/inverted_rgb_involution", ["Rgb::inverted_rgb", "Rgba::inverted_rgb"], involution());
}
