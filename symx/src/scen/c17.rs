//! C17 (exact-real part) — clamp, range test, wrap, ping-pong and angle difference obey their range laws.
//! The float impls are vek's own macro bodies (hook H1) instantiated at the symbolic scalar.
use crate::core::*;
use crate::explore::Scenario;
use crate::real::Sx;
use crate::vecs::*;
use num_traits::Float;
use vek::ops::{partial_max, partial_min, Clamp, IsBetween, Wrap};

fn clamp_law<T: Sx>(form: usize) {
    let (x, lo, hi) = (var::<T>("x"), var::<T>("lo"), var::<T>("hi"));
    let r = catch(|| match form {
        0 => x.clamped(lo, hi),
        1 => <T as Clamp>::clamp(x, lo, hi),
        2 => x.clamped_to_inclusive_range(lo..=hi),
        _ => <T as Clamp>::clamp_to_inclusive_range(x, lo..=hi),
    });
    goal("panics exactly when lower > upper", iff(lit(r.is_err()), gt(lo, hi)));
    if let Ok(v) = r {
        goal("value itself inside, nearer bound outside", or(vec![and(vec![le(lo, x), le(x, hi), eq(v, x)]), and(vec![lt(x, lo), eq(v, lo)]), and(vec![gt(x, hi), eq(v, hi)])]));
        goal("result within the bounds", and(vec![le(lo, v), le(v, hi)]));
        let again = v.clamped(lo, hi);
        goal("idempotent", eq(again, v));
    }
}
fn clamp_aliases<T: Sx>() {
    let x = var::<T>("x");
    let c01 = |y: T| if y < k(0) { k(0) } else if y > k(1) { k(1) } else { y };
    let c11 = |y: T| if y < k(-1) { k(-1) } else if y > k(1) { k(1) } else { y };
    goal("clamped01", eq(x.clamped01(), c01(x)));
    goal("clamp01", eq(<T as Clamp>::clamp01(x), c01(x)));
    goal("clamped_minus1_1", eq(x.clamped_minus1_1(), c11(x)));
    goal("clamp_minus1_1", eq(<T as Clamp>::clamp_minus1_1(x), c11(x)));
}
fn between_law<T: Sx>(form: usize) {
    let (x, lo, hi) = (var::<T>("x"), var::<T>("lo"), var::<T>("hi"));
    let r = catch(|| match form {
        0 => x.is_between(lo, hi),
        _ => x.is_between_inclusive_range_bounds(lo..=hi),
    });
    goal("panics exactly when lower > upper", iff(lit(r.is_err()), gt(lo, hi)));
    if let Ok(b) = r {
        goal("is_between <=> lower <= x <= upper", iff(lit(b), and(vec![le(lo, x), le(x, hi)])));
        let c = x.clamped(lo, hi);
        goal("agrees with clamp: is_between <=> clamped == self", iff(lit(b), eq(c, x)));
    }
}
fn between01<T: Sx>() {
    let x = var::<T>("x");
    goal("is_between01", iff(lit(x.is_between01()), and(vec![le(k(0), x), le(x, k(1))])));
    let (a, b) = (var::<T>("a"), var::<T>("b"));
    let (mn, mx) = (partial_min(a, b), partial_max(a, b));
    goal("partial_min", and(vec![le(mn, a), le(mn, b), or(vec![eq(mn, a), eq(mn, b)])]));
    goal("partial_max", and(vec![ge(mx, a), ge(mx, b), or(vec![eq(mx, a), eq(mx, b)])]));
}
fn wrapped<T: Sx>(form: usize) {
    let (x, up) = (var::<T>("x"), var::<T>("up"));
    let r = catch(|| if form == 0 { x.wrapped(up) } else { <T as Wrap>::wrap(x, up) });
    goal("panics exactly when upper <= 0", iff(lit(r.is_err()), le(up, k(0))));
    if let Ok(v) = r {
        goal("in [0, upper)", and(vec![le(k(0), v), lt(v, up)]));
        let kk = (x / up).floor();
        goal("congruent to the input modulo upper", eq(v, x - kk * up));
    }
}
fn wrapped_between<T: Sx>(form: usize) {
    let (x, lo, up) = (var::<T>("x"), var::<T>("lo"), var::<T>("up"));
    let r = catch(|| if form == 0 { x.wrapped_between(lo, up) } else { <T as Wrap>::wrap_between(x, lo, up) });
    goal("panics exactly on inverted or negative bounds", iff(lit(r.is_err()), or(vec![ge(lo, up), lt(lo, k(0)), le(up, k(0))])));
    if let Ok(v) = r {
        goal("in [lower, upper)", and(vec![le(lo, v), lt(v, up)]));
        let kk = ((x - lo) / (up - lo)).floor();
        goal("congruent to the input modulo the period", eq(v, x - kk * (up - lo)));
    }
}
fn pingpong<T: Sx>() {
    let (x, up) = (var::<T>("x"), var::<T>("up"));
    let r = catch(|| x.pingpong(up));
    goal("panics exactly when upper <= 0", iff(lit(r.is_err()), le(up, k(0))));
    if let Ok(v) = r {
        goal("in [0, upper]", and(vec![le(k(0), v), le(v, up)]));
        // triangle wave of period 2*upper
        let two = up + up;
        let m = x - (x / two).floor() * two;
        goal("triangle wave", or(vec![and(vec![le(m, up), eq(v, m)]), and(vec![gt(m, up), eq(v, two - m)])]));
    }
}
fn angles<T: Sx>(degrees: bool) {
    let (a, b) = (var::<T>("a"), var::<T>("b"));
    let (full, half) = if degrees { (k::<T>(360), k::<T>(180)) } else { (T::PI() + T::PI(), T::PI()) };
    let d = if degrees { a.delta_angle_degrees(b) } else { a.delta_angle(b) };
    goal("in (-half turn, half turn]", and(vec![gt(d, -half), le(d, half)]));
    let kk = ((b - a) / full).floor();
    goal("congruent to target - self modulo a full turn", or(vec![eq(d, (b - a) - kk * full), eq(d, (b - a) - (kk + k(1)) * full)]));
    if !degrees {
        let x = var::<T>("x");
        goal("wrapped_2pi = wrapped(2 PI)", eq(x.wrapped_2pi(), x.wrapped(full)));
        goal("wrap_2pi", eq(<T as Wrap>::wrap_2pi(x), x.wrapped(full)));
    }
}
pub trait WV<T>: VK<T> + Copy {
    fn lifts(self, lo: Self, hi: Self, slo: T, shi: T, which: usize) -> (Vec<T>, Vec<bool>);
}
macro_rules! wv { ($($V:ident)+) => { $( impl<T: Sx> WV<T> for $V<T> {
    fn lifts(self, lo: Self, hi: Self, slo: T, shi: T, which: usize) -> (Vec<T>, Vec<bool>) {
        match which {
            0 => (self.wrapped(hi).ent(), vec![]), 1 => (self.wrapped(shi).ent(), vec![]),
            2 => (self.wrapped_between(lo, hi).ent(), vec![]), 3 => (self.wrapped_between(slo, shi).ent(), vec![]),
            4 => (self.pingpong(hi).ent(), vec![]), 5 => (self.pingpong(shi).ent(), vec![]),
            6 => (self.clamped(lo, hi).ent(), vec![]), 7 => (self.clamped(slo, shi).ent(), vec![]),
            8 => (vec![], self.is_between(lo, hi).ent()), _ => (vec![], self.is_between(slo, shi).ent()),
        }
    }
} )+ } }
wv!(Vec2 Vec3 Vec4 Extent2 Extent3 Rgb Rgba Uv Uvw Vec8);
/// the vector forms apply the scalar law per element (vector bounds and broadcast scalar bounds)
fn vector_lift<T: Sx, V: WV<T>>(which: usize) {
    set_max_decisions(96);
    let sv = |p: &str| -> Vec<T> { (0..V::N).map(|i| var::<T>(&format!("{}{}", p, i))).collect() };
    let (x, lo, hi) = (sv("x"), sv("lo"), sv("hi"));
    let (slo, shi) = (var::<T>("slo"), var::<T>("shi"));
    // documented preconditions, so that no lane panics
    for i in 0..V::N {
        assume(ge(lo[i], k(0)));
        assume(lt(lo[i], hi[i]));
    }
    assume(ge(slo, k(0)));
    assume(lt(slo, shi));
    let (r, m) = V::of(&x).lifts(V::of(&lo), V::of(&hi), slo, shi, which);
    let scalar = which % 2 == 1;
    let bounds = |i: usize| -> (T, T) { if scalar { (slo, shi) } else { (lo[i], hi[i]) } };
    match which / 2 {
        0 => goal("wrapped per element", and((0..V::N).map(|i| eq(r[i], x[i].wrapped(bounds(i).1))).collect())),
        1 => goal("wrapped_between per element", and((0..V::N).map(|i| eq(r[i], x[i].wrapped_between(bounds(i).0, bounds(i).1))).collect())),
        2 => goal("pingpong per element", and((0..V::N).map(|i| eq(r[i], x[i].pingpong(bounds(i).1))).collect())),
        3 => goal("clamped per element", and((0..V::N).map(|i| eq(r[i], x[i].clamped(bounds(i).0, bounds(i).1))).collect())),
        _ => goal("is_between per element", and((0..V::N).map(|i| iff(lit(m[i]), and(vec![le(bounds(i).0, x[i]), le(x[i], bounds(i).1)]))).collect())),
    }
}

pub fn register(v: &mut Vec<Scenario>) {
    for form in 0..4usize { scen!(v, "C17", 0, format!("c17/float/clamp/form{}", form), ["impl_clamp_float (hook H1)", "Clamp::clamped", "clamp", "*_inclusive_range"], clamp_law(form)); }
    scen!(v, "C17", 0, "c17/float/clamp_aliases", ["clamped01", "clamp01", "clamped_minus1_1", "clamp_minus1_1"], clamp_aliases());
    for form in 0..2usize { scen!(v, "C17", 0, format!("c17/float/is_between/form{}", form), ["impl_clamp_float (hook H1)", "IsBetween::is_between", "is_between_inclusive_range_bounds"], between_law(form)); }
    scen!(v, "C17", 0, "c17/float/between01_partial_minmax", ["is_between01", "partial_min", "partial_max"], between01());
    for form in 0..2usize {
        scen!(v, "C17", 0, format!("c17/float/wrapped/form{}", form), ["wrap_impl_float (hook H1)", "Wrap::wrapped", "wrap"], wrapped(form));
        scen!(v, "C17", 0, format!("c17/float/wrapped_between/form{}", form), ["wrap_impl_float (hook H1)", "Wrap::wrapped_between", "wrap_between"], wrapped_between(form));
    }
    scen!(v, "C17", 0, "c17/float/pingpong", ["wrap_impl_float (hook H1)", "Wrap::pingpong"], pingpong());
    scen!(v, "C17", 0, "c17/float/delta_angle", ["Wrap::delta_angle", "wrapped_2pi", "wrap_2pi"], angles(false));
    scen!(v, "C17", 0, "c17/float/delta_angle_degrees", ["Wrap::delta_angle_degrees"], angles(true));
    macro_rules! per { ($tier:expr; $($V:ident)+) => { $(
        for which in 0..10usize { scen!(v, "C17", $tier, format!("c17/vector/{}/{}", ["wrapped(vec)", "wrapped(scalar)", "wrapped_between(vec)", "wrapped_between(scalar)", "pingpong(vec)", "pingpong(scalar)", "clamped(vec)", "clamped(scalar)", "is_between(vec)", "is_between(scalar)"][which], stringify!($V)), ["Wrap/Clamp/IsBetween for vectors"], vector_lift::<$V<T_>>(which)); }
    )+ } }
    per!(0; Vec2 Vec3 Extent2 Rgb Uv);
    per!(1; Vec4 Extent3 Rgba Uvw Vec8);
}
