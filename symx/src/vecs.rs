//! All 13 vek vector types seen as plain lists of their fields in declaration order, built and read
//! through the public fields only (never through the API under test). Generated text, kept explicit.
pub use vek::vec::repr_c::{Extent2, Extent3, Rgb, Rgba, Uv, Uvw, Vec16, Vec2, Vec3, Vec32, Vec4, Vec64, Vec8};

pub trait VK<T>: Sized {
    const N: usize;
    const NAME: &'static str;
    fn of(a: &[T]) -> Self
    where
        T: Clone;
    fn ent(self) -> Vec<T>;
}

impl<T> VK<T> for Vec2<T> {
    const N: usize = 2;
    const NAME: &'static str = "Vec2";
    fn of(a: &[T]) -> Self where T: Clone { Vec2 { x: a[0].clone(), y: a[1].clone() } }
    fn ent(self) -> Vec<T> { let Vec2 { x, y } = self; vec![x, y] }
}

impl<T> VK<T> for Vec3<T> {
    const N: usize = 3;
    const NAME: &'static str = "Vec3";
    fn of(a: &[T]) -> Self where T: Clone { Vec3 { x: a[0].clone(), y: a[1].clone(), z: a[2].clone() } }
    fn ent(self) -> Vec<T> { let Vec3 { x, y, z } = self; vec![x, y, z] }
}

impl<T> VK<T> for Vec4<T> {
    const N: usize = 4;
    const NAME: &'static str = "Vec4";
    fn of(a: &[T]) -> Self where T: Clone { Vec4 { x: a[0].clone(), y: a[1].clone(), z: a[2].clone(), w: a[3].clone() } }
    fn ent(self) -> Vec<T> { let Vec4 { x, y, z, w } = self; vec![x, y, z, w] }
}

impl<T> VK<T> for Extent2<T> {
    const N: usize = 2;
    const NAME: &'static str = "Extent2";
    fn of(a: &[T]) -> Self where T: Clone { Extent2 { w: a[0].clone(), h: a[1].clone() } }
    fn ent(self) -> Vec<T> { let Extent2 { w, h } = self; vec![w, h] }
}

impl<T> VK<T> for Extent3<T> {
    const N: usize = 3;
    const NAME: &'static str = "Extent3";
    fn of(a: &[T]) -> Self where T: Clone { Extent3 { w: a[0].clone(), h: a[1].clone(), d: a[2].clone() } }
    fn ent(self) -> Vec<T> { let Extent3 { w, h, d } = self; vec![w, h, d] }
}

impl<T> VK<T> for Rgb<T> {
    const N: usize = 3;
    const NAME: &'static str = "Rgb";
    fn of(a: &[T]) -> Self where T: Clone { Rgb { r: a[0].clone(), g: a[1].clone(), b: a[2].clone() } }
    fn ent(self) -> Vec<T> { let Rgb { r, g, b } = self; vec![r, g, b] }
}

impl<T> VK<T> for Rgba<T> {
    const N: usize = 4;
    const NAME: &'static str = "Rgba";
    fn of(a: &[T]) -> Self where T: Clone { Rgba { r: a[0].clone(), g: a[1].clone(), b: a[2].clone(), a: a[3].clone() } }
    fn ent(self) -> Vec<T> { let Rgba { r, g, b, a } = self; vec![r, g, b, a] }
}

impl<T> VK<T> for Uv<T> {
    const N: usize = 2;
    const NAME: &'static str = "Uv";
    fn of(a: &[T]) -> Self where T: Clone { Uv { u: a[0].clone(), v: a[1].clone() } }
    fn ent(self) -> Vec<T> { let Uv { u, v } = self; vec![u, v] }
}

impl<T> VK<T> for Uvw<T> {
    const N: usize = 3;
    const NAME: &'static str = "Uvw";
    fn of(a: &[T]) -> Self where T: Clone { Uvw { u: a[0].clone(), v: a[1].clone(), w: a[2].clone() } }
    fn ent(self) -> Vec<T> { let Uvw { u, v, w } = self; vec![u, v, w] }
}

impl<T> VK<T> for Vec8<T> {
    const N: usize = 8;
    const NAME: &'static str = "Vec8";
    fn of(a: &[T]) -> Self where T: Clone { Vec8(a[0].clone(), a[1].clone(), a[2].clone(), a[3].clone(), a[4].clone(), a[5].clone(), a[6].clone(), a[7].clone()) }
    fn ent(self) -> Vec<T> { let Vec8(a0, a1, a2, a3, a4, a5, a6, a7) = self; vec![a0, a1, a2, a3, a4, a5, a6, a7] }
}

impl<T> VK<T> for Vec16<T> {
    const N: usize = 16;
    const NAME: &'static str = "Vec16";
    fn of(a: &[T]) -> Self where T: Clone { Vec16(a[0].clone(), a[1].clone(), a[2].clone(), a[3].clone(), a[4].clone(), a[5].clone(), a[6].clone(), a[7].clone(), a[8].clone(), a[9].clone(), a[10].clone(), a[11].clone(), a[12].clone(), a[13].clone(), a[14].clone(), a[15].clone()) }
    fn ent(self) -> Vec<T> { let Vec16(a0, a1, a2, a3, a4, a5, a6, a7, a8, a9, a10, a11, a12, a13, a14, a15) = self; vec![a0, a1, a2, a3, a4, a5, a6, a7, a8, a9, a10, a11, a12, a13, a14, a15] }
}

impl<T> VK<T> for Vec32<T> {
    const N: usize = 32;
    const NAME: &'static str = "Vec32";
    fn of(a: &[T]) -> Self where T: Clone { Vec32(a[0].clone(), a[1].clone(), a[2].clone(), a[3].clone(), a[4].clone(), a[5].clone(), a[6].clone(), a[7].clone(), a[8].clone(), a[9].clone(), a[10].clone(), a[11].clone(), a[12].clone(), a[13].clone(), a[14].clone(), a[15].clone(), a[16].clone(), a[17].clone(), a[18].clone(), a[19].clone(), a[20].clone(), a[21].clone(), a[22].clone(), a[23].clone(), a[24].clone(), a[25].clone(), a[26].clone(), a[27].clone(), a[28].clone(), a[29].clone(), a[30].clone(), a[31].clone()) }
    fn ent(self) -> Vec<T> { let Vec32(a0, a1, a2, a3, a4, a5, a6, a7, a8, a9, a10, a11, a12, a13, a14, a15, a16, a17, a18, a19, a20, a21, a22, a23, a24, a25, a26, a27, a28, a29, a30, a31) = self; vec![a0, a1, a2, a3, a4, a5, a6, a7, a8, a9, a10, a11, a12, a13, a14, a15, a16, a17, a18, a19, a20, a21, a22, a23, a24, a25, a26, a27, a28, a29, a30, a31] }
}

impl<T> VK<T> for Vec64<T> {
    const N: usize = 64;
    const NAME: &'static str = "Vec64";
    fn of(a: &[T]) -> Self where T: Clone { Vec64(a[0].clone(), a[1].clone(), a[2].clone(), a[3].clone(), a[4].clone(), a[5].clone(), a[6].clone(), a[7].clone(), a[8].clone(), a[9].clone(), a[10].clone(), a[11].clone(), a[12].clone(), a[13].clone(), a[14].clone(), a[15].clone(), a[16].clone(), a[17].clone(), a[18].clone(), a[19].clone(), a[20].clone(), a[21].clone(), a[22].clone(), a[23].clone(), a[24].clone(), a[25].clone(), a[26].clone(), a[27].clone(), a[28].clone(), a[29].clone(), a[30].clone(), a[31].clone(), a[32].clone(), a[33].clone(), a[34].clone(), a[35].clone(), a[36].clone(), a[37].clone(), a[38].clone(), a[39].clone(), a[40].clone(), a[41].clone(), a[42].clone(), a[43].clone(), a[44].clone(), a[45].clone(), a[46].clone(), a[47].clone(), a[48].clone(), a[49].clone(), a[50].clone(), a[51].clone(), a[52].clone(), a[53].clone(), a[54].clone(), a[55].clone(), a[56].clone(), a[57].clone(), a[58].clone(), a[59].clone(), a[60].clone(), a[61].clone(), a[62].clone(), a[63].clone()) }
    fn ent(self) -> Vec<T> { let Vec64(a0, a1, a2, a3, a4, a5, a6, a7, a8, a9, a10, a11, a12, a13, a14, a15, a16, a17, a18, a19, a20, a21, a22, a23, a24, a25, a26, a27, a28, a29, a30, a31, a32, a33, a34, a35, a36, a37, a38, a39, a40, a41, a42, a43, a44, a45, a46, a47, a48, a49, a50, a51, a52, a53, a54, a55, a56, a57, a58, a59, a60, a61, a62, a63) = self; vec![a0, a1, a2, a3, a4, a5, a6, a7, a8, a9, a10, a11, a12, a13, a14, a15, a16, a17, a18, a19, a20, a21, a22, a23, a24, a25, a26, a27, a28, a29, a30, a31, a32, a33, a34, a35, a36, a37, a38, a39, a40, a41, a42, a43, a44, a45, a46, a47, a48, a49, a50, a51, a52, a53, a54, a55, a56, a57, a58, a59, a60, a61, a62, a63] }
}
