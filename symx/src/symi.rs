//! `SymI<SIGNED>` — bounded mathematical integers for vek's integer macro bodies (C17), all widths at once.
//!
//! Values are Int-sorted terms with Rust's truncating `/` and `%`. The machine type is modelled by a
//! symbolic bound `M` (its `MAX`): a signed value lives in [-M-1, M], an unsigned one in [0, M], and
//! **every intermediate result carries the obligation "stays inside that range"** — exactly the
//! dev-profile overflow panic / the release-profile wrap-around of the bit-level semantics. Proving an
//! obligation for every M >= 1 proves it for i8..i64/isize (u8..usize) at once; a satisfiable one is
//! re-solved with M pinned to a real width and replayed on the native type.

use crate::core::*;
use std::ops::*;

#[derive(Copy, Clone, Debug)]
pub struct SymI<const SIGNED: bool>(pub u32);
pub type SymIS = SymI<true>;
pub type SymIU = SymI<false>;

fn mk(n: Node) -> u32 {
    with(|e| e.mk(n))
}
fn cnst(n: i128) -> u32 {
    mk(Node::Const(n, 1))
}
fn m() -> u32 {
    mk(Node::Var("M".into()))
}
fn node(i: u32) -> Node {
    with(|e| e.nodes[i as usize].clone())
}
fn le_f(a: u32, b: u32) -> Fm {
    if let (Node::Const(x, _), Node::Const(y, _)) = (node(a), node(b)) {
        return Fm::Lit(x <= y);
    }
    Fm::C(with(|e| e.mk_cond(Cond::Le(a, b))))
}
impl<const S: bool> SymI<S> {
    fn lo() -> u32 {
        if S {
            // -M-1
            mk(Node::Sub(mk(Node::Neg(m())), cnst(1)))
        } else {
            cnst(0)
        }
    }
    pub fn in_range(x: u32) -> Fm {
        and(vec![le_f(Self::lo(), x), le_f(x, m())])
    }
    /// a machine operation produced `n`: record "no overflow here, given none before"
    fn ranged(n: u32, what: &str) -> Self {
        let ok = Self::in_range(n);
        if !matches!(ok, Fm::Lit(true)) {
            with(|e| {
                if !e.range_assumed {
                    let k = e.range_obl.len();
                    let prev: Vec<Fm> = e.hyps.iter().filter(|(g, _)| g == "law/").map(|(_, f)| f.clone()).collect();
                    e.range_obl.push((format!("range#{} {}", k, what), imp(and(prev), ok.clone())));
                }
                // later obligations and the law/ goals may assume it (the code would have panicked otherwise)
                e.hyps.push(("law/".into(), ok));
            });
        }
        SymI(n)
    }
    fn konst(n: i128) -> Self {
        SymI(cnst(n))
    }
}
fn fold2(op: u8, a: u32, b: u32) -> Option<i128> {
    if let (Node::Const(x, _), Node::Const(y, _)) = (node(a), node(b)) {
        return match op {
            0 => x.checked_add(y),
            1 => x.checked_sub(y),
            2 => x.checked_mul(y),
            3 if y != 0 => Some(x / y),
            4 if y != 0 => Some(x % y),
            _ => None,
        };
    }
    None
}
macro_rules! arith { ($Tr:ident $f:ident $op:expr, $N:ident, $what:literal) => {
    impl<const S: bool> $Tr for SymI<S> {
        type Output = SymI<S>;
        fn $f(self, o: SymI<S>) -> SymI<S> {
            if let Some(c) = fold2($op, self.0, o.0) { return SymI::<S>::ranged(cnst(c), $what); }
            // x+0, 0+x, x-0, x*1, 1*x are the operand itself in every machine type (no overflow possible)
            let (za, zb) = (matches!(node(self.0), Node::Const(0, _)), matches!(node(o.0), Node::Const(0, _)));
            let (oa, ob) = (matches!(node(self.0), Node::Const(1, _)), matches!(node(o.0), Node::Const(1, _)));
            match $op { 0 if zb => return self, 0 if za => return o, 1 if zb => return self, 2 if ob => return self, 2 if oa => return o, _ => {} }
            SymI::<S>::ranged(mk(Node::$N(self.0, o.0)), $what)
        }
    }
} }
arith!(Add add 0, Add, "+");
arith!(Sub sub 1, Sub, "-");
arith!(Mul mul 2, Mul, "*");
impl<const S: bool> Div for SymI<S> {
    type Output = SymI<S>;
    fn div(self, o: SymI<S>) -> SymI<S> {
        // division by zero panics in every profile: an obligation as well
        with(|e| {
            let k = e.range_obl.len();
            let z = e.mk(Node::Const(0, 1));
            let c = e.mk_cond(Cond::Eq(o.0, z));
            let prev: Vec<Fm> = e.hyps.iter().filter(|(g, _)| g == "law/").map(|(_, f)| f.clone()).collect();
            e.range_obl.push((format!("range#{} divisor != 0", k), imp(and(prev), not(Fm::C(c)))));
            e.hyps.push(("law/".into(), not(Fm::C(c))));
        });
        if let Some(c) = fold2(3, self.0, o.0) {
            return SymI::<S>::ranged(cnst(c), "/");
        }
        if matches!(node(self.0), Node::Const(0, _)) {
            return self; // 0 / y = 0 for every non-zero y (the divisor obligation is recorded above)
        }
        SymI::<S>::ranged(mk(Node::IDiv(self.0, o.0)), "/")
    }
}
impl<const S: bool> Rem for SymI<S> {
    type Output = SymI<S>;
    fn rem(self, o: SymI<S>) -> SymI<S> {
        with(|e| {
            let k = e.range_obl.len();
            let z = e.mk(Node::Const(0, 1));
            let c = e.mk_cond(Cond::Eq(o.0, z));
            let prev: Vec<Fm> = e.hyps.iter().filter(|(g, _)| g == "law/").map(|(_, f)| f.clone()).collect();
            e.range_obl.push((format!("range#{} divisor != 0", k), imp(and(prev), not(Fm::C(c)))));
            e.hyps.push(("law/".into(), not(Fm::C(c))));
        });
        if let Some(c) = fold2(4, self.0, o.0) {
            return SymI::<S>::ranged(cnst(c), "%");
        }
        if matches!(node(self.0), Node::Const(0, _)) {
            return self; // 0 % y = 0 for every non-zero y
        }
        // MIN % -1 overflows in Rust as well: the quotient must be representable
        let _q = SymI::<S>::ranged(mk(Node::IDiv(self.0, o.0)), "% (its quotient)");
        SymI::<S>::ranged(mk(Node::IRem(self.0, o.0)), "%")
    }
}
impl Neg for SymI<true> {
    type Output = SymI<true>;
    fn neg(self) -> SymI<true> {
        SymI::<true>::ranged(mk(Node::Neg(self.0)), "neg")
    }
}
/// The inherent method surface of the primitive integers that vek's integer macro bodies (hook H1) may reach for
/// (`Ord` already gives `min`, `max`, `clamp`). Every arithmetic step keeps its "stays in the type's range" obligation.
#[allow(dead_code)]
impl<const S: bool> SymI<S> {
    pub fn rem_euclid(self, rhs: Self) -> Self {
        let r = self % rhs;
        if r < Self::konst(0) { if rhs < Self::konst(0) { r - rhs } else { r + rhs } } else { r }
    }
    pub fn div_euclid(self, rhs: Self) -> Self {
        let q = self / rhs;
        if self % rhs < Self::konst(0) { if rhs > Self::konst(0) { q - Self::konst(1) } else { q + Self::konst(1) } } else { q }
    }
}
#[allow(dead_code)]
impl SymI<true> {
    pub fn abs(self) -> Self { if self < Self::konst(0) { -self } else { self } }
    pub fn signum(self) -> Self { if self < Self::konst(0) { Self::konst(-1) } else if self > Self::konst(0) { Self::konst(1) } else { Self::konst(0) } }
}
impl<const S: bool> AddAssign for SymI<S> { fn add_assign(&mut self, o: Self) { *self = *self + o; } }
impl<const S: bool> SubAssign for SymI<S> { fn sub_assign(&mut self, o: Self) { *self = *self - o; } }
impl<const S: bool> MulAssign for SymI<S> { fn mul_assign(&mut self, o: Self) { *self = *self * o; } }
impl<const S: bool> DivAssign for SymI<S> { fn div_assign(&mut self, o: Self) { *self = *self / o; } }
impl<const S: bool> RemAssign for SymI<S> { fn rem_assign(&mut self, o: Self) { *self = *self % o; } }
fn ccmp(a: u32, b: u32) -> Option<std::cmp::Ordering> {
    if a == b {
        return Some(std::cmp::Ordering::Equal);
    }
    if let (Node::Const(x, _), Node::Const(y, _)) = (node(a), node(b)) {
        return Some(x.cmp(&y));
    }
    None
}
impl<const S: bool> PartialEq for SymI<S> {
    fn eq(&self, o: &Self) -> bool {
        if let Some(c) = ccmp(self.0, o.0) { return c == std::cmp::Ordering::Equal; }
        let (x, y) = if self.0 <= o.0 { (self.0, o.0) } else { (o.0, self.0) };
        decide(Cond::Eq(x, y))
    }
}
impl<const S: bool> Eq for SymI<S> {}
impl<const S: bool> PartialOrd for SymI<S> {
    fn partial_cmp(&self, o: &Self) -> Option<std::cmp::Ordering> { Some(Ord::cmp(self, o)) }
    fn lt(&self, o: &Self) -> bool { if let Some(c) = ccmp(self.0, o.0) { return c == std::cmp::Ordering::Less; } decide(Cond::Lt(self.0, o.0)) }
    fn le(&self, o: &Self) -> bool { if let Some(c) = ccmp(self.0, o.0) { return c != std::cmp::Ordering::Greater; } decide(Cond::Le(self.0, o.0)) }
    fn gt(&self, o: &Self) -> bool { o.lt(self) }
    fn ge(&self, o: &Self) -> bool { o.le(self) }
}
impl<const S: bool> Ord for SymI<S> {
    fn cmp(&self, o: &Self) -> std::cmp::Ordering {
        use std::cmp::Ordering::*;
        if self.lt(o) { Less } else if self == o { Equal } else { Greater }
    }
}
/// `full()` of an integer colour component is the type's MAX
impl<const S: bool> vek::ops::ColorComponent for SymI<S> { fn full() -> Self { SymI(m()) } }
impl<const S: bool> From<u8> for SymI<S> { fn from(x: u8) -> Self { Self::konst(x as i128) } }
impl<const S: bool> num_traits::Zero for SymI<S> { fn zero() -> Self { Self::konst(0) } fn is_zero(&self) -> bool { *self == Self::konst(0) } }
impl<const S: bool> num_traits::One for SymI<S> { fn one() -> Self { Self::konst(1) } }
impl<const S: bool> Sc for SymI<S> {
    fn input(name: &str) -> Self {
        let v = mk(Node::Var(name.to_string()));
        // inputs are values of the machine type
        let f = Self::in_range(v);
        with(|e| {
            if !e.pre.iter().any(|p| format!("{:?}", p) == format!("{:?}", f)) {
                e.pre.push(f);
            }
        });
        SymI(v)
    }
    fn q(n: i64, _d: i64) -> Self { Self::konst(n as i128) }
    fn f_eq(a: Self, b: Self) -> Fm { if let Some(c) = ccmp(a.0, b.0) { return Fm::Lit(c == std::cmp::Ordering::Equal); } Fm::C(with(|e| e.mk_cond(Cond::Eq(a.0, b.0)))) }
    fn f_le(a: Self, b: Self) -> Fm { le_f(a.0, b.0) }
    fn f_lt(a: Self, b: Self) -> Fm { if let Some(c) = ccmp(a.0, b.0) { return Fm::Lit(c == std::cmp::Ordering::Less); } Fm::C(with(|e| e.mk_cond(Cond::Lt(a.0, b.0)))) }
    fn node_id(self) -> Option<u32> { Some(self.0) }
}
/// The laws of C17 as formulas, stated in unbounded integers (no range obligations): for the symbolic
/// scalar through a Euclidean quotient/remainder pair introduced by a definitional assumption (such a
/// pair always exists and is unique), for the native types by computing in i128.
pub trait IntLaw: Sc {
    /// r = lo + ((x - lo) mod (hi - lo)), the unique value in [lo, hi) congruent to x
    fn wrap_law(r: Self, x: Self, lo: Self, hi: Self) -> Fm;
    /// triangle wave of period 2*up
    fn pingpong_law(r: Self, x: Self, up: Self) -> Fm;
}
/// every integer-sorted quotient term (`a / b`, and the quotient behind `a % b`) the executed code has built so far
fn quotient_nodes() -> Vec<u32> {
    with(|e| e.nodes.iter().enumerate().filter(|(_, n)| matches!(n, Node::IDiv(..))).map(|(i, _)| i as u32).collect())
}
/// candidate witnesses for "the difference is a multiple of the period": sums of the code's own quotients with
/// coefficients in {-1,0,1} plus a constant in -2..=2 (an existential proved by exhibiting the witness; the
/// disjunction is over a finite candidate set, so proving it proves the existential, never the converse)
fn witnesses() -> Vec<u32> {
    let qs = quotient_nodes();
    let mut out = vec![];
    let n = qs.len().min(4);
    for code in 0..3usize.pow(n as u32) {
        let mut c = code;
        let mut acc: Option<u32> = None;
        for q in qs.iter().take(n) {
            let k = c % 3;
            c /= 3;
            acc = match (k, acc) {
                (0, a) => a,
                (1, None) => Some(*q),
                (1, Some(a)) => Some(mk(Node::Add(a, *q))),
                (_, None) => Some(mk(Node::Neg(*q))),
                (_, Some(a)) => Some(mk(Node::Sub(a, *q))),
            };
        }
        for d in -2i128..=2 {
            out.push(match acc { None => cnst(d), Some(a) => if d == 0 { a } else { mk(Node::Add(a, cnst(d))) } });
        }
    }
    out
}
impl<const S: bool> IntLaw for SymI<S> {
    /// "r is congruent to x modulo the period hi - lo": there is an integer K with r - x = K * (hi - lo); together
    /// with the separately proved `lo <= r < hi` that makes r *the* representative (uniqueness of Euclidean
    /// division is arithmetic, not a fact about the code). K is exhibited from the code's own quotients.
    fn wrap_law(r: Self, x: Self, lo: Self, hi: Self) -> Fm {
        let period = mk(Node::Sub(hi.0, lo.0));
        let c = |c: Cond| Fm::C(with(|e| e.mk_cond(c)));
        let diff = mk(Node::Sub(r.0, x.0));
        or(witnesses().into_iter().map(|k| c(Cond::Eq(diff, mk(Node::Mul(k, period))))).collect())
    }
    /// triangle wave of period 2*up: r is congruent to x or to -x modulo 2*up (and, proved separately, 0 <= r <= up)
    fn pingpong_law(r: Self, x: Self, up: Self) -> Fm {
        let two = mk(Node::Add(up.0, up.0));
        let c = |c: Cond| Fm::C(with(|e| e.mk_cond(c)));
        let (d1, d2) = (mk(Node::Sub(r.0, x.0)), mk(Node::Add(r.0, x.0)));
        let mut alts = vec![];
        for k in witnesses() {
            let kp = mk(Node::Mul(k, two));
            alts.push(c(Cond::Eq(d1, kp)));
            alts.push(c(Cond::Eq(d2, kp)));
        }
        or(alts)
    }
}

/// vek's own integer macro bodies (hook H1) at the bounded-integer scalars
mod h1 {
    use super::{SymIS, SymIU};
    use num_traits::{self, One, Zero};
    use std::cmp;
    use vek::ops::*;
    vek::impl_clamp_integer! {SymIS SymIU}
    vek::wrap_impl_sint! {SymIS}
    vek::wrap_impl_uint! {SymIU}
}

// ---------------------------------------------------------------------------------------------
// native replay types: the scenario runs on the real i8/i16/i32/i64 (u8..u64) impls; oracles in i128
// ---------------------------------------------------------------------------------------------
#[derive(Copy, Clone, Debug, PartialEq, Eq, PartialOrd, Ord)]
pub struct Wide(pub i128);
macro_rules! native_int { ($($T:ident)+) => { $(
    impl Sc for $T {
        fn input(name: &str) -> Self {
            with(|e| {
                let v: i128 = if let Some(v) = e.inputs.get(name) { v.split('/').next().unwrap().trim().parse().unwrap_or(0) } else {
                    // boundary-biased draw
                    let r = e.next_u64();
                    let (lo, hi) = ($T::MIN as i128, $T::MAX as i128);
                    match r % 6 { 0 => lo + ((r >> 8) % 4) as i128, 1 => hi - ((r >> 8) % 4) as i128, 2 => ((r >> 8) % 7) as i128 - if lo < 0 { 3 } else { 0 }, _ => lo + ((r >> 8) as i128).rem_euclid(hi - lo + 1) }
                };
                let v = v.clamp($T::MIN as i128, $T::MAX as i128);
                e.drawn.push((name.to_string(), v.to_string()));
                e.inputs.insert(name.to_string(), v.to_string());
                v as $T
            })
        }
        fn q(n: i64, _d: i64) -> Self { n as $T }
        fn f_eq(a: Self, b: Self) -> Fm { Fm::V(Tri::of(a == b)) }
        fn f_le(a: Self, b: Self) -> Fm { Fm::V(Tri::of(a <= b)) }
        fn f_lt(a: Self, b: Self) -> Fm { Fm::V(Tri::of(a < b)) }
    }
)+ } }
native_int!(i8 i16 i32 i64 u8 u16 u32 u64);
macro_rules! native_law { ($($T:ident)+) => { $(
    impl IntLaw for $T {
        fn wrap_law(r: Self, x: Self, lo: Self, hi: Self) -> Fm {
            let (r, x, lo, hi) = (r as i128, x as i128, lo as i128, hi as i128);
            if hi - lo <= 0 { return Fm::V(Tri::U); }
            Fm::V(Tri::of(r == lo + (x - lo).rem_euclid(hi - lo)))
        }
        fn pingpong_law(r: Self, x: Self, up: Self) -> Fm {
            let (r, x, up) = (r as i128, x as i128, up as i128);
            if up <= 0 { return Fm::V(Tri::U); }
            let m = x.rem_euclid(2 * up);
            Fm::V(Tri::of(r == if m <= up { m } else { 2 * up - m }))
        }
    }
)+ } }
native_law!(i8 i16 i32 i64 u8 u16 u32 u64);
