//! symx — engine S of /verif. See /verif/DESIGN.md §1.
//!
//!   symx list
//!   symx emit   --out DIR [--prop C01] [--tier quick|thorough] [--only SUBSTR] [--jobs N]
//!   symx replay --scenario NAME --engine f64|cn [--inputs FILE] [--seed N] [--samples K]
mod core;
mod emit;
mod explore;
mod mats;
mod opq;
mod real;
mod bez;
mod scen;
mod symi;
mod vecs;

use std::io::Write;
use std::sync::{Arc, Mutex};

fn arg(args: &[String], key: &str) -> Option<String> {
    args.iter().position(|a| a == key).and_then(|i| args.get(i + 1).cloned())
}

fn main() {
    std::panic::set_hook(Box::new(|_| {}));
    let args: Vec<String> = std::env::args().skip(1).collect();
    let cmd = args.get(0).cloned().unwrap_or_default();
    let all = scen::all();
    match cmd.as_str() {
        "list" => {
            for s in &all {
                println!("{{\"name\":{},\"prop\":{},\"tier\":{},\"funcs\":{}}}", emit::jstr(&s.name), emit::jstr(s.prop), s.tier, emit::jlist(&s.funcs.iter().map(|f| emit::jstr(f)).collect::<Vec<_>>()));
            }
        }
        "emit" => {
            let out = arg(&args, "--out").expect("--out DIR");
            let prop = arg(&args, "--prop");
            let tier = arg(&args, "--tier").unwrap_or("quick".into());
            let only = arg(&args, "--only");
            let jobs: usize = arg(&args, "--jobs").and_then(|s| s.parse().ok()).unwrap_or(16);
            std::fs::create_dir_all(&out).unwrap();
            let maxtier = if tier == "thorough" { 1 } else { 0 };
            let sel: Vec<explore::Scenario> = all.into_iter().filter(|s| prop.as_ref().map_or(true, |p| s.prop == p) && s.tier <= maxtier && only.as_ref().map_or(true, |o| s.name.contains(o.as_str()))).collect();
            let n = sel.len();
            let queue = Arc::new(Mutex::new((0usize, sel)));
            let results = Arc::new(Mutex::new(Vec::<String>::new()));
            let mut hs = vec![];
            for _ in 0..jobs.min(n.max(1)) {
                let (queue, results, out) = (queue.clone(), results.clone(), out.clone());
                hs.push(std::thread::Builder::new().stack_size(256 << 20).spawn(move || loop {
                    // take the next scenario index; scenarios are read through the shared vector
                    let idx = { let mut q = queue.lock().unwrap(); let i = q.0; if i >= q.1.len() { break; } q.0 += 1; i };
                    let scp: *const explore::Scenario = { let q = queue.lock().unwrap(); &q.1[idx] as *const _ };
                    // SAFETY: the vector is never mutated after construction and outlives the threads (joined below)
                    let sc: &explore::Scenario = unsafe { &*scp };
                    let t0 = std::time::Instant::now();
                    let (lines, st) = explore::explore(sc);
                    let fname = format!("{}/{}.jsonl", out, sc.name.replace('/', "__").replace('*', "x"));
                    let mut f = std::io::BufWriter::new(std::fs::File::create(&fname).unwrap());
                    for l in &lines { writeln!(f, "{}", l).unwrap(); }
                    let (tq, tt) = sc.timeout.unwrap_or((0, 0));
                    results.lock().unwrap().push(format!(
                        "{{\"name\":{},\"prop\":{},\"file\":{},\"paths\":{},\"panicked\":{},\"aborted\":{},\"bounded_out\":{},\"goals\":{},\"decisions\":{},\"nodes\":{},\"explore_s\":{:.3},\"timeout_q\":{},\"timeout_t\":{},\"has_f64\":{},\"has_cn\":{},\"extra\":{},\"funcs\":{}}}",
                        emit::jstr(&sc.name), emit::jstr(sc.prop), emit::jstr(&fname), st.paths, st.panicked, st.aborted, st.bounded_out, st.goals, st.decisions, st.nodes, t0.elapsed().as_secs_f64(), tq, tt, sc.f64_.is_some(), sc.cn.is_some(),
                        emit::jlist(&sc.extra.iter().map(|(n, p, _)| format!("[{},{}]", emit::jstr(n), emit::jstr(p))).collect::<Vec<_>>()),
                        emit::jlist(&sc.funcs.iter().map(|f| emit::jstr(f)).collect::<Vec<_>>())));
                }).unwrap());
            }
            for h in hs { h.join().unwrap(); }
            let mut idx = std::fs::File::create(format!("{}/index.jsonl", out)).unwrap();
            for r in results.lock().unwrap().iter() { writeln!(idx, "{}", r).unwrap(); }
            println!("emitted {} scenarios to {}", n, out);
        }
        "replay" => {
            let name = arg(&args, "--scenario").expect("--scenario");
            let engine = arg(&args, "--engine").unwrap_or("f64".into());
            let seed: u64 = arg(&args, "--seed").and_then(|s| s.parse().ok()).unwrap_or(0);
            let samples: u64 = arg(&args, "--samples").and_then(|s| s.parse().ok()).unwrap_or(1);
            let mut inputs = vec![];
            if let Some(f) = arg(&args, "--inputs") {
                for l in std::fs::read_to_string(&f).expect("inputs file").lines() {
                    if let Some((k, v)) = l.trim().split_once(' ') { inputs.push((k.to_string(), v.trim().to_string())); }
                }
            }
            let sc = all.iter().find(|s| s.name == name).unwrap_or_else(|| { eprintln!("no scenario {}", name); std::process::exit(2) });
            let h = std::thread::Builder::new().stack_size(256 << 20).spawn({
                let scp = sc as *const explore::Scenario as usize;
                move || {
                    let sc: &explore::Scenario = unsafe { &*(scp as *const explore::Scenario) };
                    for i in 0..samples { println!("{}", explore::replay(sc, &engine, &inputs, seed.wrapping_add(i))); }
                }
            }).unwrap();
            h.join().unwrap();
        }
        _ => { eprintln!("usage: symx list | emit --out DIR [--prop P] [--tier T] [--only S] | replay --scenario N --engine f64|cn [--inputs F] [--seed N] [--samples K]"); std::process::exit(2); }
    }
}
