//! The four Bézier curve types behind one trait: control points as coordinate lists.
use crate::real::Sx;
use crate::vecs::*;
pub use vek::bezier::repr_c::{CubicBezier2, CubicBezier3, QuadraticBezier2, QuadraticBezier3};
use vek::geom::repr_c::{Aabb, Aabr, LineSegment2, LineSegment3};

pub trait Bz<T>: Copy {
    const DEG: usize;
    const DIM: usize;
    fn of(p: &[Vec<T>]) -> Self;
    fn pts(self) -> Vec<Vec<T>>;
    fn eval(self, t: T) -> Vec<T>;
    fn deriv(self, t: T) -> Vec<T>;
    fn tangent(self, t: T) -> Vec<T>;
    fn split_(self, t: T) -> [Self; 2];
    fn reversed_(self) -> Self;
    fn reverse_(&mut self);
    fn flipped(self, axis: usize) -> Self;
    fn flip(&mut self, axis: usize);
    fn matrix_() -> Vec<Vec<T>>;
    fn from_segment(a: &[T], b: &[T]) -> Self;
    fn from_range(a: &[T], b: &[T]) -> Self;
    fn via_vector(self) -> Vec<Vec<T>>;
    fn via_tuple(self) -> Vec<Vec<T>>;
    fn via_array(self) -> Vec<Vec<T>>;
    fn from_vector(p: &[Vec<T>]) -> Self;
    // C15
    /// inflection parameters along an axis (0, 1 or 2 of them)
    fn inflections(self, axis: usize) -> Vec<T>;
    fn min_t(self, axis: usize) -> T;
    fn max_t(self, axis: usize) -> T;
    fn bounds_t(self, axis: usize) -> (T, T);
    fn aabr_(self) -> (Vec<T>, Vec<T>);
    fn aabb_(self) -> Option<(Vec<T>, Vec<T>)>;
    fn length(self, steps: u16) -> T;
    fn search_steps(self, p: &[T], steps: u16, eps: T) -> (T, Vec<T>);
    fn search(self, p: &[T], coarse: Vec<(T, Vec<T>)>, h: T, eps: T) -> (T, Vec<T>);
}
macro_rules! bz_common { ($B:ident $P:ident $Seg:ident $deg:expr, $dim:expr, ($($f:ident)+), $Vn:ident) => {
    const DEG: usize = $deg;
    const DIM: usize = $dim;
    fn of(p: &[Vec<T>]) -> Self { let mut i = 0; $B { $($f: { i += 1; $P::of(&p[i - 1]) }),+ } }
    fn pts(self) -> Vec<Vec<T>> { vec![$(self.$f.ent()),+] }
    fn eval(self, t: T) -> Vec<T> { self.evaluate(t).ent() }
    fn deriv(self, t: T) -> Vec<T> { self.evaluate_derivative(t).ent() }
    fn tangent(self, t: T) -> Vec<T> { self.normalized_tangent(t).ent() }
    fn split_(self, t: T) -> [Self; 2] { self.split(t) }
    fn reversed_(self) -> Self { self.reversed() }
    fn reverse_(&mut self) { self.reverse() }
    fn matrix_() -> Vec<Vec<T>> { crate::mats::ML::ent(&$B::<T>::matrix()) }
    fn from_segment(a: &[T], b: &[T]) -> Self { $B::from($Seg { start: $P::of(a), end: $P::of(b) }) }
    fn from_range(a: &[T], b: &[T]) -> Self { $B::from($P::of(a)..$P::of(b)) }
    fn via_vector(self) -> Vec<Vec<T>> { let v: $Vn<$P<T>> = self.into(); v.ent().into_iter().map(|p| p.ent()).collect() }
    fn via_array(self) -> Vec<Vec<T>> { self.into_array().iter().map(|p| p.ent()).collect() }
    fn from_vector(p: &[Vec<T>]) -> Self { let pts: Vec<$P<T>> = p.iter().map(|x| $P::of(x)).collect(); $B::from($Vn::of(&pts)) }
    fn aabr_(self) -> (Vec<T>, Vec<T>) { let Aabr { min, max } = self.aabr(); (min.ent(), max.ent()) }
    fn length(self, steps: u16) -> T { self.length_by_discretization(steps) }
    fn search_steps(self, p: &[T], steps: u16, eps: T) -> (T, Vec<T>) { let (t, q) = self.binary_search_point_by_steps($P::of(p), steps, eps); (t, q.ent()) }
    fn search(self, p: &[T], coarse: Vec<(T, Vec<T>)>, h: T, eps: T) -> (T, Vec<T>) { let (t, q) = self.binary_search_point($P::of(p), coarse.into_iter().map(|(t, q)| (t, $P::of(&q))), h, eps); (t, q.ent()) }
} }
macro_rules! axis2 { ($s:ident, $axis:ident, $fx:ident, $fy:ident) => { match $axis { 0 => $s.$fx(), _ => $s.$fy() } } }
macro_rules! axis3 { ($s:ident, $axis:ident, $fx:ident, $fy:ident, $fz:ident) => { match $axis { 0 => $s.$fx(), 1 => $s.$fy(), _ => $s.$fz() } } }
fn opt1<T>(o: Option<T>) -> Vec<T> { o.into_iter().collect() }
fn opt2<T>(o: Option<(T, Option<T>)>) -> Vec<T> { match o { None => vec![], Some((a, None)) => vec![a], Some((a, Some(b))) => vec![a, b] } }

impl<T: Sx> Bz<T> for QuadraticBezier2<T> {
    bz_common!(QuadraticBezier2 Vec2 LineSegment2 2, 2, (start ctrl end), Vec3);
    fn via_tuple(self) -> Vec<Vec<T>> { let (a, b, c) = self.into_tuple(); vec![a.ent(), b.ent(), c.ent()] }
    fn flipped(self, axis: usize) -> Self { axis2!(self, axis, flipped_x, flipped_y) }
    fn flip(&mut self, axis: usize) { axis2!(self, axis, flip_x, flip_y) }
    fn inflections(self, axis: usize) -> Vec<T> { opt1(axis2!(self, axis, x_inflection, y_inflection)) }
    fn min_t(self, axis: usize) -> T { axis2!(self, axis, min_x, min_y) }
    fn max_t(self, axis: usize) -> T { axis2!(self, axis, max_x, max_y) }
    fn bounds_t(self, axis: usize) -> (T, T) { axis2!(self, axis, x_bounds, y_bounds) }
    fn aabb_(self) -> Option<(Vec<T>, Vec<T>)> { None }
}
impl<T: Sx> Bz<T> for CubicBezier2<T> {
    bz_common!(CubicBezier2 Vec2 LineSegment2 3, 2, (start ctrl0 ctrl1 end), Vec4);
    fn via_tuple(self) -> Vec<Vec<T>> { let (a, b, c, d) = self.into_tuple(); vec![a.ent(), b.ent(), c.ent(), d.ent()] }
    fn flipped(self, axis: usize) -> Self { axis2!(self, axis, flipped_x, flipped_y) }
    fn flip(&mut self, axis: usize) { axis2!(self, axis, flip_x, flip_y) }
    fn inflections(self, axis: usize) -> Vec<T> { opt2(axis2!(self, axis, x_inflections, y_inflections)) }
    fn min_t(self, axis: usize) -> T { axis2!(self, axis, min_x, min_y) }
    fn max_t(self, axis: usize) -> T { axis2!(self, axis, max_x, max_y) }
    fn bounds_t(self, axis: usize) -> (T, T) { axis2!(self, axis, x_bounds, y_bounds) }
    fn aabb_(self) -> Option<(Vec<T>, Vec<T>)> { None }
}
impl<T: Sx> Bz<T> for QuadraticBezier3<T> {
    bz_common!(QuadraticBezier3 Vec3 LineSegment3 2, 3, (start ctrl end), Vec3);
    fn via_tuple(self) -> Vec<Vec<T>> { let (a, b, c) = self.into_tuple(); vec![a.ent(), b.ent(), c.ent()] }
    fn flipped(self, axis: usize) -> Self { axis3!(self, axis, flipped_x, flipped_y, flipped_z) }
    fn flip(&mut self, axis: usize) { axis3!(self, axis, flip_x, flip_y, flip_z) }
    fn inflections(self, axis: usize) -> Vec<T> { opt1(axis3!(self, axis, x_inflection, y_inflection, z_inflection)) }
    fn min_t(self, axis: usize) -> T { axis3!(self, axis, min_x, min_y, min_z) }
    fn max_t(self, axis: usize) -> T { axis3!(self, axis, max_x, max_y, max_z) }
    fn bounds_t(self, axis: usize) -> (T, T) { axis3!(self, axis, x_bounds, y_bounds, z_bounds) }
    fn aabb_(self) -> Option<(Vec<T>, Vec<T>)> { let Aabb { min, max } = self.aabb(); Some((min.ent(), max.ent())) }
}
impl<T: Sx> Bz<T> for CubicBezier3<T> {
    bz_common!(CubicBezier3 Vec3 LineSegment3 3, 3, (start ctrl0 ctrl1 end), Vec4);
    fn via_tuple(self) -> Vec<Vec<T>> { let (a, b, c, d) = self.into_tuple(); vec![a.ent(), b.ent(), c.ent(), d.ent()] }
    fn flipped(self, axis: usize) -> Self { axis3!(self, axis, flipped_x, flipped_y, flipped_z) }
    fn flip(&mut self, axis: usize) { axis3!(self, axis, flip_x, flip_y, flip_z) }
    fn inflections(self, axis: usize) -> Vec<T> { opt2(axis3!(self, axis, x_inflections, y_inflections, z_inflections)) }
    fn min_t(self, axis: usize) -> T { axis3!(self, axis, min_x, min_y, min_z) }
    fn max_t(self, axis: usize) -> T { axis3!(self, axis, max_x, max_y, max_z) }
    fn bounds_t(self, axis: usize) -> (T, T) { axis3!(self, axis, x_bounds, y_bounds, z_bounds) }
    fn aabb_(self) -> Option<(Vec<T>, Vec<T>)> { let Aabb { min, max } = self.aabb(); Some((min.ent(), max.ent())) }
}
