#!/bin/sh
# quiet build of symx: prints only errors
cd /verif/symx && CARGO_NET_OFFLINE=true RUSTFLAGS="--cfg yoanlcq_vek_verif" CARGO_TARGET_DIR=/verif/.build/symx cargo build --release --offline --message-format short 2>&1 | grep -E "error|Finished" | grep -v "^warning" | head -${1:-40}
